"""C10 - global floorplanning returns a feasible allocation and rigid hard modules
(tools/glbfloor/optimization.py, Module.recenter_rectangles, Allocation).

Two parts, both run against the working tree of the repository on every run:

(a) correspondence of the logical shell with the Gallina model (coq/Glb/Extract.v), exact stream:
    * kind "extract": `extract_solution` is driven directly with a synthetic solved "model" (plain floats, or
      objects answering `.value.value` like a GEKKO variable) on generated cells / netlist modules; the
      returned cells, centres and rectangles (or the exception) must equal the model's `extract`;
    * kind "recenter": `Module.recenter_rectangles` on generated multi-rectangle hard modules;
    * kind "recenter_co": the same call at COINCIDENCES - the centre set by the caller is the area-weighted centre of
      the rectangles plus, per axis, 0 / less than / exactly / more than the distance epsilon / a grid step / far, half
      of the cases with a coincidence in one axis only (a module that is already on its x must still move in y);
    * kind "fixrule": `optimize_allocation` is run up to (not including) the solver call and the table
      `model.a` (which entries are Python floats, with which value, which are GEKKO variables) must equal
      `model_a` / `get_a` / `neighbours` / `problem_modules` of the model;
    * kind "system" (harness/props/c10_sys.py): `optimize_allocation` is run up to the solver call and the WHOLE
      constraint system it handed to GEKKO (variables with bounds, every (in)equation; captured from the GEKKO
      object, g.sum objects substituted away, variables identified through model.a / model.x / model.y / model.d,
      never through their names) must equal `gen_system` of coq/Glb/System.v, equation by equation as canonical
      polynomials; the direct oracle checks on the captured system that every cell's occupancy is bounded by an
      inequality and, where it is not, asks the real solver for a concrete over-occupied answer.
(b) runtime exploration, kind "run": real `glbfloor(...)` runs (GEKKO's local solver) on small generated
    instances.  Every call of `optimize_allocation` / `extract_solution` inside the run is recorded and
    replayed through the model (the recorded solver values are the model's `sol`), the solver contract
    SolOK is monitored, and the direct oracle checks the property text on the returned (die, allocation).
"""
from __future__ import annotations

import math
import tempfile
from fractions import Fraction as F

from harness import core, fr
from harness.core import gq, gbool, gstr, glist, gopt
from harness.props import alloc_common as ac
from harness.props import c10_sys as cs

HEADER = """From FrameModel Require Import Num.QcTac Geometry.Rect Cases.Cmp Alloc.Alloc Cases.CmpAlloc Glb.Extract Cases.CmpC10 Glb.System Glb.SystemFacts Cases.CmpC10Sys.
Open Scope Qc_scope."""

TOL = F(1, 10 ** 6)      # the tolerance of the direct oracle / SolOK monitor ("within solver tolerance")

ASSUMPTIONS = [
    "the theorems cover the logical shell only and are conditional on the solver contract SolOK (0 <= a <= 1, movable "
    "centres inside the die box, per-cell sum <= 1 + tol, constants returned for the entries the code fixed) at every "
    "iteration; that GEKKO/IPOPT output satisfies SolOK is NOT proved - it is monitored on every real run (tolerance 1e-6) "
    "and reported in the evidence (solok_*)",
    "no theorem covers termination of the refine/optimise loop when max_iter is None; the model follows the loop with "
    "explicit fuel and the theorem speaks about runs that return",
    "iteration limits >= 1 (the command line asserts max_iter > 0); glbfloor(max_iter=0) returns the unoptimised initial "
    "allocation and is outside the property ('whenever global floorplanning returns' = after at least one optimisation)",
    "extract_fixed needs 0 < threshold and tol <= 1 - threshold (a fixed cell is shared with another module only by solver "
    "noise, which the filter a > 1 - threshold then removes); thresholds explored on real runs: 0.5, 0.8, 0.95",
    "fixed modules own cells whose rectangle IS the module rectangle (the Die hands the netlist's Rectangle objects to the "
    "allocation); module names are unique valid identifiers (Netlist guarantees both)",
    "oracle tolerances: 1e-6 (absolute on ratios and sums; times the larger die side on coordinates; times the die area "
    "on overlap areas); ratios must be in [0,1] exactly (the Allocation constructor enforces it)",
    "exact stream: dyadic coordinates and solver values, thresholds whose 1 - t is exact in binary64; rectangles of movable "
    "hard modules are compared exactly when the module area is a power of two and within 16 roundings otherwise",
    "names f'{m}_{r}' of the fake one-rectangle modules are modelled literally (decimal index); the model mirrors the code "
    "REPAIRED by fixes/C10-fake-name-clash.diff (a netlist module bearing such a name: AssertionError = gen_system None); on "
    "the unrepaired tree such netlists are generated (about 1 in 12 system cases, 1 in 16 runs) and reported as the open "
    "known finding C10/fake-name-clash",
    "the constraint system: C10_system_feasible_solok / C10_glb_from_system replace the hypothesis SolOK by 'the solver "
    "returned a point feasible for the system it was given' (bounds exactly, every (in)equation within tol; SolOK then holds "
    "with tolerance tol * (1 + number of movable hard modules)); that IPOPT's answer is feasible within tol is still not "
    "proved - it is monitored (solok_*). The objective (g.Minimize) is not part of the model; area ** (3/2) is an "
    "uninterpreted function (the floats the code computed are handed to the model by the harness); terminals and "
    "dispersion functions other than the default x^2 + y^2 are not modelled",
    "system comparison: coefficients within 256 roundings (2^-53 each) at the magnitude of the equation (the code multiplies "
    "and divides Python floats before GEKKO sees them; exact for dyadic inputs); equations compared as a multiset of "
    "canonical polynomials (order of equations / terms, position of constants, a == b vs b == a do not matter); the "
    "initial values of the variables (value=) are not compared (no clause of the property depends on them)",
    "the probe: when (and only when) the captured system leaves the occupancy of a cell unbounded the real solver is run "
    "on the GEKKO model the code built - first with the code's objective, then with the objective replaced by 'maximise "
    "the occupancy of that cell' (variables, bounds and equations untouched) - and the property is checked on what the real "
    "extract_solution returns; such a failure is keyed .../probe/... and says so in its text. On a tree whose system bounds "
    "every cell the probe never runs",
    "module names that differ only in letter case make GEKKO refuse the model ('Duplicate Names': it lower-cases variable "
    "names) - nothing is returned; such netlists are not generated",
]


# ======================================================================================
# small helpers
# ======================================================================================
def is_pow2(q: F) -> bool:
    q = F(q)
    return q > 0 and (q.numerator & (q.numerator - 1)) == 0 and (q.denominator & (q.denominator - 1)) == 0


def rect_d(cx, cy, w, h, fixed=False, hard=False, region="_", loc="NOPOLY"):
    return {"cx": cx, "cy": cy, "w": w, "h": h, "fixed": fixed, "hard": hard, "region": region, "loc": loc}


def box_rect(b, **kw):
    return rect_d((b[0] + b[2]) / 2, (b[1] + b[3]) / 2, b[2] - b[0], b[3] - b[1], **kw)


def rbox(r):
    cx, cy, w, h = (core.frac(r[k]) for k in ("cx", "cy", "w", "h"))
    return cx - w / 2, cy - h / 2, cx + w / 2, cy + h / 2


def rarea(r):
    return core.frac(r["w"]) * core.frac(r["h"])


def fake(m, r):
    return f"{m}_{r}"


def stog_rects(rng, den=2):
    """A trunk with 0-3 branches on distinct sides (relative coordinates, trunk centred at 0,0)."""
    W = F(rng.choice([1, 2, 2, 4]), 1)
    H = F(rng.choice([1, 2, 2, 4]), 1)
    rects = [(F(0), F(0), W, H)]
    sides = rng.sample(["N", "S", "E", "W"], rng.choice([0, 1, 1, 2, 2, 3]))
    for s in sides:
        d = F(rng.choice([1, 1, 2]), rng.choice([1, 2]))
        if s in "NS":
            w = W * F(rng.choice([1, 2, 4]), 4)
            off = (W - w) / 2 * rng.choice([-1, 0, 0, 1])
            cy = (H / 2 + d / 2) * (1 if s == "N" else -1)
            rects.append((off, cy, w, d))
        else:
            h = H * F(rng.choice([1, 2, 4]), 4)
            off = (H - h) / 2 * rng.choice([-1, 0, 0, 1])
            cx = (W / 2 + d / 2) * (1 if s == "E" else -1)
            rects.append((cx, off, d, h))
    return rects


# ======================================================================================
# generators (a)
# ======================================================================================
THS = [F(1, 2), F(3, 4), F(15, 16), 0.95, 0.8, F(1), F(0), F(1, 4), F(1, 16), F(7, 8)]


def gen_modules(rng, boxes, W, H):
    """Netlist modules over a partition `boxes` of the die: fixed modules take whole boxes."""
    n = len(boxes)
    idx = list(range(n))
    rng.shuffle(idx)
    mods, fixed_of_box = [], {}
    nfix = min(rng.choice([0, 0, 1, 1, 2]), max(0, n - 1))
    k = 0
    for f in range(nfix):
        take = min(rng.choice([1, 1, 2]), n - 1 - k)
        if take <= 0:
            break
        name = f"F{f}"
        rs = []
        for b in idx[k:k + take]:
            fixed_of_box[b] = name
            rs.append(box_rect(boxes[b], fixed=True, hard=True))
        k += take
        ta = sum(rarea(r) for r in rs)
        c = (sum(core.frac(r["cx"]) * rarea(r) for r in rs) / ta, sum(core.frac(r["cy"]) * rarea(r) for r in rs) / ta)
        mods.append({"name": name, "hard": True, "fixed": True, "flip": False, "center": list(c), "rects": rs})
    for s in range(rng.choice([0, 1, 1, 2, 3])):
        side = F(rng.choice([1, 2, 2, 4]), rng.choice([1, 2]))
        c = [F(rng.randrange(0, int(W * 4) + 1), 4), F(rng.randrange(0, int(H * 4) + 1), 4)]
        mods.append({"name": f"S{s}", "hard": False, "fixed": False, "flip": False, "center": c,
                     "rects": [rect_d(c[0], c[1], side, side)]})
    for h in range(rng.choice([0, 1, 1, 2])):
        rel = stog_rects(rng)
        ox, oy = F(rng.randrange(0, int(W * 4) + 1), 4), F(rng.randrange(0, int(H * 4) + 1), 4)
        rs = [rect_d(ox + x, oy + y, w, hh, hard=True, loc=("TRUNK" if i == 0 else "NOPOLY"))
              for i, (x, y, w, hh) in enumerate(rel)]
        for i in range(1, len(rs)):
            rs[i]["loc"] = rng.choice(["NORTH", "SOUTH", "EAST", "WEST"])
        ta = sum(rarea(r) for r in rs)
        c = [sum(core.frac(r["cx"]) * rarea(r) for r in rs) / ta, sum(core.frac(r["cy"]) * rarea(r) for r in rs) / ta]
        mods.append({"name": f"H{h}", "hard": True, "fixed": False, "flip": rng.random() < 0.6, "center": c, "rects": rs})
    if not mods:
        mods.append({"name": "S0", "hard": False, "fixed": False, "flip": False, "center": [W / 2, H / 2],
                     "rects": [rect_d(W / 2, H / 2, F(1), F(1))]})
    rng.shuffle(mods)
    return mods, fixed_of_box


def near(rng, v):
    """A float value at / next to v."""
    v = float(v)
    if v == 0.0:          # no denormals: ratio * area would underflow to 0 in binary64 (outside the exact stream)
        return rng.choice([0.0, 2.0 ** -60, -2.0 ** -60, 2.0 ** -30, -2.0 ** -30, 2.0 ** -10])
    return rng.choice([v, math.nextafter(v, 2.0), math.nextafter(v, -1.0), v + 2.0 ** -30, v - 2.0 ** -30,
                       v + 2.0 ** -10, v - 2.0 ** -10])


def gen_extract(rng):
    W = F(rng.randrange(4, 17), 2)
    H = F(rng.randrange(4, 17), 2)
    boxes = ac.guillotine(rng, (F(0), F(0), W, H), rng.randrange(2, 8))
    mods, fixed_of_box = gen_modules(rng, boxes, W, H)
    t = rng.choice(THS)
    tf = float(t)
    one_minus_t = 1 - tf                    # the float the code compares with (exact for these thresholds)
    style = rng.choice(["solok", "solok", "solok", "noise", "edge", "edge", "wild", "sparse"])
    cells = [box_rect(b, fixed=(i in fixed_of_box), hard=(i in fixed_of_box)) for i, b in enumerate(boxes)]
    order = list(range(len(cells)))
    rng.shuffle(order)
    cells = [cells[i] for i in order]
    owner = [fixed_of_box.get(i) for i in order]
    if style == "wild" and rng.random() < 0.3 and len(cells) > 1:
        # malformed: two overlapping cells -> the constructor must reject
        b = rbox(cells[0])
        cells[1] = box_rect((b[0], b[1], b[2] + F(1, 2), b[3]))
    movable = [m for m in mods if not m["fixed"]]
    a = {m["name"]: [] for m in mods}
    for c, cell in enumerate(cells):
        vals = {m["name"]: 0.0 for m in mods}
        if owner[c] is not None:
            vals[owner[c]] = 1.0
            if style == "noise":
                for m in movable:
                    vals[m["name"]] = rng.choice([0.0, 2.0 ** -40, 2.0 ** -20, 1e-9, 2.0 ** -7])
            if style == "wild" and rng.random() < 0.3:
                vals[owner[c]] = rng.choice([0.5, 0.0, 1.0 + 2.0 ** -30])
        elif movable:
            left = F(1)
            for m in rng.sample(movable, rng.randrange(0, len(movable) + 1)):
                if style == "edge":
                    v = near(rng, rng.choice([one_minus_t, one_minus_t, 1.0, 0.0, tf]))
                elif style == "wild":
                    v = rng.choice([0.0, 0.25, 0.5, 1.0, 0.75, 2.0 ** -45, 0.5, 0.25, 1.0, 0.125] + ([1.5, -0.125, 1.0 + 2.0 ** -40] if rng.random() < 0.15 else []))
                else:
                    q = F(rng.randrange(0, int(left * 16) + 1), 16)
                    left -= q
                    v = float(q)
                    if rng.random() < 0.15:
                        v = float(rng.choice([one_minus_t, math.nextafter(one_minus_t, 2.0) if one_minus_t > 0 else 2.0 ** -60]))
                vals[m["name"]] = float(v)
            if style == "sparse" and rng.random() < 0.5:
                vals = {k: 0.0 for k in vals}
        for k, v in vals.items():
            a[k].append(v)
    x, y = {}, {}
    for m in mods:
        n = m["name"]
        if m["fixed"] and not (style == "wild" and rng.random() < 0.2):
            x[n], y[n] = float(m["center"][0]), float(m["center"][1])
        else:
            x[n] = float(F(rng.randrange(0, int(W * 8) + 1), 8))
            y[n] = float(F(rng.randrange(0, int(H * 8) + 1), 8))
            if style == "wild" and rng.random() < 0.2:
                x[n] = float(W + 1)
        if m["hard"] and not m["fixed"]:
            rs = m["rects"]
            mode = {ax: rng.choice(["same", "mirror", "mirror", "mixed", "zero"]) for ax in "xy"}
            x0 = float(F(rng.randrange(0, int(W * 8) + 1), 8))
            y0 = float(F(rng.randrange(0, int(H * 8) + 1), 8))
            for r, rect in enumerate(rs):
                for ax, tab, base in (("x", x, x0), ("y", y, y0)):
                    off = core.frac(rect["c" + ax]) - core.frac(rs[0]["c" + ax])
                    sgn = {"same": 1, "mirror": -1, "zero": 0}.get(mode[ax], rng.choice([1, -1]))
                    tab[fake(n, r)] = base + float(sgn * off) + (rng.choice([0.0, 0.0, 2.0 ** -20, -2.0 ** -20]))
    wrap = rng.random() < 0.3          # hand the values over as objects with .value.value (like GEKKO variables)
    return {"kind": "extract", "style": style, "die": [W, H], "cells": cells, "mods": mods, "t": t,
            "a": a, "x": x, "y": y, "wrap": wrap, "eps": F(1, 2 ** 20), "aeps": rng.choice([F(1, 2 ** 20), F(0)])}


def gen_recenter(rng):
    kind = rng.choice(["stog", "stog", "stog", "pow2", "random", "none"])
    if kind == "none":
        rs = []
    elif kind == "random":
        rs = [rect_d(F(rng.randrange(0, 64), 4), F(rng.randrange(0, 64), 4), F(rng.randrange(1, 16), 4),
                     F(rng.randrange(1, 16), 4), hard=True) for _ in range(rng.randrange(1, 5))]
    else:
        rel = stog_rects(rng)
        if kind == "pow2":
            rel = [(F(0), F(0), F(2), F(2)), (F(3, 2), F(1, 2), F(1), F(1)), (F(0), F(3, 2), F(2), F(1)),
                   (F(-3, 2), F(0), F(1), F(1))][:rng.choice([1, 3, 4])]
            if len(rel) == 3:
                rel[2] = (F(0), F(-3, 2), F(2), F(3, 2))      # 4 + 1 + 3 = 8
        ox, oy = F(rng.randrange(0, 64), 4), F(rng.randrange(0, 64), 4)
        rs = [rect_d(ox + x, oy + y, w, h, hard=True, loc=("TRUNK" if i == 0 else "NOPOLY"))
              for i, (x, y, w, h) in enumerate(rel)]
    c = [F(rng.randrange(0, 128), 8), F(rng.randrange(0, 128), 8)]
    return {"kind": "recenter", "rects": rs, "center": c}


def gen_recenter_co(rng):
    """recenter_rectangles at coincidences (shared with the C14 kernel stream): exact dyadic rectangles, the centre
    relative to their area-weighted centre"""
    from harness.props import c14
    while True:
        c = c14.gen_rc(rng)
        sets = [op for op in c["ops"] if op[0] in ("set", "mut")]
        if c["rects"] and sets:
            break
    rs = [rect_d(r[0], r[1], r[2], r[3], hard=True, loc=("TRUNK" if i == 0 else "NOPOLY")) for i, r in enumerate(c["rects"])]
    return {"kind": "recenter_co", "style": c["style"], "cls": c.get("cls"), "rects": rs,
            "center": [sets[0][1], sets[0][2]], "eps": c["eps"]}


def run_recenter_co(case):
    """like run_recenter, in the process state recenter_rectangles always runs in: a distance epsilon is defined
    (given, or the one a Netlist holding the module derives: 1e-12 * the smallest dimension)"""
    from frame.netlist.module import Module
    from frame.geometry.geometry import Point, Rectangle
    Rectangle.undefine_epsilon()
    try:
        eps = float(case["eps"]) if case["eps"] is not None else \
            min(min(float(r["w"]), float(r["h"])) for r in case["rects"]) * 1e-12
        Rectangle.set_epsilon(eps)
        m = Module("H", hard=True)
        for r in case["rects"]:
            m.add_rectangle(fr.mk_rect(r))
        m.center = Point(float(case["center"][0]), float(case["center"][1]))
        try:
            m.recenter_rectangles()
        except ZeroDivisionError:
            return {"out": None, "eps": eps}
        return {"out": [fr.rect_obs(r) for r in m.rectangles], "eps": eps}
    finally:
        Rectangle.undefine_epsilon()


def gen_fixrule(rng):
    W = F(rng.randrange(4, 17), 2)
    H = F(rng.randrange(4, 17), 2)
    boxes = ac.guillotine(rng, (F(0), F(0), W, H), rng.randrange(2, 9))
    mods, fixed_of_box = gen_modules(rng, boxes, W, H)
    t = rng.choice([F(1, 2), F(3, 4), F(15, 16), 0.95, 0.8, F(1), F(1, 4), F(7, 8)])
    style = rng.choice(["initial", "initial", "stored", "stored", "sparse"])
    cells = []
    for i, b in enumerate(boxes):
        rect = box_rect(b, fixed=(i in fixed_of_box), hard=(i in fixed_of_box))
        al = []
        if i in fixed_of_box:
            al = [[fixed_of_box[i], F(1)]]
        else:
            for m in mods:
                if m["fixed"]:
                    continue
                if style == "initial":
                    ov = sum(ac.ovl(rbox(rect), rbox(r)) for r in m["rects"]) / rarea(rect)
                    if ov > 0:
                        al.append([m["name"], ov])
                elif rng.random() < 0.5:
                    al.append([m["name"], rng.choice([F(0), F(1, 16), F(1, 4), F(1, 2), F(3, 4), F(1), F(15, 16),
                                                      core.frac(float(t)), 1 - core.frac(float(t))])])
        cells.append({"rect": rect, "alloc": al, "depth": 0})
    if style == "sparse" and len(cells) > 2:
        keep = [c for i, c in enumerate(cells) if i in fixed_of_box or rng.random() < 0.7]
        cells = keep if keep else cells
    rng.shuffle(cells)
    return {"kind": "fixrule", "style": style, "die": [W, H], "cells": cells, "mods": mods, "t": t,
            "eps": rng.choice([F(1, 2 ** 20), F(1, 2 ** 20), F(1, 4)]), "aeps": F(1, 2 ** 20)}


# ======================================================================================
# running the implementation
# ======================================================================================
class _Inner:
    def __init__(self, v):
        self.value = v


class _Val:
    """Answers `.value.value` like a solved GEKKO variable (a one-element list, or a bare number)."""

    def __init__(self, v, as_list=True):
        self.value = _Inner([v] if as_list else v)


def mk_module(d):
    from frame.netlist.module import Module
    from frame.geometry.geometry import Point
    if d["fixed"]:
        m = Module(d["name"], fixed=True)
    elif d["hard"]:
        m = Module(d["name"], hard=True, flip=bool(d["flip"]))
    else:
        m = Module(d["name"], area=float(sum(rarea(r) for r in d["rects"]) or 1))
    for r in d["rects"]:
        m.add_rectangle(fr.mk_rect(r))
    if m.is_hard:
        m._area_regions = {"_": float(sum(rarea(r) for r in d["rects"]))}
        m._total_area = float(sum(rarea(r) for r in d["rects"]))
    m.center = Point(float(d["center"][0]), float(d["center"][1]))
    return m


def module_obs(m):
    return {"name": m.name, "hard": bool(m.is_hard), "fixed": bool(m.is_fixed), "flip": bool(m.flip),
            "center": [m.center.x, m.center.y] if m.center is not None else None,
            "rects": [fr.rect_obs(r) for r in m.rectangles]}


class _Stub:
    pass


def stub_die(mods, W, H):
    from frame.geometry.geometry import Rectangle, Point, Shape
    die, nl = _Stub(), _Stub()
    nl.modules, nl.edges = mods, []
    die.netlist = nl
    die.bounding_box = Rectangle(center=Point(float(W) / 2, float(H) / 2), shape=Shape(float(W), float(H)))
    die.width, die.height = float(W), float(H)
    return die


def run_extract(case):
    from frame.geometry.geometry import Rectangle
    from tools.glbfloor import optimization as opt
    Rectangle.undefine_epsilon()
    Rectangle.set_epsilon(float(case["eps"]), float(case["aeps"]))
    try:
        mods = [mk_module(d) for d in case["mods"]]
        die = stub_die(mods, *case["die"])
        cells = [fr.mk_rect(r) for r in case["cells"]]
        model = _Stub()
        w = (lambda v: _Val(v, as_list=(hash(v) % 2 == 0))) if case.get("wrap") else (lambda v: v)
        model.a = {m: {c: w(float(v)) for c, v in enumerate(row)} for m, row in case["a"].items()}
        model.x = {k: w(float(v)) for k, v in case["x"].items()}
        model.y = {k: w(float(v)) for k, v in case["y"].items()}
        model.d = {k: 0.0 for k in list(case["x"]) + list(case["a"])}
        try:
            d2, alloc, disp = opt.extract_solution(model, die, cells, float(case["t"]))
        except (AssertionError, ZeroDivisionError) as e:
            return {"out": None, "err": type(e).__name__}
        return {"out": {"cells": ac.alloc_obs(alloc)["cells"], "mods": [module_obs(m) for m in d2.netlist.modules]},
                "same_die": d2 is die, "disp_keys": sorted(disp)}
    finally:
        Rectangle.undefine_epsilon()


def run_recenter(case):
    from frame.netlist.module import Module
    from frame.geometry.geometry import Point, Rectangle
    # recenter_rectangles always runs with the Rectangle tolerances defined (a Netlist holding the module defines them:
    # 1e-12 * the smallest dimension); without them a harmless change that merely reads the tolerance would raise here
    Rectangle.undefine_epsilon()
    try:
        Rectangle.set_epsilon(min([min(float(r["w"]), float(r["h"])) for r in case["rects"]] or [1.0]) * 1e-12)
        m = Module("H", hard=True)
        for r in case["rects"]:
            m.add_rectangle(fr.mk_rect(r))
        m.center = Point(float(case["center"][0]), float(case["center"][1]))
        try:
            m.recenter_rectangles()
        except ZeroDivisionError:
            return {"out": None}
        return {"out": [fr.rect_obs(r) for r in m.rectangles]}
    finally:
        Rectangle.undefine_epsilon()


def a_table(model, ncells):
    """model.a as plain data: per key a row of ['c', value] (Python float) / ['v'] (GEKKO variable)."""
    rows = []
    for k, row in model.a.items():
        rows.append([k, [(["c", float(row[c])] if isinstance(row[c], float) else ["v"]) for c in range(ncells)]])
    return rows


def run_fixrule(case):
    from frame.geometry.geometry import Rectangle
    from tools.glbfloor import optimization as opt
    Rectangle.undefine_epsilon()
    Rectangle.set_epsilon(float(case["eps"]), float(case["aeps"]))
    rec = {}
    orig = opt.solve_and_extract_solution

    def recorder(model, die, cells, threshold, *a, **kw):
        rec["rows"] = a_table(model, len(cells))
        rec["keys_x"] = sorted(model.x)
        try:
            model.gekko.cleanup()
        except Exception:
            pass
        return die, None, {}, ([], [])

    opt.solve_and_extract_solution = recorder
    try:
        mods = [mk_module(d) for d in case["mods"]]
        die = stub_die(mods, *case["die"])
        try:
            alloc = ac.build_alloc(case["cells"])
        except (AssertionError, ZeroDivisionError):
            return {"rows": None, "err": "alloc"}
        disp = {m.name: 0.0 for m in mods}
        opt.optimize_allocation(die, alloc, disp, float(case["t"]), 0.5, lambda x, y: x ** 2 + y ** 2)
        return {"rows": rec["rows"], "cells": ac.alloc_obs(alloc)["cells"]}
    finally:
        opt.solve_and_extract_solution = orig
        Rectangle.undefine_epsilon()


# ---------------- real runs ----------------
def gen_run(rng):
    """A small floorplanning instance: die with blockages / fixed modules, movable soft and hard modules that
    initially avoid them, nets, initial refinement, hyper-parameters."""
    W = F(rng.choice([4, 4, 6, 6, 8]))
    H = F(rng.choice([4, 4, 6]))
    special = []                       # boxes taken by blockages and fixed rectangles (integer aligned)
    for _ in range(rng.choice([0, 1, 1, 2, 2, 3])):
        w, h = F(rng.choice([1, 1, 2])), F(rng.choice([1, 1, 2]))
        x0, y0 = F(rng.randrange(0, int(W - w) + 1)), F(rng.randrange(0, int(H - h) + 1))
        b = (x0, y0, x0 + w, y0 + h)
        if all(ac.ovl(b, o) == 0 for o in special):
            special.append(b)
    regions, modules, fixed_names = [], {}, []
    for b in special:
        r = [float((b[0] + b[2]) / 2), float((b[1] + b[3]) / 2), float(b[2] - b[0]), float(b[3] - b[1])]
        if rng.random() < 0.4:
            regions.append(r + ["#"])
        elif fixed_names and rng.random() < 0.3:      # a second rectangle for the previous fixed module
            modules[fixed_names[-1]]["rectangles"].append(r)
        else:
            fixed_names.append(f"F{len(fixed_names)}")
            modules[fixed_names[-1]] = {"fixed": True, "rectangles": [r]}
    free_area = W * H - sum((b[2] - b[0]) * (b[3] - b[1]) for b in special)
    nmov = rng.randrange(2, 6)
    budget = free_area * F(rng.choice([25, 40, 55]), 100)
    used = F(0)
    names = []
    placed = list(special)
    for k in range(nmov):
        hard = rng.random() < 0.5
        for attempt in range(12):
            if hard:
                rel = stog_rects(rng)
                s = rng.choice([F(1), F(1), F(1), F(1, 2)])
                rel = [(x * s, y * s, w * s, h * s) for x, y, w, h in rel]
            else:
                side = F(rng.choice([2, 3, 4, 4, 6]), 4)
                rel = [(F(0), F(0), side, side)]
            lo_x, hi_x = min(x - w / 2 for x, y, w, h in rel), max(x + w / 2 for x, y, w, h in rel)
            lo_y, hi_y = min(y - h / 2 for x, y, w, h in rel), max(y + h / 2 for x, y, w, h in rel)
            if hi_x - lo_x > W or hi_y - lo_y > H:
                continue
            ox = F(rng.randrange(0, int((W - (hi_x - lo_x)) * 4) + 1), 4) - lo_x
            oy = F(rng.randrange(0, int((H - (hi_y - lo_y)) * 4) + 1), 4) - lo_y
            bs = [(ox + x - w / 2, oy + y - h / 2, ox + x + w / 2, oy + y + h / 2) for x, y, w, h in rel]
            area = sum((b[2] - b[0]) * (b[3] - b[1]) for b in bs)
            avoid = special if attempt >= 6 or not hard else placed
            if used + area > budget or any(ac.ovl(b, o) > 0 for b in bs for o in avoid):
                continue
            used += area
            placed += bs
            if hard:
                name = f"H{k}"
                modules[name] = {"hard": True, "rectangles": [[float((b[0] + b[2]) / 2), float((b[1] + b[3]) / 2),
                                                              float(b[2] - b[0]), float(b[3] - b[1])] for b in bs]}
                if len(bs) > 1 and rng.random() < 0.6:
                    modules[name]["flip"] = True
            else:
                name = f"S{k}"
                modules[name] = {"area": float(area), "center": [float(ox), float(oy)]}
            names.append(name)
            break
    if not names:
        modules["S0"] = {"area": 1.0, "center": [float(W) / 2, float(H) / 2]}
        names.append("S0")
    allnames = names + fixed_names
    nets = []
    for _ in range(rng.randrange(1, len(allnames) + 2)):
        k = rng.choice([2, 2, 2, 3])
        if len(allnames) >= k:
            e = rng.sample(allnames, k)
            if rng.random() < 0.3:
                e = e + [float(rng.choice([1, 2, 5]))]
            nets.append(e)
    order = list(modules)
    rng.shuffle(order)
    modules = {k: modules[k] for k in order}
    clean = not regions and not fixed_names
    anyhard = any(n.startswith("H") for n in names)
    init = rng.choice((["split"] * 5 + ["none"] + (["grid"] * 3 if clean else [])) if anyhard else
                      (["split"] * 3 + ["none"] * 2 + (["grid"] * 2 if clean else [])))
    ncell = int(W * H) if anyhard else rng.choice([4, 8, 12, 16])
    if anyhard and rng.random() < 0.25:
        ncell = rng.choice([8, 12, 2 * int(W * H)])
    return {"kind": "run", "die": {"width": float(W), "height": float(H), "regions": regions},
            "netlist": {"Modules": modules, "Nets": nets},
            "init": [init, rng.choice([2, 2, 3]), ncell] if init == "split" else
                    ([init, int(H), int(W)] if anyhard and rng.random() < 0.7 else [init, rng.randrange(2, 7), rng.randrange(2, 7)]),
            "t": rng.choice([0.5, 0.8, 0.95]), "alpha": rng.choice([0.0, 0.3, 0.3, 0.5, 0.7, 1.0]),
            "max_iter": rng.choice([1, 1, 2])}


class _ProbeDone(Exception):
    pass


def run_run(case, probe=None):
    """A real glbfloor run; every optimize_allocation / extract_solution call is recorded.
    probe = (iteration index, function(model, die, cells, threshold, original solve) -> result): at that optimisation
    the function is called instead of the solver, its result is returned as obs['probe'] and the run is abandoned."""
    from frame.geometry.geometry import Rectangle
    from frame.netlist.netlist import Netlist
    from frame.die.die import Die
    from tools.glbfloor import optimization as opt
    import copy
    Rectangle.undefine_epsilon()
    iters = []
    o_opt, o_ext, o_solve = opt.optimize_allocation, opt.extract_solution, opt.solve_and_extract_solution
    probed = {}

    def w_solve(model, die, cells, threshold, *a, **kw):
        it = iters[-1]
        try:
            it["mods_before"] = [module_obs(m) for m in die.netlist.modules]
            it["t"] = threshold
            it["die_rect"] = fr.rect_obs(die.bounding_box)
            it["cap"] = cs.capture(model, len(cells))
            it["areas"] = {m.name: m.area() for m in die.netlist.modules}
            it["pow32"] = [[m.area(), m.area() ** (3 / 2)] for m in die.netlist.modules if not m.is_hard and m.area() > 0]
            it["edges"] = [[m.name for m in e.modules] for e in die.netlist.edges]
        except Exception as e:                      # the capture must never change what the run does
            it["cap_error"] = f"{type(e).__name__}: {e}"
        if probe is not None and len(iters) - 1 == probe[0]:
            probed["result"] = probe[1](model, die, cells, threshold, o_solve)
            raise _ProbeDone()
        return o_solve(model, die, cells, threshold, *a, **kw)

    def w_opt(die, allocation, *a, **kw):
        iters.append({"in_cells": ac.alloc_obs(allocation)["cells"],
                      "eps": Rectangle.distance_epsilon(), "aeps": Rectangle.area_epsilon()})
        it = iters[-1]
        try:
            it["mods_before"] = [module_obs(m) for m in die.netlist.modules]
            it["t"] = a[1] if len(a) > 1 else kw.get("threshold")
            it["die_rect"] = fr.rect_obs(die.bounding_box)
            it["areas"] = {m.name: m.area() for m in die.netlist.modules}
            it["pow32"] = [[m.area(), m.area() ** (3 / 2)] for m in die.netlist.modules if not m.is_hard and m.area() > 0]
            it["edges"] = [[m.name for m in e.modules] for e in die.netlist.edges]
        except Exception as e:
            it["cap_error"] = f"{type(e).__name__}: {e}"
        try:
            return o_opt(die, allocation, *a, **kw)
        except (AssertionError, ZeroDivisionError, KeyError) as e:
            if "cap" not in it:
                it["build_raised"] = type(e).__name__       # raised while the system was being built
            raise

    def w_ext(model, die, cells, threshold):
        it = iters[-1]
        n = len(cells)
        it["mods_before"] = [module_obs(m) for m in die.netlist.modules]
        it["rows"] = a_table(model, n)
        it["a"] = {k: [opt.get_value(row[c]) for c in range(n)] for k, row in model.a.items()}
        it["x"] = {k: opt.get_value(v) for k, v in model.x.items()}
        it["y"] = {k: opt.get_value(v) for k, v in model.y.items()}
        it["t"] = threshold
        try:
            out = o_ext(model, die, cells, threshold)
        except (AssertionError, ZeroDivisionError) as e:
            it["out"] = None
            it["err"] = type(e).__name__
            raise
        it["out"] = {"cells": ac.alloc_obs(out[1])["cells"], "mods": [module_obs(m) for m in out[0].netlist.modules]}
        return out

    opt.optimize_allocation, opt.extract_solution, opt.solve_and_extract_solution = w_opt, w_ext, w_solve
    try:
        try:
            nl = Netlist(copy.deepcopy(case["netlist"]))
            die = Die(copy.deepcopy(case["die"]) if case["die"]["regions"] else
                      {"width": case["die"]["width"], "height": case["die"]["height"]}, nl)
            ini = case["init"]
            if ini[0] == "split":
                die.split_refinable_regions(float(ini[1]), int(ini[2]))
            elif ini[0] == "grid":
                die.initial_grid(int(ini[1]), int(ini[2]))
        except AssertionError as e:
            return {"status": "invalid-input", "err": str(e)[:200], "iters": []}
        mods0 = [module_obs(m) for m in nl.modules]
        try:
            tt, aa = (case["t"], case["alpha"]) if case.get("raw") else (float(case["t"]), float(case["alpha"]))
            d2, alloc = opt.glbfloor(die, tt, aa, max_iter=case["max_iter"])
        except _ProbeDone:
            return {"status": "probed", "probe": probed.get("result"), "iters": iters, "mods0": mods0,
                    "die": [die.width, die.height]}
        except Exception as e:          # the optimiser did not return (solver failure, rejected allocation ...)
            return {"status": "raised", "err": f"{type(e).__name__}: {str(e)[:160]}", "iters": iters, "mods0": mods0,
                    "die": [die.width, die.height]}
        return {"status": "returned", "iters": iters, "mods0": mods0, "die": [die.width, die.height],
                "cells": ac.alloc_obs(alloc)["cells"], "mods": [module_obs(m) for m in d2.netlist.modules],
                "fixed_regions": [fr.rect_obs(r) for r in die.fixed_regions]}
    finally:
        opt.optimize_allocation, opt.extract_solution, opt.solve_and_extract_solution = o_opt, o_ext, o_solve
        Rectangle.undefine_epsilon()


def run_impl(case):
    return {"extract": run_extract, "recenter": run_recenter, "recenter_co": run_recenter_co, "fixrule": run_fixrule,
            "run": run_run, "system": cs.run_system}[case["kind"]](case)


# ======================================================================================
# Gallina
# ======================================================================================
def gmodule(d):
    c = d["center"]
    return (f"(mkModule {gstr(d['name'])} {gbool(d['hard'])} {gbool(d['fixed'])} {gbool(d['flip'])} "
            f"({gq(c[0])}, {gq(c[1])}) {glist([fr.grect(r) for r in d['rects']])})")


def gmodules(ms):
    return glist([gmodule(m) for m in ms])


def gsol(a, x, y):
    A = glist([f"({gstr(k)}, {glist([gq(v) for v in row])})" for k, row in a.items()])
    X = glist([f"({gstr(k)}, {gq(v)})" for k, v in x.items()])
    Y = glist([f"({gstr(k)}, {gq(v)})" for k, v in y.items()])
    return f"(sol_of {A} {X} {Y})"


def scale_of(mods, die):
    s = core.frac(die[0]) + core.frac(die[1])
    for m in mods:
        for r in m["rects"]:
            s = max(s, abs(core.frac(r["cx"])) + abs(core.frac(r["cy"])) + core.frac(r["w"]) + core.frac(r["h"]))
        s = max(s, abs(core.frac(m["center"][0])) + abs(core.frac(m["center"][1])))
    return s


def extract_expr(mods, rects, a, x, y, t, aeps, out, die, exact_ok=True, k=16):
    exacts = [bool(exact_ok and ((not m["hard"]) or m["fixed"] or is_pow2(sum(rarea(r) for r in m["rects"]))))
              for m in mods]
    scale = scale_of(mods, die)
    for v in list(x.values()) + list(y.values()):
        scale = max(scale, abs(core.frac(v)))
    obs = "None" if out is None else f"(Some ({gmodules(out['mods'])}, {ac.gcells(out['cells'])}))"
    return (f"extract_cmp {glist([gbool(e) for e in exacts])} {k} {gq(scale)} "
            f"(extract {gsol(a, x, y)} {gq(aeps)} {gq(t)} {gmodules(mods)} {glist([fr.grect(r) for r in rects])}) {obs}")


def table_expr(rows, eps, t, cells, mods):
    """The recorded model.a rows, restricted to (and ordered as) the keys the fixing rule decides."""
    R = glist([f"({gstr(k)}, {glist([gopt(gq(e[1])) if e[0] == 'c' else 'None' for e in row])})" for k, row in rows])
    return f"table_cmp {gq(eps)} {gq(t)} {ac.gcells(cells)} {gmodules(mods)} {R}"


def decided_rows(rows, mods):
    """model.a also holds, for every movable hard module m, its own row (always variables): checked here,
    and removed before the comparison with problem_modules."""
    own = {m["name"] for m in mods if m["hard"] and not m["fixed"]}
    fakes = {fake(m["name"], r) for m in mods if m["hard"] and not m["fixed"] for r in range(len(m["rects"]))}
    keep, bad = [], []
    for k, row in rows:
        if k in own and k not in fakes:
            if any(e[0] != "v" for e in row):
                bad.append(k)
        else:
            keep.append([k, row])
    return keep, bad


def to_coq(case, obs):
    kind = case["kind"]
    if kind == "extract":
        return extract_expr(case["mods"], case["cells"], case["a"], case["x"], case["y"], case["t"], case["aeps"],
                            obs["out"], case["die"])
    if kind == "recenter":
        RS = glist([fr.grect(r) for r in case["rects"]])
        call = f"recenter ({gq(case['center'][0])}, {gq(case['center'][1])}) {RS}"
        if obs["out"] is None:
            return f"match {call} with None => true | Some _ => false end"
        exact = is_pow2(sum(rarea(r) for r in case["rects"]))
        OUT = glist([fr.grect(r) for r in obs["out"]])
        return f"match {call} with Some rs => rects_cmp {gbool(exact)} 16 (qc 64 1) rs {OUT} | None => false end"
    if kind == "recenter_co":
        from harness.props import c14
        RS = glist([fr.grect(r) for r in case["rects"]])
        c = [float(case["center"][0]), float(case["center"][1])]
        call = f"recenter ({gq(c[0])}, {gq(c[1])}) {RS}"
        if obs["out"] is None:
            return f"match {call} with None => true | Some _ => false end"
        # exact when every operation of the reference computation is exact in binary64 on this input
        init = {"center": None, "rects": [[float(r["cx"]), float(r["cy"]), float(r["w"]), float(r["h"])] for r in case["rects"]]}
        ex, ey = c14.rc_exact(init, [["set", c[0], c[1]], ["rec"]])
        OUT = glist([fr.grect(r) for r in obs["out"]])
        return f"match {call} with Some rs => rects_cmp {gbool(ex and ey)} 16 (qc 64 1) rs {OUT} | None => false end"
    if kind == "fixrule":
        if obs["rows"] is None:
            return f"match mk_allocation {gq(case['aeps'])} {ac.gcells(case['cells'])} with None => true | Some _ => false end"
        rows, bad = decided_rows(obs["rows"], case["mods"])
        if bad:
            return "false"
        return table_expr(rows, case["eps"], case["t"], obs["cells"], case["mods"])
    if kind == "system":
        return cs.to_coq_system(case, obs)
    # real run: every recorded iteration is replayed through the model
    parts = []
    for it in obs.get("iters", []):
        tie = "mods_before" in it and cs.float_tie(it)
        if tie:
            cs.bump("run_optimisations_skipped_float_tie")
        if tie:
            pass
        elif "cap_error" in it:
            parts.append("false")
        elif "cap" in it and "mods_before" in it:
            p = cs.run_system_expr(it, cs.has_clash(case))
            if p:
                parts.append(p)
        elif it.get("build_raised") and "mods_before" in it:
            parts.append(cs.run_raises_expr(it))
        if "rows" not in it:
            continue                # the solver raised before extract_solution was reached
        mods = it["mods_before"]
        rows, bad = decided_rows(it["rows"], mods)
        if bad:
            parts.append("false")
        if not tie:
            parts.append(table_expr(rows, it["eps"], it["t"], it["in_cells"], mods))
        parts.append(extract_expr(mods, [c["rect"] for c in it["in_cells"]],
                                  {m["name"]: it["a"][m["name"]] for m in mods}, it["x"], it["y"], it["t"], it["aeps"],
                                  it.get("out"), obs["die"], exact_ok=False, k=64))
    return " && ".join(f"({p})" for p in parts) if parts else "true"


# ======================================================================================
# SolOK monitor and the direct oracle
# ======================================================================================
def solok_report(mods, ncells, a, x, y, die, rows, tol):
    """Which clauses of the solver contract the (synthetic or recorded) values violate, beyond `tol`."""
    W, H = core.frac(die[0]), core.frac(die[1])
    bad = []
    worst = F(0)
    for m in mods:
        for c in range(ncells):
            v = core.frac(a[m["name"]][c])
            worst = max(worst, -v, v - 1)          # raw excess, reported even when within the tolerance
            if v < -tol or v > 1 + tol:
                bad.append("a-range")
        if not m["fixed"]:
            vx, vy = core.frac(x[m["name"]]), core.frac(y[m["name"]])
            s = max(W, H)
            if vx < -tol * s or vx > W + tol * s or vy < -tol * s or vy > H + tol * s:
                bad.append("centre-box")
        else:
            if core.frac(x[m["name"]]) != core.frac(m["center"][0]) or core.frac(y[m["name"]]) != core.frac(m["center"][1]):
                bad.append("fixed-centre-changed")
    for c in range(ncells):
        s = sum(core.frac(a[m["name"]][c]) for m in mods)
        worst = max(worst, s - 1)
        if s > 1 + tol:
            bad.append("cell-sum")
    if rows is not None:
        for k, row in rows:
            for c, e in enumerate(row):
                if e[0] == "c" and k in a and core.frac(a[k][c]) != core.frac(e[1]):
                    bad.append("constant-changed")
    return sorted(set(bad)), worst


def check_result(die, mods0, mods, cells, tol, fixed_needs_cells=True):
    """The property text on a returned (modules, allocation cells); None = holds."""
    W, H = core.frac(die[0]), core.frac(die[1])
    s = max(W, H)
    dt = tol * s
    boxes = [ac.cbox(c) for c in cells]
    for i, b in enumerate(boxes):
        if b[0] < -dt or b[1] < -dt or b[2] > W + dt or b[3] > H + dt:
            return "cells/outside-die", f"cell {i} {tuple(map(float, b))} is not inside the die {float(W)}x{float(H)}"
        for j in range(i):
            if ac.ovl(b, boxes[j]) > tol * W * H:
                return "cells/overlap", f"cells {j} and {i} overlap (area {float(ac.ovl(b, boxes[j]))})"
    for i, c in enumerate(cells):
        tot = F(0)
        for m, q in c["alloc"]:
            q = core.frac(q)
            tot += q
            if q < 0 or q > 1:
                return "ratio/range", f"ratio of {m} in cell {i} is {float(q)}"
        if tot > 1 + tol:
            return "ratio/cell-over-100", f"cell {i} is occupied {float(tot)}"
    for m in mods:
        if m["center"] is None:
            return "centre/missing", f"module {m['name']} has no centre"
        x, y = core.frac(m["center"][0]), core.frac(m["center"][1])
        if x < -dt or x > W + dt or y < -dt or y > H + dt:
            return "centre/outside-die", f"centre of {m['name']} = ({float(x)}, {float(y)}) outside the die {float(W)}x{float(H)}"
    by0 = {m["name"]: m for m in mods0}
    if [m["name"] for m in mods] != [m["name"] for m in mods0]:
        return "modules/changed", "the set or order of modules changed"
    for m in mods:
        m0 = by0[m["name"]]
        if m["fixed"]:
            if [geo(r) for r in m["rects"]] != [geo(r) for r in m0["rects"]]:
                return "fixed/rectangles-changed", f"fixed module {m['name']} does not keep its rectangles"
            if not fixed_needs_cells:
                continue
            for r in m["rects"]:
                own = [c for c in cells if geo(c["rect"]) == geo(r)]
                if not own:
                    return "fixed/cell-missing", f"no cell for the rectangle {geo_f(r)} of fixed module {m['name']}"
                al = {k: core.frac(q) for k, q in own[0]["alloc"]}
                if al.get(m["name"], F(0)) < 1 - tol:
                    return "fixed/not-owner", f"fixed module {m['name']} owns {float(al.get(m['name'], 0))} of its cell {geo_f(r)}"
                oth = {k: q for k, q in al.items() if k != m["name"] and q > tol}
                if oth:
                    return "fixed/shared", f"cell {geo_f(r)} of fixed module {m['name']} is shared with {sorted(oth)}"
        elif m["hard"]:
            why = rigid(m0["rects"], m["rects"], dt)
            if why:
                return "hard/reshaped", f"movable hard module {m['name']}: {why}"
    return None


def geo(r):
    return tuple(core.frac(r[k]) for k in ("cx", "cy", "w", "h"))


def geo_f(r):
    return tuple(float(core.frac(r[k])) for k in ("cx", "cy", "w", "h"))


def rigid(rs0, rs, dt):
    """rs is rs0 translated, possibly mirrored in x and/or y (same order, same shapes)."""
    if len(rs0) != len(rs):
        return "number of rectangles changed"
    for a, b in zip(rs0, rs):
        if core.frac(a["w"]) != core.frac(b["w"]) or core.frac(a["h"]) != core.frac(b["h"]):
            return f"shape {geo_f(a)[2:]} became {geo_f(b)[2:]}"
    if not rs:
        return None
    for key in ("cx", "cy"):
        ok = False
        for sg in (1, -1):
            d = core.frac(rs[0][key]) - sg * core.frac(rs0[0][key])
            if all(abs(core.frac(b[key]) - sg * core.frac(a[key]) - d) <= 4 * dt for a, b in zip(rs0, rs)):
                ok = True
        if not ok:
            return f"the {key} offsets between its rectangles are neither kept nor negated"
    return None


def oracle(case, obs):
    kind = case["kind"]
    if kind == "extract":
        # the theorem's statement on the implementation: only when the synthetic values satisfy the contract
        if obs["out"] is None:
            return None
        t = core.frac(float(case["t"]))
        bad, _ = solok_report(case["mods"], len(case["cells"]), case["a"], case["x"], case["y"], case["die"], None, F(0))
        if bad or not (0 < t <= 1):
            return None
        W, H = case["die"]
        inside = all(rbox(r)[0] >= 0 and rbox(r)[1] >= 0 and rbox(r)[2] <= W and rbox(r)[3] <= H for r in case["cells"])
        if not inside:
            return None
        # fixed modules own their cells in the input (a = 1 there, by construction of the generator)
        owned = all(any(geo(c) == geo(r) and core.frac(case["a"][m["name"]][i]) == 1 for i, c in enumerate(case["cells"]))
                    for m in case["mods"] if m["fixed"] for r in m["rects"])
        r = check_result(case["die"], case["mods"], obs["out"]["mods"], obs["out"]["cells"], F(1, 10 ** 9),
                         fixed_needs_cells=owned and t < 1)
        if r:
            return f"{r[0]}: {r[1]} (synthetic solver values satisfying the contract)"
        rects_in = [geo(r) for r in case["cells"]]
        it = iter(rects_in)
        if not all(any(g == h for h in it) for g in [geo(c["rect"]) for c in obs["out"]["cells"]]):
            return "cells/not-a-sublist: returned cells are not a sub-list of the cells handed to extract_solution"
        return None
    if kind == "recenter":
        if obs["out"] is None:
            return None if not case["rects"] else "recenter raised on a module with rectangles"
        dt = F(1, 10 ** 9) * 64
        why = rigid(case["rects"], obs["out"], dt)
        if why:
            return f"hard/reshaped: recenter_rectangles: {why}"
        ta = sum(rarea(r) for r in obs["out"])
        for key, want in (("cx", case["center"][0]), ("cy", case["center"][1])):
            got = sum(core.frac(r[key]) * rarea(r) for r in obs["out"]) / ta
            if abs(got - core.frac(want)) > dt:
                return f"hard/centroid: after recenter the area-weighted centroid {key}={float(got)} is not the module centre {float(want)}"
            d = core.frac(obs["out"][0][key]) - core.frac(case["rects"][0][key])
            if any(abs(core.frac(b[key]) - core.frac(a[key]) - d) > dt for a, b in zip(case["rects"], obs["out"])):
                return "hard/reshaped: recenter_rectangles did not translate all rectangles by the same vector"
        return None
    if kind == "recenter_co":
        if obs["out"] is None:
            return "recenter raised on a module with rectangles"
        # "translated": one vector for all rectangles, shapes kept; the module ends on its centre - up to the
        # library's own notion of equal distances (the distance epsilon in force)
        dt = max(F(1, 10 ** 9) * 64, 2 * core.frac(obs["eps"]))
        why = rigid(case["rects"], obs["out"], dt)
        if why:
            return f"hard/reshaped: recenter_rectangles: {why}"
        ta = sum(rarea(r) for r in obs["out"])
        for key, want in (("cx", float(case["center"][0])), ("cy", float(case["center"][1]))):
            got = sum(core.frac(r[key]) * rarea(r) for r in obs["out"]) / ta
            if abs(got - core.frac(want)) > dt:
                return (f"hard/centroid: after recenter the area-weighted centroid {key}={float(got)!r} is not the module "
                        f"centre {want!r}")
            d = core.frac(obs["out"][0][key]) - core.frac(case["rects"][0][key])
            if any(abs(core.frac(b[key]) - core.frac(a[key]) - d) > dt for a, b in zip(case["rects"], obs["out"])):
                return "hard/reshaped: recenter_rectangles did not translate all rectangles by the same vector"
        return None
    if kind == "fixrule":
        if obs["rows"] is None:
            return None
        # property-level consequence: every entry of a fixed module is a constant
        for k, row in obs["rows"]:
            if any(m["name"] == k and m["fixed"] for m in case["mods"]) and any(e[0] != "c" for e in row):
                return f"fixed/not-constant: allocation of fixed module {k} is an optimisation variable"
        return None
    if kind == "system":
        return cs.oracle_system(case, obs)
    # real run
    if obs["status"] != "returned":
        return cs.oracle_run_systems(case, obs)
    if not obs["iters"]:
        return None
    r = check_result(obs["die"], obs["mods0"], obs["mods"], obs["cells"], TOL)
    return f"{r[0]}: {r[1]}" if r else cs.oracle_run_systems(case, obs)


def failure_key(case, why):
    if cs.has_clash(case):
        return "C10/fake-name-clash"
    w = str(why or "")
    head = w.split(":")[0]
    if "/" in head and len(head) < 40:
        return f"C10/{case['kind']}/{head}"
    return f"C10/{case['kind']}"


def shrink(case):
    if cs.has_clash(case):
        return                      # the open finding C10/fake-name-clash: its minimal input is in the corpus
    if case["kind"] == "run":
        if case["max_iter"] > 1:
            yield dict(case, max_iter=1)
        mods = case["netlist"]["Modules"]
        for k in list(mods):
            if len(mods) > 1:
                rest = {n: v for n, v in mods.items() if n != k}
                nets = []
                for e in case["netlist"]["Nets"]:
                    e2 = [x for x in e if x != k]
                    if len([x for x in e2 if isinstance(x, str)]) >= 2:
                        nets.append(e2)
                yield dict(case, netlist={"Modules": rest, "Nets": nets})
        if case["die"]["regions"]:
            for i in range(len(case["die"]["regions"])):
                yield dict(case, die=dict(case["die"], regions=case["die"]["regions"][:i] + case["die"]["regions"][i + 1:]))
        if case["netlist"]["Nets"]:
            yield dict(case, netlist=dict(case["netlist"], Nets=case["netlist"]["Nets"][:-1]))
        if case["init"][0] != "none":
            yield dict(case, init=["none", 1, 1])
    elif case["kind"] == "extract":
        for i, m in enumerate(case["mods"]):
            if len(case["mods"]) > 1 and not m["fixed"]:
                n = m["name"]
                yield dict(case, mods=case["mods"][:i] + case["mods"][i + 1:],
                           a={k: v for k, v in case["a"].items() if k != n})
    elif case["kind"] in ("recenter", "recenter_co"):
        for i in range(len(case["rects"])):
            if len(case["rects"]) > 1:
                yield dict(case, rects=case["rects"][:i] + case["rects"][i + 1:])
    elif case["kind"] == "system":
        yield from cs.shrink_system(case)


def dist_key(case):
    if case["kind"] == "system":
        return "system/" + str(case.get("sub", ""))
    return case["kind"] + "/" + str(case.get("style", case.get("init", [""])[0] if case["kind"] == "run" else ""))


def nontrivial(case):
    if case["kind"] == "extract":
        return len(case["cells"]) >= 2 and len(case["mods"]) >= 2
    if case["kind"] in ("recenter", "recenter_co"):
        return len(case["rects"]) >= 2
    if case["kind"] in ("fixrule", "system"):
        return len(case["cells"]) >= 2
    return len(case["netlist"]["Modules"]) >= 3


def run(ctx, out, replay=None):
    tmp = ctx.work / "gk"
    tmp.mkdir(exist_ok=True)
    old_tmp = tempfile.tempdir
    tempfile.tempdir = str(tmp)           # GEKKO(remote=False) creates its model directory with tempfile.mkdtemp
    try:
        quick = ctx.quick()
        n_ext, n_rec, n_fix, n_run = (600, 150, 60, 11) if quick else (6000, 1500, 600, 100)
        n_sys, n_tie = (110, 10) if quick else (1500, 100)
        out.rule = ("(a) synthetic: guillotine partitions of a die (2-7 cells, shuffled, sometimes sparse/overlapping), "
                    "1-8 modules mixing soft / movable hard (trunk + 0-3 branches, flip or not) / fixed (1-2 cells), solver "
                    "values satisfying the contract, with noise in fixed cells, exactly at / one ulp / 2^-30 next to 1 - t, "
                    "and wild (out of range, over-full, centres outside); fake-module centres same / mirrored / mixed / "
                    "coincident; recenter on 0-4 rectangle modules, and at coincidences (centre = area-weighted centre + per-axis "
                    "offset 0 / below / at / above the distance epsilon / grid / far; 1-34 rectangles); model.a tables on initial-like and stored allocations. "
                    "(b) real glbfloor runs: dies 4-8 x 4-6 with 0-3 blockages / fixed rectangles, 2-5 movable modules "
                    "(soft, hard, flip), nets and weighted hyperedges, alpha in {0,.3,.5,.7,1}, threshold in {.5,.8,.95}, "
                    "max_iter 1-2, no refinement / split_refinable_regions / initial_grid; module names renamed with "
                    "prefix-related pools (H1 / H1_io / H1_x / H10 / H1_ / H1__0, names of GEKKO variables, rarely the "
                    "internal name of a rectangle of a hard module); tie runs: area-1 soft modules centred in 2x2 / 2x1 cells "
                    "next to a fixed strip, threshold 3/4, 1/2, 1 (ratio == 1 - threshold), alpha 1 / 0.9, parameters as ints. "
                    "(c) system stream (no solve): fixrule-like instances, tie strips (ratios exactly t, 1-t, 0, 1, 1/4, 1/2), "
                    "10-14 cells, hard modules with 11-12 rectangles, soft areas differing from their square, nets with 1-4 "
                    "pins, six name pools, an earlier optimize_allocation on the same objects (other threshold) and centres "
                    "re-assigned in place before the observed call. "
                    "non-trivial = at least two cells and two modules (three modules for runs); distinct by canonical hash")
        cases = []
        if replay and "case" in replay:
            cases.append(fr.unjson(replay["case"]))
        cases += fr.load_corpus("C10")
        rng = ctx.rng
        cases += [cs.decorate_run(rng, gen_run(rng)) for _ in range(n_run)]
        cases += [cs.gen_run_tie(rng) for _ in range(n_tie)]
        cases += [cs.gen_system_case(rng) for _ in range(n_sys)]
        cases += [gen_extract(rng) for _ in range(n_ext)]
        cases += [gen_recenter(rng) for _ in range(n_rec)]
        cases += [gen_fixrule(rng) for _ in range(n_fix)]
        cases += [gen_recenter_co(rng) for _ in range(n_rec)]      # after the other streams: their cases stay as they were
        cs.STATS.clear()
        stats = {"runs": 0, "returned": 0, "raised": 0, "invalid_input": 0, "iterations": 0, "solok_held": 0,
                 "solok_violated": 0, "solok_worst_excess": 0.0, "raised_kinds": {}, "solok_clauses": {}}
        inner = run_impl

        def run_and_monitor(case):
            obs = inner(case)
            if case["kind"] == "run":
                stats["runs"] += 1
                st = obs["status"]
                stats[{"returned": "returned", "raised": "raised", "invalid-input": "invalid_input"}[st]] += 1
                if st == "raised":
                    k = obs["err"].split(":")[0] + ":" + obs["err"].split(":", 1)[1][:60]
                    stats["raised_kinds"][k] = stats["raised_kinds"].get(k, 0) + 1
                for it in obs.get("iters", []):
                    if "rows" not in it:
                        continue
                    stats["iterations"] += 1
                    bad, worst = solok_report(it["mods_before"], len(it["in_cells"]), it["a"], it["x"], it["y"],
                                              obs["die"], it["rows"], TOL)
                    stats["solok_worst_excess"] = max(stats["solok_worst_excess"], float(worst))
                    if bad:
                        stats["solok_violated"] += 1
                        for b in bad:
                            stats["solok_clauses"][b] = stats["solok_clauses"].get(b, 0) + 1
                    else:
                        stats["solok_held"] += 1
            return obs

        fr.run_cases(ctx, out, cases, run_and_monitor, to_coq, oracle, failure_key, HEADER,
                     dist_key=dist_key, nontrivial=nontrivial, shard=60, shrink=shrink)
        out.extra["solver_runs"] = stats
        out.extra["constraint_systems"] = dict(cs.STATS)
        if stats["runs"] and not stats["returned"]:
            ctx.notes.append("no real glbfloor run returned in this environment (solver failures: "
                             f"{stats['raised_kinds']}); only the synthetic correspondence was exercised")
    finally:
        tempfile.tempdir = old_tmp


def run_oracle_only(ctx, out):
    """The Coq development does not build: still run the implementation and the direct oracle."""
    tmp = ctx.work / "gk"
    tmp.mkdir(exist_ok=True)
    old_tmp = tempfile.tempdir
    tempfile.tempdir = str(tmp)
    try:
        rng = ctx.rng
        cases = fr.load_corpus("C10") + [gen_run(rng) for _ in range(10)] + [gen_extract(rng) for _ in range(300)] + \
            [gen_recenter(rng) for _ in range(100)] + [gen_fixrule(rng) for _ in range(100)]
        for case in cases:
            try:
                obs = run_impl(case)
                why = oracle(case, obs)
            except Exception as e:
                obs, why = {"crash": str(e)}, f"implementation raised {type(e).__name__}: {e}"
            out.add_case(fr.tojson(case), nontrivial(case))
            if why:
                out.failures.append({"key": failure_key(case, why), "why": why, "case": fr.tojson(case), "impl": fr.tojson(obs)})
    finally:
        tempfile.tempdir = old_tmp
