"""C04 - Netlist write -> read round trip preserves the design.

Correspondence: as C05 (random documents through the real ruamel text layer and the real
Netlist(...), compared with read_netlist of the model), plus the document written by
Netlist.write_yaml() compared with write_netlist of the model.  Direct oracle:
n2 = Netlist(n1.write_yaml()) compared field by field with n1, and n2.write_yaml()
byte-identical to n1.write_yaml()."""
from fractions import Fraction as F

from harness import fr
from harness.props import netlist_common as nc
from harness.props.netlist_common import val, close

HEADER = nc.HEADER
ASSUMPTIONS = nc.ASSUMPTIONS + [
    "oracle: numbers of the reloaded design within 1e-9 relative of the original (equal on the dyadic stream); the rewritten text must be identical",
    "each load starts from an undefined Rectangle epsilon (history dependence is C20's subject)",
]


def oracle(case, obs):
    if obs["verdict"] != "ok":
        return None          # not a netlist the reader accepts
    if obs["reload"]["verdict"] != "ok":
        return f"reload-rejected: the written netlist is not accepted back: {obs['reload'].get('msg', '')[:200]}"
    a, b = obs["n1"], obs["n2"]
    if [m["name"] for m in a["modules"]] != [m["name"] for m in b["modules"]]:
        return "module-order: module names or their order changed"
    for m, r in zip(a["modules"], b["modules"]):
        nm = m["name"]
        if m["flip"] != r["flip"]:
            return f"flip-dropped: module {nm} flip={m['flip']} reloaded as flip={r['flip']}"
        if (m["terminal"], m["hard"], m["fixed"]) != (r["terminal"], r["hard"], r["fixed"]):
            return f"kind-changed: module {nm} (terminal, hard, fixed) {m['terminal'], m['hard'], m['fixed']} -> {r['terminal'], r['hard'], r['fixed']}"
        ma, ra = dict(m["area_regions"]), dict(r["area_regions"])
        if set(ma) != set(ra) or any(not close(ma[k], ra[k]) for k in ma):
            return f"region-areas-collapsed: module {nm} areas {m['area_regions']} reloaded as {r['area_regions']}"
        if (m["center"] is None) != (r["center"] is None) or (m["center"] is not None and not (
                close(m["center"][0], r["center"][0]) and close(m["center"][1], r["center"][1]))):
            return f"centre-changed: module {nm} centre {m['center']} -> {r['center']}"
        if (m["ar"] is None) != (r["ar"] is None) or (m["ar"] is not None and not (
                close(m["ar"][0], r["ar"][0]) and close(m["ar"][1], r["ar"][1]))):
            return f"aspect-ratio-changed: module {nm} {m['ar']} -> {r['ar']}"
        ka = [(val(x["x"]), val(x["y"]), val(x["w"]), val(x["h"]), x["region"]) for x in m["rects"]]
        kb = [(val(x["x"]), val(x["y"]), val(x["w"]), val(x["h"]), x["region"]) for x in r["rects"]]
        if ka != kb:
            return f"rectangles-changed: module {nm} rectangles {ka} -> {kb}"
    ea = [(e["members"], val(e["weight"])) for e in a["edges"]]
    eb = [(e["members"], val(e["weight"])) for e in b["edges"]]
    if ea != eb:
        return f"nets-changed: {ea} -> {eb}"
    if obs["text2"] != obs["text1"]:
        import difflib
        d = [l for l in difflib.unified_diff(obs["text1"].splitlines(), obs["text2"].splitlines(), lineterm="", n=0)][2:8]
        return "rewrite-differs: writing the reloaded design gives another document: " + " | ".join(d)
    return None


def failure_key(case, why):
    head = (why or "").split(":")[0].strip()
    if " " in head or not head:
        head = "disagree"
    return "C04/" + head


def gen_case(rng):
    r = rng.random()
    if r < 0.68:
        return {"stream": "exact", "exact": True, "doc": nc.gen_doc(rng)}
    if r < 0.92:
        return {"stream": "decimal", "exact": False, "doc": nc.gen_doc(rng, decimal=True)}
    for _ in range(50):
        cls = rng.choice(nc.CLASSES)
        d = nc.inject(rng, nc.gen_doc(rng, quirks=False), cls)
        if d is not None:
            return {"stream": "malformed", "exact": True, "doc": d}
    return {"stream": "exact", "exact": True, "doc": nc.gen_doc(rng)}


def nontrivial(case):
    nm, nn, nr = nc.doc_stats(case["doc"])
    return nm >= 2 and (nn >= 1 or nr >= 2)


def kinds(case):
    ks = set()
    for i in nc.mods_of(case["doc"]).values():
        if isinstance(i, dict):
            ks.add("terminal" if "terminal" in i else "fixed" if i.get("fixed") is True else
                   "flip" if i.get("flip") is True else "hard" if i.get("hard") is True else
                   "soft-regions" if isinstance(i.get("area"), dict) else "soft")
    return ks


def run(ctx, out, replay=None):
    n = 1200 if ctx.quick() else 15000
    out.rule = ("random netlist documents as for C05 (all module kinds and attribute combinations, nets of arity 2-6, "
                "weights absent / 1 / other), 68% dyadic (model and oracle), 24% decimal multiples of 0.1 (oracle only), "
                "8% with one injected defect (verdict correspondence); each is loaded, written, reloaded and written again; "
                "non-trivial = at least two modules and a net or two rectangles; distinct by hash")
    cases = []
    if replay and "case" in replay:
        cases.append(fr.unjson(replay["case"]))
    cases += fr.load_corpus("C04")
    while len(cases) < n:
        cases.append(gen_case(ctx.rng))
    for c in cases:
        for k in kinds(c):
            out.count("kind/" + k)
    fr.run_cases(ctx, out, cases, nc.run_impl, nc.to_coq, oracle, failure_key, HEADER,
                 dist_key=lambda c: c.get("stream", "?"), nontrivial=nontrivial, shard=100, shrink=nc.shrink)
    for f in out.failures:      # a shrunk input is filed under the failure it shows
        f["key"] = failure_key(None, f.get("why"))
