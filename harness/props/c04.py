"""C04 - Netlist write -> read round trip preserves the design.

Correspondence: as C05 (random documents through the real ruamel text layer and the real
Netlist(...), compared with read_netlist of the model), plus the document written by
Netlist.write_yaml() compared with write_netlist of the model.  Direct oracle:
n2 = Netlist(n1.write_yaml()) compared field by field with n1, and n2.write_yaml()
byte-identical to n1.write_yaml()."""
from fractions import Fraction as F

from harness import fr
from harness.props import netlist_common as nc
from harness.props import netlist_boundary as nb
from harness.props.netlist_common import val, close

HEADER = nc.HEADER
ASSUMPTIONS = nc.ASSUMPTIONS + [
    "oracle: numbers of the reloaded design within 1e-9 relative of the original (equal on the dyadic stream); the rewritten text must be identical",
    "each load starts from an undefined Rectangle epsilon (history dependence is C20's subject)",
]


def oracle(case, obs):
    if obs["verdict"] != "ok":
        return None          # not a netlist the reader accepts
    if obs["reload"]["verdict"] != "ok":
        return f"reload-rejected: the written netlist is not accepted back: {obs['reload'].get('msg', '')[:200]}"
    # the design as loaded, and the same object after it has been written (writing must not have made another design
    # of it: the reloaded design is compared with both)
    for a in (obs["n1"], obs.get("n1_after") or obs["n1"]):
        why = same_design(a, obs["n2"])
        if why:
            return why
    for t in (obs["text1"], obs.get("text1_again") or obs["text1"]):
        if obs["text2"] != t:
            import difflib
            d = [l for l in difflib.unified_diff(t.splitlines(), obs["text2"].splitlines(), lineterm="", n=0)][2:8]
            return "rewrite-differs: writing the reloaded design gives another document: " + " | ".join(d)
    return None


def same_design(a, b):
    if [m["name"] for m in a["modules"]] != [m["name"] for m in b["modules"]]:
        return "module-order: module names or their order changed"
    for m, r in zip(a["modules"], b["modules"]):
        nm = m["name"]
        if m["flip"] != r["flip"]:
            return f"flip-dropped: module {nm} flip={m['flip']} reloaded as flip={r['flip']}"
        if (m["terminal"], m["hard"], m["fixed"]) != (r["terminal"], r["hard"], r["fixed"]):
            return f"kind-changed: module {nm} (terminal, hard, fixed) {m['terminal'], m['hard'], m['fixed']} -> {r['terminal'], r['hard'], r['fixed']}"
        ma, ra = dict(m["area_regions"]), dict(r["area_regions"])
        if set(ma) != set(ra) or any(not close(ma[k], ra[k]) for k in ma):
            return f"region-areas-collapsed: module {nm} areas {m['area_regions']} reloaded as {r['area_regions']}"
        if (m["center"] is None) != (r["center"] is None) or (m["center"] is not None and not (
                close(m["center"][0], r["center"][0]) and close(m["center"][1], r["center"][1]))):
            return f"centre-changed: module {nm} centre {m['center']} -> {r['center']}"
        if (m["ar"] is None) != (r["ar"] is None) or (m["ar"] is not None and not (
                close(m["ar"][0], r["ar"][0]) and close(m["ar"][1], r["ar"][1]))):
            return f"aspect-ratio-changed: module {nm} {m['ar']} -> {r['ar']}"
        ka = [(val(x["x"]), val(x["y"]), val(x["w"]), val(x["h"]), x["region"]) for x in m["rects"]]
        kb = [(val(x["x"]), val(x["y"]), val(x["w"]), val(x["h"]), x["region"]) for x in r["rects"]]
        if ka != kb:
            return f"rectangles-changed: module {nm} rectangles {ka} -> {kb}"
    ea = [(e["members"], val(e["weight"])) for e in a["edges"]]
    eb = [(e["members"], val(e["weight"])) for e in b["edges"]]
    if ea != eb:
        return f"nets-changed: {ea} -> {eb}"
    return None


def failure_key(case, why):
    head = (why or "").split(":")[0].strip()
    if " " in head or not head:
        head = "disagree"
    return "C04/" + head


def gen_case(rng):
    from harness.props import c05
    r = rng.random()
    if r < 0.36:
        return {"stream": "exact", "exact": True, "doc": nc.gen_doc(rng)}
    if r < 0.62:
        stream, doc = c05.valid_boundary(rng)
        return c05.with_form(rng, {"stream": stream, "exact": True, "doc": doc})
    if r < 0.82:
        return {"stream": "decimal", "exact": False, "doc": nc.gen_doc(rng, decimal=True)}
    if r < 0.90:
        # deviations outside the list of defects: those the reader accepts are netlists like any other
        vs = list(nb.near_misses(rng, nc.gen_doc(rng, quirks=False)))
        tag, d = rng.choice(vs)
        return c05.with_form(rng, {"stream": "near-miss", "tag": tag, "exact": True, "doc": d})
    for _ in range(50):
        cls = rng.choice(nc.CLASSES)
        base = nc.gen_doc(rng, quirks=False)
        d = nc.inject(rng, base, cls)
        if d is not None:
            return {"stream": "malformed", "exact": True, "doc": d}
    return {"stream": "exact", "exact": True, "doc": nc.gen_doc(rng)}


def catalogue(rng, quick):
    """every near miss (the accepted ones are unusual netlists: bools for numbers, -0.0, an empty area mapping on a hard
    module, repeated net members ...) on a document with all module kinds; documents of every size around the thresholds"""
    from harness.props import c05
    cases = []
    for b in range(1 if quick else 6):
        doc = nb.rich_doc(rng)
        for tag, d in nb.near_misses(rng, doc):
            cases.append(c05.with_form(rng, {"stream": "near-miss", "tag": tag, "exact": True, "doc": d}, p_history=0.05))
        for f in (nb.family_names, lambda r, x: nb.reorder(r, x)[0], lambda r, x: nb.coincide(r, x)[0],
                  lambda r, x: nb.decorate(r, x)[0]):
            for _ in range(3):
                cases.append(c05.with_form(rng, {"stream": "exact-boundary", "exact": True, "doc": f(rng, doc)}, p_history=0.3))
    for cfg in (nb.SIZES_QUICK if quick else nb.SIZES_THOROUGH):
        cases.append(c05.with_form(rng, {"stream": "size", "tag": " ".join(f"{k}={v}" for k, v in cfg.items()),
                                         "exact": True, "doc": nb.sized_doc(rng, **cfg)}, p_history=0.0))
    return cases


def extreme_cases(seed, quick):
    """valid documents with numbers at the ends of binary64 (nb.extremes): per-region areas whose float sum absorbs all but
    one region (4e17 + 12 + 4, 2^53 + 1, inf + 40, 40 + 5e-324), areas / centres / aspect ratios / weights at 5e-324 ... 1e300,
    the largest float, infinity.  Own random stream: the other streams draw what they drew before.  Documents the model can
    be run on (no infinity, no int that is no float) go through the correspondence as well, the others through the oracle."""
    import random
    from harness.props import c05
    rng = random.Random(f"C04-extreme-{seed}")
    cases = []
    # every absorbing pair once, on a module of its own and inside a document with all kinds
    for g, others in nb.ABSORBED:
        for rich in ((False,) if quick else (False, True)):
            names = ["dsp", "bram", "lut"][:len(others)]
            items = [("_", g)] + list(zip(names, others))
            if rng.random() < 0.5:
                rng.shuffle(items)
            doc = nb.rich_doc(rng) if rich else {"Modules": {"A": {"area": 8}, "T": {"terminal": True, "center": [1, 2]}},
                                                 "Nets": [["A", "T"]]}
            free = [k for k, i in doc["Modules"].items() if not nc.doc_is_hard(i) and "rectangles" not in i]
            if not free:      # every soft module of the draw has rectangles
                doc["Modules"]["xS"] = {"area": 1}
                free = ["xS"]
            k = free[0]
            doc["Modules"][k]["area"] = dict(items)
            cases.append(c05.with_form(rng, {"stream": "extreme", "tag": "ground-absorbs", "exact": nb.extreme_exact(doc),
                                             "doc": doc}, p_history=0.05))
    for _ in range(35 if quick else 300):
        base = nb.rich_doc(rng) if rng.random() < 0.3 else nc.gen_doc(rng, quirks=False)
        d, tags, exact = nb.extremes(rng, base)
        cases.append(c05.with_form(rng, {"stream": "extreme", "tag": "+".join(sorted(set(tags))), "exact": exact, "doc": d},
                                   p_history=0.1))
    return cases


def nontrivial(case):
    nm, nn, nr = nc.doc_stats(case["doc"])
    return nm >= 2 and (nn >= 1 or nr >= 2)


def kinds(case):
    ks = set()
    for i in nc.mods_of(case["doc"]).values():
        if isinstance(i, dict):
            ks.add("terminal" if "terminal" in i else "fixed" if i.get("fixed") is True else
                   "flip" if i.get("flip") is True else "hard" if i.get("hard") is True else
                   "soft-regions" if isinstance(i.get("area"), dict) else "soft")
    return ks


def run(ctx, out, replay=None):
    n = 1100 if ctx.quick() else 8000
    out.rule = ("random netlist documents as for C05 (all module kinds and attribute combinations, nets of arity 2-6, "
                "weights absent / 1 / other): 36% dyadic as drawn, 26% rewritten into an equally valid document on a boundary "
                "(names null / true / yes / on / off / _ / area / Modules, names that are prefixes of each other, weights 1 / 1.0 "
                "/ True / 1 + 2^-52 / 2^60 / 2^-50, ints for floats and floats for ints, per-region areas with such names, "
                "5-entry rectangles, modules / nets / rectangles / attributes reversed or sorted, rectangles of equal area, centre "
                "= centroid), 20% decimal multiples of 0.1 (oracle only), 8% near misses outside C05's list of defects (the "
                "accepted ones - bools for numbers, -0.0, `area: {}` on a hard module, repeated members - are netlists like any "
                "other), 10% with one injected defect (verdict correspondence); plus the catalogue of all near misses on a "
                "document with every module kind and documents of 9..257 (1001) modules, 9..65 (257) members, 33..101 (1001) "
                "nets, 9..65 (161) rectangles, names of 32..4097 (8193) characters, 9..33 (101) regions; half of the new "
                "streams given as the tree, as hand-spelled YAML text (1e3, +2, .5, 0x1F, quoted names), as a file name or as an open text stream, "
                "plus the `extreme` stream (50 / 330 documents, own random stream): areas, centres, aspect ratios and net weights "
                "at 5e-324, 2^-1022, 1e-300, 2^-60, 1e17, 4e17, 2^53, 2^53 + 1 (int), 2^53 + 2, 2^60, 1e300, the largest float and "
                "infinity, per-region areas whose float sum absorbs all regions but one (ground 4e17 / 2^53 / inf / 40 next to "
                "12 / 1 / 40 / 5e-324, or the other way round) - with the model where it can be run (finite binary64 values), "
                "by the oracle otherwise; "
                "15% after other loads / writes in the same process, 8% with the source loaded twice; each is loaded, "
                "written (twice), reloaded and written again; non-trivial = at least two modules and a net or two "
                "rectangles; distinct by hash")
    cases = []
    if replay and "case" in replay:
        cases.append(fr.unjson(replay["case"]))
    cases += fr.load_corpus("C04")
    cases += catalogue(ctx.rng, ctx.quick())
    while len(cases) < n:
        cases.append(gen_case(ctx.rng))
    cases += extreme_cases(ctx.seed, ctx.quick())
    for c in cases:
        for k in kinds(c):
            out.count("kind/" + k)
    forms, seen_pairs = {}, []

    def run_impl(case):
        obs = nc.run_impl(case)
        forms[obs.get("via", "?")] = forms.get(obs.get("via", "?"), 0) + 1
        seen_pairs.append((case, obs))
        return obs
    fr.run_cases(ctx, out, cases, run_impl, nc.to_coq, oracle, failure_key, HEADER,
                 dist_key=lambda c: c.get("stream", "?"), nontrivial=nontrivial, shard=100, shrink=nc.shrink)
    out.extra["input_forms"] = forms
    nc.reason_stat(ctx, out, seen_pairs[:len(cases)])
    out.extra["near_miss_tags"] = sorted({c["tag"] for c in cases if c.get("stream") == "near-miss"})
    for f in out.failures:      # a shrunk input is filed under the failure it shows
        f["key"] = failure_key(None, f.get("why"))
