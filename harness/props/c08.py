"""C08 - Rectilinear shape search admits exactly the k-box single-trunk orthogons
(tools/rect/rect.py: definecoords, enforce_bb, solve, area; through tools/rect/satmanager.py)."""
import contextlib
import io
import itertools
import re
import types
from fractions import Fraction

from harness import core, fr
from harness.core import gq, gz, gnat, gbool, glist, gstr

HEADER = """From Coq Require Import ZArith List Bool String.
From FrameModel Require Import Num.QcTac PB.Expr PB.Cnf PB.Amo PB.Robdd PB.Codify PB.Sat
  RectSearch.Coords RectSearch.Names RectSearch.Encode RectSearch.Shapes RectSearch.SelectBox RectSearch.Spelling
  Cases.CmpC08.
Import ListNotations.
Local Open Scope nat_scope."""

ASSUMPTIONS = [
    "tools.rect.rect.Carrier()/main cannot be constructed on Linux (hard-coded Windows DLL of the greedy helper): "
    "definecoords, solve (which calls enforce_bb) and area are driven with a types.SimpleNamespace carrying the "
    "attributes the code reads (input_problem, factor, theoreticalBestArea and what definecoords sets); ifile is "
    "{'Width','Height'} = extent of the grid as rect_io.get_alloc computes it (bounding-box width/height)",
    "the SATManager that solve() creates is observed by substituting a recording subclass for "
    "tools.rect.satmanager.SATManager during the call (no source change)",
    "variable names: the implementation's strings are mapped onto the model's structured variables "
    "('b2_x_3.5' -> VxL 2 (position of 3.5 in carrier.xcoords), 'aux_n' -> Aux n, 'robdd_n' -> Node n); the harness "
    "checks on every case that the mapping is one-to-one on the names that occur",
    "minimum-error mode = the 'Min error approach' branch of solve (ratio >= 1: --minerr f = 2 (default), --maxdiff "
    "f = 3, --sf d >= 1); the other branch (ratio < 1, 'Min area approach': --minarea f = 0.89, --sf d < 1) posts two "
    "different inequalities and returns a different pair; the property quantifies over the cost bounds of the "
    "minimum-error mode only, so that branch is outside it (the model returns None there and the generator never "
    "produces ratio < 1); the shape part of the formula (C08_shapes_exact) is the same in both branches",
    "Expr.__rmul__ uses int(ratio); the cost of a shape is sum over its cells of "
    "int(ratio)*int(factor*p*w*h) - int(factor*w*h) as in rect.area",
    "carrier.theoreticalBestArea is set as main does (sum of area(b, True)); it is 0 when the module is absent "
    "from every cell or every occupied area truncates to 0 - admissible inputs (4% all-zero occupancies, the "
    "'tiny' axis style, ratio = 1 in 5% of the cases): solve must still return its shape "
    "(fixes/C08-quality-zero-division.diff; the unrepaired code raised ZeroDivisionError after solving)",
    "occupancy values are not restricted to [0, 1]: 0, quarters up to 1, 5/4 and 2 are generated",
    "coordinates and occupancies are dyadic so that every product the code forms is exact in binary64 (all cases "
    "compared with the model); decimal coordinates occur only in the allocation path and are judged by the direct "
    "oracle alone (shape set, returned rectangles = boxes; the cost bound is then trivially met because the code's "
    "binary64 area products may truncate differently from exact arithmetic)",
    "allocation path (every 8th case): the grid is written as an allocation text ([xc, yc, w, h] exact decimal "
    "literals + {module: ratio}), read by the real frame Allocation through rect_io.get_alloc, and select_box('M') "
    "produces the input of the search; an Allocation lives in the positive quadrant, keeps ratios in [0, 1] and "
    "divides by the total area of every listed module (so a listed module has a positive ratio somewhere) - the "
    "generator keeps to that; Rectangle's process-wide epsilon is undefined before and after",
    "input-file path (two thirds of the allocation cases): the dict rect_io.get_alloc returns ({'Width','Height',"
    "'Rectangles': [{name: [{'dim': [xc, yc, w, h]}, {'mod': [{module: ratio}]}]}]}) is written down directly - centre "
    "and size are the binary64 values of the exact decimal numbers, as reading them from a file gives - and handed "
    "to select_box; such a file is not confined to the positive quadrant (the property says: any origin)",
    "select_box's snapping tolerance is 1e-9 x the largest coordinate magnitude (binary64 product in the code, exact "
    "rational in the model): generated grid lines are at least 1/100 apart with magnitudes below 2^10, so no "
    "comparison is near the threshold",
    "number spellings (every third case): the cells handed to definecoords / solve are tuples of Python numbers chosen "
    "per cell and per coordinate among int, float, numpy.float64, numpy.int64 (integer values) and the float -0.0 "
    "(value 0) - one grid line is then the int 1 for some cells and the float 1.0 for others, str() differs, the value "
    "does not; patterns: by side of the line (cells below / left vs above / right), one single deviating number, all "
    "ints with one float, one line only, independently at random; occupancies as int / float / numpy too.  In the "
    "allocation path the text of the file writes a number as 3 / 3.0 / 3.00 / 30.0e-1 / 0.03e2 / 3.0e+0 (every form is "
    "read back by the YAML reader as the same binary64 or int) and the parsed input file handed to select_box "
    "carries int / float / numpy scalars / -0.0; select_box's result is handed to the search as the very objects it "
    "returned (as rect's main does).  The model reads a written number by its value (RectSearch/Spelling.v "
    "read_problem / read_arect; C08_spelling_irrelevant); bool, Fraction, Decimal and numpy.float32 are not generated "
    "(InputBox = tuple[float, ...]: int and float subclasses are what a caller or the YAML reader produces)",
    "grid lines one unit in the last place apart (one case in 20 with dyadic numbers, one in 40 with decimal ones: "
    "x and nextafter(x), e.g. 0.3 and 0.1 + 0.2) are DIFFERENT lines - on the direct path only (select_box snaps lines "
    "closer than 1e-9 x the largest magnitude, by its repair); one case in 40 has plain decimal coordinates on the "
    "direct path.  Such a case is compared with the model only when areas_robust holds - every int(factor * p * w * h) "
    "that rect.area forms in binary64, in any order of the multiplications, provably equals the integer part of the "
    "exact product (all partial products exact, or the exact product further than 1e-12 relative from an integer) - "
    "otherwise it is 'inexact': bound trivially met, direct oracle only (shape set by all-models enumeration, returned "
    "rectangles = boxes)",
    "two implementation names that map to one model variable ('b0_x_1' and 'b0_x_1.0') are kept apart as a foreign "
    "variable: the model comparison then fails (not expressible) and the all-models enumeration / the oracle decide",
    "PySAT is trusted as sound and complete (Section variable sat_o in the theorems)",
    "the process-wide diagram store is reset to [0, 1] before a case and then filled by the case's own earlier "
    "solve (history); the store found at the start of the observed solve is the model's initial store",
]

MAX_ENUM_CELLS = 9        # enumerate all projected models with PySAT up to this many cells
MAX_BRUTE_SHAPES = 120000  # exhaustive existence check for solve: search space up to 8 x this (covers 5x5, k = 3)


# --------------------------------------------------------------------------
# generation
# --------------------------------------------------------------------------
def gen_axis(rng, n, style):
    """n cells -> n + 1 strictly increasing dyadic coordinates."""
    if style == "unit0":
        return [Fraction(i) for i in range(n + 1)]
    if style == "int0":
        xs = [Fraction(0)]
        for _ in range(n):
            xs.append(xs[-1] + rng.choice([1, 1, 2, 3]))
        return xs
    if style == "frac0":
        xs = [Fraction(0)]
        for _ in range(n):
            xs.append(xs[-1] + Fraction(rng.choice([1, 2, 3, 4, 5, 6, 7]), rng.choice([2, 4])))
        if xs[-1].denominator == 1:
            xs[-1] += Fraction(1, 2)
        return xs
    if style == "tiny":      # cells so small that int(factor * w * h) can be 0
        xs = [rng.choice([Fraction(0), Fraction(1, 2), Fraction(-1, 4)])]
        for _ in range(n):
            xs.append(xs[-1] + Fraction(rng.choice([1, 1, 2, 3]), rng.choice([8, 16])))
        return xs
    # shifted origin (positive, negative - so that 0 may be an inner line - or fractional)
    o = rng.choice([Fraction(1), Fraction(-1), Fraction(-2), Fraction(3), Fraction(1, 2), Fraction(-3, 4), Fraction(5, 4)])
    xs = [o]
    for _ in range(n):
        xs.append(xs[-1] + (rng.choice([1, 1, 2]) if style == "shift-int" else
                            Fraction(rng.choice([1, 2, 3, 4, 5]), rng.choice([1, 2, 4]))))
    return xs


def gen_axis_decimal(rng, n):
    """n cells -> n + 1 increasing decimal (not binary) coordinates, origin >= 0 (an Allocation lives in the positive quadrant)."""
    xs = [Fraction(rng.choice([0, 0, 0, 1, 3, 17]), 10)]
    step = rng.choice([None, None, Fraction(1, 10), Fraction(3, 10)])        # uniform or not
    for _ in range(n):
        xs.append(xs[-1] + (step or Fraction(rng.choice([1, 1, 2, 3, 7, 11, 5, 13]), rng.choice([10, 10, 100, 20]))))
    return xs


def gen_axis_decimal_any(rng, n):
    """n cells -> n + 1 increasing decimal coordinates anywhere on the axis: ending exactly at 0, with 0 as an inner
    grid line, with 0 inside a cell, wholly negative, far from the origin on either side (a hand-made input file is not
    confined to the positive quadrant)."""
    step = rng.choice([None, None, Fraction(1, 10), Fraction(1, 10), Fraction(3, 10), Fraction(7, 100)])
    steps = [step or Fraction(rng.choice([1, 1, 2, 3, 7, 11, 5, 13]), rng.choice([10, 10, 100, 20])) for _ in range(n)]
    total = sum(steps)
    mode = rng.choice(["end0", "end0", "end0", "line0", "inside0", "neg", "farneg", "farpos", "pos"])
    if mode == "end0":
        o = -total
    elif mode == "line0":
        o = -sum(steps[:rng.randrange(0, n + 1)])
    elif mode == "inside0":
        i = rng.randrange(n)
        o = -sum(steps[:i]) - steps[i] / 2
    elif mode == "neg":
        o = -total - Fraction(rng.choice([1, 3, 17, 250]), 10)
    elif mode == "farneg":
        o = -Fraction(rng.choice([10003, 123456, 9999999]), 10) - total
    elif mode == "farpos":
        o = Fraction(rng.choice([10003, 123456, 9999999]), 10)
    else:
        o = Fraction(rng.choice([0, 1, 3, 17]), 10)
    xs = [o]
    for st in steps:
        xs.append(xs[-1] + st)
    return xs


STYLES = ["unit0", "int0", "frac0", "shift-int", "shift-frac", "unit0", "int0", "frac0", "shift-int", "shift-frac",
          "tiny"]
# the first 10 are the "small" sizes (every other case): half of them a single row or column
SIZES = [(1, 1), (2, 1), (1, 2), (3, 1), (1, 3), (2, 2), (3, 2), (2, 3), (3, 3), (1, 4), (4, 1), (4, 2), (2, 4),
         (4, 3), (3, 4), (4, 4), (5, 2), (2, 5), (5, 3), (3, 5), (5, 4), (4, 5), (5, 5), (5, 1), (1, 5), (3, 3),
         (6, 1), (1, 6)]
BIG_SIZES = [(11, 3), (3, 11), (6, 6), (33, 1), (1, 34), (7, 5), (8, 4), (4, 8)]     # 32..36 cells: beyond 32
OCC = [Fraction(v, 4) for v in (0, 0, 1, 2, 3, 4, 4, 4, 5, 8)]     # 0, values inside (0, 1], above 1 (5/4, 2)


def grid_cells(xs, ys, order):
    cells = []
    for r in range(len(ys) - 1):
        for c in range(len(xs) - 1):
            cells.append([xs[c], ys[r], xs[c + 1], ys[r + 1]])
    return [cells[i] for i in order]


# --------------------------------------------------------------------------
# number spellings: one VALUE written as different Python numbers in different cells of the same grid
# --------------------------------------------------------------------------
# tags: f float, i int, n numpy.float64, I numpy.int64 (integer values only), z the float -0.0 (value 0 only)
def spelled(q, tag):
    q = Fraction(q)
    if tag in ("i", "I", "z"):
        assert q.denominator == 1 and (tag != "z" or q == 0), (q, tag)
    if tag == "i":
        return int(q)
    if tag == "I":
        import numpy
        return numpy.int64(int(q))
    if tag == "n":
        import numpy
        return numpy.float64(float(q))
    if tag == "z":
        return -0.0
    return float(q)


def plain(v):
    """A number of any spelling as a plain int / float of the same value (for the records and the printers)."""
    import numbers
    return int(v) if isinstance(v, numbers.Integral) else float(v)


def tags_for(q, occ=False):
    t = ["f", "f", "n"]
    if Fraction(q).denominator == 1:
        t += ["i", "i", "I"]
        if q == 0 and not occ:
            t += ["z", "z"]
    return t


def gen_spell(rng, cells, occ):
    """Per cell a 5-letter word: how x1, y1, x2, y2 and the occupancy are written.  Patterns: every number an int where
    it can be (the way a hand-written grid looks); a grid line written one way by the cells below / left of it and
    another way by the cells above / right of it; one single deviating number; independently at random."""
    mode = rng.choice(["sided", "sided", "random", "random", "one", "ints", "line"])
    words = []
    if mode in ("sided", "line"):
        # a tag per (axis, value, role of the line in the cell: lower or upper border)
        tab = {}
        odd = None
        if mode == "line":      # only one line of the grid is written in two ways
            vals = sorted({(a, c[a]) for c in cells for a in (0, 1)} | {(a, c[a + 2]) for c in cells for a in (0, 1)})
            ints = [v for v in vals if v[1].denominator == 1]
            odd = rng.choice(ints or vals)
        for c, p in zip(cells, occ):
            w = ""
            for j in range(4):
                key = (j % 2, c[j], j // 2)
                if key not in tab:
                    if odd is not None and (j % 2, c[j]) != odd:
                        tab[key] = "f"
                    elif odd is not None:
                        ts = [t for t in tags_for(c[j]) if t != "f"]
                        tab[key] = "f" if j // 2 == 0 else rng.choice(ts)
                    else:
                        tab[key] = rng.choice(tags_for(c[j]))
                w += tab[key]
            words.append(w + rng.choice(tags_for(p, True)))
    elif mode == "ints":
        for c, p in zip(cells, occ):
            words.append("".join("i" if Fraction(v).denominator == 1 else "f" for v in c) +
                         ("i" if p.denominator == 1 and rng.random() < 0.5 else "f"))
        if rng.random() < 0.7:      # ... and one of them a float after all (or the float zero with a sign)
            b, j = rng.randrange(len(cells)), rng.randrange(4)
            t = rng.choice([t for t in tags_for(cells[b][j]) if t != "i"])
            words[b] = words[b][:j] + t + words[b][j + 1:]
    elif mode == "one":
        words = ["fffff" for _ in cells]
        b, j = rng.randrange(len(cells)), rng.randrange(4)
        cand = [(b2, j2) for b2, c in enumerate(cells) for j2 in range(4) if Fraction(c[j2]).denominator == 1]
        if cand:
            b, j = rng.choice(cand)
        t = rng.choice([t for t in tags_for(cells[b][j]) if t != "f"])
        words[b] = words[b][:j] + t + words[b][j + 1:]
    else:
        for c, p in zip(cells, occ):
            words.append("".join(rng.choice(tags_for(v)) for v in c) + rng.choice(tags_for(p, True)))
    return words


def spelled_cells(case):
    """The input problem as the case spells it: tuples (x1, y1, x2, y2, p) of Python numbers."""
    words = case.get("spell") or ["fffff"] * len(case["cells"])
    return [tuple(spelled(v, t) for v, t in zip(list(c) + [p], w)) for c, p, w in zip(case["cells"], case["occ"], words)]


def mixed_lines(case):
    """Number of grid lines that occur under two different str() in the input problem."""
    seen = {}
    for t in spelled_cells(case):
        for j in range(4):
            seen.setdefault((j % 2, Fraction(plain(t[j]))), set()).add(str(t[j]))
    return sum(1 for v in seen.values() if len(v) > 1)


def add_near_line(rng, xs):
    """One more grid line next to an existing one at the distance of ONE unit in the last place (0.1 + 0.2 next to
    0.3): equal after any rounding to fewer digits, yet a different number - the cells between them are a column of
    the grid like any other."""
    import math
    cand = [i for i, x in enumerate(xs) if x != 0]
    i = rng.choice(cand)
    x = float(xs[i])
    assert Fraction(x) == xs[i]
    up = rng.random() < 0.5
    y = Fraction(math.nextafter(x, math.inf if up else -math.inf))
    return sorted(set(xs) | {y})


def _bits(q):
    """Significant bits of a dyadic rational (None if it is not one)."""
    q = Fraction(q)
    d = q.denominator
    if d & (d - 1):
        return None
    n = abs(q.numerator)
    while n and n % 2 == 0:
        n //= 2
    return n.bit_length()


def areas_robust(case):
    """True iff the integer areas rect.area forms in binary64 - int(factor * p * (x2 - x1) * (y2 - y1)), the
    multiplications in ANY order - are the integer parts of the exact products on this case: either every partial
    product is exact (dyadic factors of at most 53 significant bits together, the differences representable) or the
    exact product is further from an integer boundary than any accumulation of rounding errors (1e-12 relative)."""
    f = Fraction(case["factor"])
    delta = Fraction(1, 10 ** 12)
    for (x1, y1, x2, y2), p in zip(case["cells"], case["occ"]):
        w, h = x2 - x1, y2 - y1
        wf, hf = Fraction(float(x2) - float(x1)), Fraction(float(y2) - float(y1))
        for fs, ff in (([f, p, w, h], [f, p, wf, hf]), ([f, w, h], [f, wf, hf])):
            bs = [_bits(v) for v in fs]
            if wf == w and hf == h and None not in bs and sum(bs) <= 53:
                continue
            exact, got = Fraction(1), Fraction(1)
            for v in fs:
                exact *= v
            for v in ff:
                got *= v
            if not (int(exact) == int(got * (1 - delta)) == int(got * (1 + delta))):
                return False
    return True


def coefs(case):
    """(sel, real) integer areas per cell exactly as rect.area forms them (exact arithmetic)."""
    out = []
    f = Fraction(case["factor"])
    for (x1, y1, x2, y2), p in zip(case["cells"], case["occ"]):
        out.append((int(f * p * (x2 - x1) * (y2 - y1)), int(f * (x2 - x1) * (y2 - y1))))
    return out


def cell_costs(case):
    r = int(case["ratio"])
    return [r * s - a for s, a in coefs(case)]


def make_alloc(rng, case, decimal):
    """The case's grid is handed to the tool as an allocation (rect_io.get_alloc + select_box): per cell the ratios of
    the modules; M is the selected one (absent = ratio 0), N a bystander."""
    mods = []
    absent = all(p == 0 for p in case["occ"])     # the Allocation constructor divides by a listed module's total area
    for p in case["occ"]:
        entry = [] if (p == 0 and (absent or rng.random() < 0.6)) else [["M", p]]
        if rng.random() < 0.3:
            entry.insert(rng.randrange(len(entry) + 1), ["N", Fraction(rng.choice([1, 2]), 4)])
        mods.append(entry)
    case["alloc"] = {"decimal": bool(decimal), "mods": mods}
    if decimal:              # the cost arithmetic is binary64 on non-dyadic numbers: only the shape set is judged
        case["bound"] = -10 ** 9


TEXT_FORMS = ["d", "d", "0", "e", "E", "x"]      # + "i" for integers


def spell_alloc(rng, case):
    """How the numbers of the allocation are written: in the text (file path) as 3 / 3.0 / 3.00 / 30e-1 / 0.3e1 /
    3.0e+0, in the parsed input file (ifile path) as int / float / numpy scalars / -0.0 - per cell a word for the four
    numbers of 'dim' and a word for the ratios."""
    ifile = case["alloc"].get("via") == "ifile"
    words = []
    mode = rng.choice(["random", "random", "ints", "one"])
    one = (rng.randrange(len(case["cells"])), rng.randrange(4))
    for b, ((x1, y1, x2, y2), mods) in enumerate(zip(case["cells"], case["alloc"]["mods"])):
        dim = [(x1 + x2) / 2, (y1 + y2) / 2, x2 - x1, y2 - y1]
        if ifile:
            dim = [Fraction(float(v)) for v in dim]
        w = ""
        for j, v in enumerate(dim):
            if ifile:
                ts = tags_for(v, occ=(j >= 2))
            else:
                ts = TEXT_FORMS + (["i", "i", "i"] if v.denominator == 1 else [])
            if mode == "ints":
                t = "i" if v.denominator == 1 else ("f" if ifile else "d")
            elif mode == "one":
                t = ("f" if ifile else "d") if (b, j) != one else rng.choice(ts)
            else:
                t = rng.choice(ts)
            w += t
        m = ""
        for nm, r in mods:
            r = Fraction(r)
            m += rng.choice(tags_for(r, True) if ifile else TEXT_FORMS + (["i", "i"] if r.denominator == 1 else []))
        words.append([w, m])
    case["alloc"]["spell"] = words


def text_number(q, form):
    """A literal of exactly the value q (a finite decimal) in the given form; every form is read back by YAML as the
    same number (the binary64 nearest to q; an int for form i)."""
    q = Fraction(q)
    if form == "i":
        assert q.denominator == 1
        return str(int(q))
    d = dec(q)
    if form == "0":
        return d + ("0" if "." in d else ".00")
    if form == "e":
        return dec(q * 10) + ("" if "." in dec(q * 10) else ".0") + "e-1"
    if form == "E":
        return dec(q / 100) + "e2" if "." in dec(q / 100) else dec(q / 100) + ".0e2"
    if form == "x":
        return (d if "." in d else d + ".0") + "e+0"
    return d if "." in d else d + ".0"


def gen_case(rng, small=False, alloc=None, via="file", big=False, spell=False, near=None):
    """alloc: None (the grid is given to solve directly), False (through an allocation, dyadic numbers),
    True (through an allocation with decimal coordinates: direct oracle only).
    via: "file" (allocation text -> frame Allocation -> rect_io.get_alloc: positive quadrant only) or "ifile" (the
    parsed input file, the dict get_alloc returns, handed to select_box directly: any origin).
    spell: equal numbers are written in different ways (int / float / numpy scalars / -0.0; in an allocation text
    also 1.50, 15e-1, 0.15e1) in different cells.
    near (direct path only): "dyadic" / "decimal" - one axis has two grid lines one unit in the last place apart;
    "plain-decimal" - decimal coordinates without such a pair."""
    nx, ny = rng.choice(SIZES[:10] if small else SIZES)
    if big:
        nx, ny = rng.choice(BIG_SIZES)
    if near and alloc is None:
        # at most 6 cells (and k <= 2 above 4): 53-bit numerators make every Qc operation of the model ~100 x dearer
        nx, ny = rng.choice(SIZES[1:8] if near != "plain-decimal" else SIZES[:8])
        ax = rng.randrange(2) if near != "plain-decimal" else None
        dims = [nx, ny]
        if ax is not None and dims[ax] >= 2:
            dims[ax] -= 1                        # the thin column / row is one of the nx / ny
        axes = []
        for a in range(2):
            if near == "dyadic":
                v = gen_axis(rng, dims[a], rng.choice(STYLES))
            else:
                v = [Fraction(float(x)) for x in (gen_axis_decimal_any(rng, dims[a]) if rng.random() < 0.6 else
                                                  gen_axis_decimal(rng, dims[a]))]
            if a == ax:
                v = add_near_line(rng, v)
                if near == "dyadic" and rng.random() < 0.3 and len(v) * (dims[1 - a]) <= 6:
                    v = add_near_line(rng, v)       # three lines in a row one unit apart, or two such pairs
            axes.append(v)
        xs, ys = axes
        nx, ny = len(xs) - 1, len(ys) - 1
    elif alloc and via == "ifile":
        xs, ys = gen_axis_decimal_any(rng, nx), gen_axis_decimal_any(rng, ny)
        if rng.random() < 0.5:          # one axis plain, so that the other one's position is what matters
            ys = gen_axis_decimal(rng, ny)
    elif alloc:
        xs, ys = gen_axis_decimal(rng, nx), gen_axis_decimal(rng, ny)
    else:
        while True:
            xs = gen_axis(rng, nx, rng.choice(STYLES))
            ys = gen_axis(rng, ny, rng.choice(STYLES))
            if alloc is None or via == "ifile" or (xs[0] >= 0 and ys[0] >= 0):
                break
    n = nx * ny
    order = list(range(n))
    m = rng.random()
    if m < 0.2:
        rng.shuffle(order)
    elif m < 0.3:
        order = [r * nx + c for c in range(nx) for r in range(ny)]
    elif m < 0.36:
        order.reverse()                                   # bottom-up, right to left
    elif m < 0.4:
        order = [r * nx + c for r in reversed(range(ny)) for c in range(nx)]     # rows top-down
    cells = grid_cells(xs, ys, order)
    kind = "grid"
    m = rng.random()
    if alloc is not None:
        m = 1.0
    if m < 0.06 and n >= 2:            # a cell missing: not a full grid (correspondence only)
        del cells[rng.randrange(len(cells))]
        kind = "partial"
    elif m < 0.09:                     # a degenerate cell at the far edge: KeyError in next_x / next_y
        if rng.random() < 0.5:
            cells.append([xs[-1], ys[0], xs[-1], ys[1]])
        else:
            cells.insert(rng.randrange(len(cells) + 1), [xs[0], ys[-1], xs[1], ys[-1]])
        kind = "degenerate"
    factor = rng.choice([4, 8, 16]) if n <= 12 else rng.choice([2, 4])
    m = rng.random()
    if m < 0.04:                       # the module is absent from every cell (theoretical area 0)
        occ = [Fraction(0) for _ in cells]
    elif m < 0.07:                     # 0 / 1 occupancies only (an exactly rectilinear region or nearly)
        occ = [Fraction(rng.choice([0, 1, 1])) for _ in cells]
    else:
        occ = [rng.choice(OCC) for _ in cells]
    if alloc is not None:
        occ = [min(p, Fraction(1)) for p in occ]          # an Allocation keeps ratios in [0, 1]
    case = {"kind": kind, "cells": cells, "occ": occ,
            "k": rng.choice([1, 2, 2] if big or (near and len(cells) > 4) else [1, 2, 2, 3, 3]), "factor": factor,
            "ratio": rng.choice([Fraction(2)] * 8 + [Fraction(3)] * 4 + [Fraction(5, 2)] * 4 + [Fraction(3, 2)] * 3 +
                                [Fraction(1)]), "bound": 0,
            "history": None}
    cc = cell_costs(case)
    maxpos = sum(c for c in cc if c > 0)
    minneg = sum(c for c in cc if c < 0)
    m = rng.random()
    if m < 0.3:
        case["bound"] = minneg - 5                     # every shape meets it
    elif m < 0.8:
        case["bound"] = rng.randint(min(0, max(minneg, -3)), max(maxpos, 1))
    elif m < 0.9:
        case["bound"] = maxpos + rng.choice([0, 1])    # at most the best conceivable / unsatisfiable
    else:
        case["bound"] = rng.randint(minneg - 1, 0)
    if near and alloc is None:
        case["near"] = near
        if not areas_robust(case):      # binary64 area products may truncate differently from exact arithmetic:
            case["inexact"] = True      # judged by the direct oracle alone, on the shape set (bound trivially met)
            case["bound"] = -10 ** 9
    if spell and alloc is None:
        case["spell"] = gen_spell(rng, case["cells"], case["occ"])
    if alloc is not None:
        make_alloc(rng, case, alloc)
        case["alloc"]["via"] = via
        if spell:
            spell_alloc(rng, case)
    m = rng.random()
    if m < 0.1 and not big:
        # as rect's main does: the SAME carrier and input file are used for several solves (other k, other bound)
        case["history"] = {"same": True, "k": rng.choice([1, 2, 3]), "bound": rng.randint(minneg - 1, max(maxpos, 1))}
    elif m < 0.25:
        case["history"] = {"kind": "grid", "cells": grid_cells([Fraction(0), Fraction(1), Fraction(3)],
                                                               [Fraction(0), Fraction(2)], [0, 1]),
                           "occ": [Fraction(1), Fraction(1, 2)], "k": 1, "factor": 4, "ratio": Fraction(2),
                           "bound": rng.choice([1, 2, 3]), "history": None}
    return case


# --------------------------------------------------------------------------
# running the implementation
# --------------------------------------------------------------------------
def dec(q):
    """Exact decimal literal of a Fraction whose denominator is 2^a 5^b."""
    import decimal
    with decimal.localcontext() as ctx:
        ctx.prec = 120
        d = decimal.Decimal(q.numerator) / decimal.Decimal(q.denominator)
        assert Fraction(d) == q, q
        return format(d, "f")


def alloc_text(case):
    """The allocation file of the case's grid: one rectangle [xc, yc, w, h] per cell with the ratios of its modules."""
    rows = []
    words = case["alloc"].get("spell")
    for b, ((x1, y1, x2, y2), mods) in enumerate(zip(case["cells"], case["alloc"]["mods"])):
        if words:
            dw, mw = words[b]
            ms = ", ".join(f"{nm}: {text_number(r, t)}" for (nm, r), t in zip(mods, mw))
            dim = ", ".join(text_number(v, t) for v, t in zip([(x1 + x2) / 2, (y1 + y2) / 2, x2 - x1, y2 - y1], dw))
            rows.append(f"  [[{dim}], {{{ms}}}]")
            continue
        ms = ", ".join(f"{nm}: {dec(Fraction(r))}" for nm, r in mods)
        rows.append(f"  [[{dec((x1 + x2) / 2)}, {dec((y1 + y2) / 2)}, {dec(x2 - x1)}, {dec(y2 - y1)}], {{{ms}}}]")
    return "[\n" + ",\n".join(rows) + "\n]\n"


def through_allocation(case):
    """rect_io.get_alloc + select_box on the allocation of the case's grid: (ifile, input_problem)."""
    import tools.rect.rect_io as IO
    from frame.geometry.geometry import Rectangle
    import os
    import tempfile
    Rectangle.undefine_epsilon()
    if case["alloc"].get("via") == "ifile":
        # the parsed input file as get_alloc builds it, written down directly: centre and size are the binary64 values
        # of the exact decimal numbers (what reading them from a file gives)
        rects = []
        words = case["alloc"].get("spell")
        for i, ((x1, y1, x2, y2), mods) in enumerate(zip(case["cells"], case["alloc"]["mods"])):
            dim = [float((x1 + x2) / 2), float((y1 + y2) / 2), float(x2 - x1), float(y2 - y1)]
            ml = [{nm: float(Fraction(r))} for nm, r in mods]
            if words:       # the same numbers as int / numpy scalars / -0.0
                dim = [spelled(Fraction(v), t) for v, t in zip(dim, words[i][0])]
                ml = [{nm: spelled(Fraction(float(Fraction(r))), t)} for (nm, r), t in zip(mods, words[i][1])]
            rects.append({f"b{i}": [{"dim": dim}, {"mod": ml}]})
        xs = [c[0] for c in case["cells"]] + [c[2] for c in case["cells"]]
        ys = [c[1] for c in case["cells"]] + [c[3] for c in case["cells"]]
        ifile = {"Width": float(max(xs) - min(xs)), "Height": float(max(ys) - min(ys)), "Rectangles": rects}
        inp, _ = IO.select_box("M", ifile)
        return ifile, list(inp)          # as rect's main does: select_box's result IS the input problem
    fd, path = tempfile.mkstemp(prefix="c08-alloc-", suffix=".yaml")      # get_alloc takes a file name
    try:
        with os.fdopen(fd, "w") as f:
            f.write(alloc_text(case))
        ifile = IO.get_alloc(path)
    finally:
        os.unlink(path)
    inp, _ = IO.select_box("M", ifile)
    Rectangle.undefine_epsilon()
    return ifile, list(inp)


def make_carrier(case):
    import tools.rect.rect as R
    cells = spelled_cells(case)
    via = None
    if case.get("alloc"):
        via = through_allocation(case)
        cells = via[1]
    car = types.SimpleNamespace(input_problem=cells, selbox="M", factor=case["factor"], inibox=(0, 0, 0, 0, 0),
                                blocks=[], prev_x={}, prev_y={}, next_x={}, next_y={}, xcoords=[], ycoords=[],
                                theoreticalBestArea=0.0, gm=None)
    R.definecoords(car)
    car.theoreticalBestArea = 0
    for b in car.blocks:
        car.theoreticalBestArea += R.area(car, b, True)
    xs = [c[0] for c in cells] + [c[2] for c in cells]
    ys = [c[1] for c in cells] + [c[3] for c in cells]
    ifile = {"Width": max(xs) - min(xs), "Height": max(ys) - min(ys), "Rectangles": []}
    if via:
        ifile = via[0]
        car.via = via
    return car, ifile


def call_solve(case, pre=None):
    """Runs rect.solve on the case; returns (carrier, recorded manager or None, return value or exception name).
    pre: an existing (carrier, ifile) to be used again."""
    import tools.rect.rect as R
    import tools.rect.satmanager as SM
    car, ifile = pre or make_carrier(case)
    made = []
    orig = SM.SATManager

    class Recording(orig):
        def __init__(self):
            super().__init__()
            made.append(self)

    SM.SATManager = Recording
    try:
        with contextlib.redirect_stdout(io.StringIO()):
            try:
                ret = R.solve(car, ifile, float(case["ratio"]), (int(case["bound"]), 1), int(case["k"]))
            except KeyError:
                ret = "KeyError"
            except ZeroDivisionError:
                ret = "ZeroDivisionError"
    finally:
        SM.SATManager = orig
    return car, (made[0] if made else None), ret


class NameMap:
    """Implementation variable names -> model variables, checked to be one-to-one."""

    def __init__(self, car):
        self.xi = {x: i for i, x in enumerate(car.xcoords)}
        self.yi = {y: i for i, y in enumerate(car.ycoords)}
        self.fwd, self.back = {}, {}
        self.clashes = []

    def var(self, nm):
        if nm in self.fwd:
            return self.fwd[nm]
        m = re.fullmatch(r"aux_(\d+)", nm)
        if m:
            v = ("A", int(m.group(1)))
        elif re.fullmatch(r"robdd_(\d+)", nm):
            v = ("R", int(nm[6:]))
        elif re.fullmatch(r"b_(\d+)", nm):
            v = ("U", int(nm[2:]))
        elif re.fullmatch(r"b(\d+)_(\d+)", nm):
            m = re.fullmatch(r"b(\d+)_(\d+)", nm)
            v = ("C", int(m.group(1)), int(m.group(2)))
        elif re.fullmatch(r"b(\d+)_(north|south|east|west)", nm):
            m = re.fullmatch(r"b(\d+)_(north|south|east|west)", nm)
            v = ({"north": "N", "south": "S", "east": "E", "west": "W"}[m.group(2)], int(m.group(1)))
        else:
            m = re.fullmatch(r"b(\d+)_([xXyY])_(.+)", nm)
            if not m:
                raise ValueError(f"unexpected variable name {nm!r}")
            tab = self.xi if m.group(2) in "xX" else self.yi
            try:
                v = (m.group(2), int(m.group(1)), tab[float(m.group(3))])
            except (KeyError, ValueError):
                # a name that carries no grid line of this problem ('b0_x_0.4' on a grid whose line is
                # 0.4000000000000001): not a variable of the model; the enumeration and the oracle decide
                self.clashes.append(f"name {nm!r} carries no coordinate of the grid")
                v = ("?", nm)
        if v in self.back and self.back[v] != nm:
            # two different names for what the model has as ONE variable (e.g. 'b0_x_1' and 'b0_x_1.0'): the formula is
            # not the model's; kept as a variable of its own so that the all-models enumeration and the oracle decide
            self.clashes.append(f"names {nm!r} and {self.back[v]!r} map to the same model variable")
            v = ("?", nm)
        self.fwd[nm] = v
        self.back[v] = nm
        return v


def mem_nodes(lst, nmap):
    return [[nmap.var(str(x[0])), int(x[1]), int(x[2])] for x in lst]


def run_impl(case):
    from tools.rect import pseudobool as pb
    del pb.memory[2:]
    pb.memory[0:2] = [0, 1]
    pb.mmap.clear()
    pre = None
    h = case.get("history")
    if h and h.get("same"):
        pre = make_carrier(case)
        call_solve(dict(case, k=h["k"], bound=h["bound"]), pre=pre)
    elif h:
        call_solve(h)
    mem0_raw = list(pb.memory[2:])
    car, sm, ret = call_solve(case, pre=pre)
    nmap = NameMap(car)
    obs = {"xs": [plain(x) for x in car.xcoords], "ys": [plain(y) for y in car.ycoords],
           "prevx": [[plain(k), plain(v)] for k, v in car.prev_x.items()],
           "nextx": [[plain(k), plain(v)] for k, v in car.next_x.items()],
           "prevy": [[plain(k), plain(v)] for k, v in car.prev_y.items()],
           "nexty": [[plain(k), plain(v)] for k, v in car.next_y.items()],
           "blocks": list(car.blocks), "keyerror": ret == "KeyError", "zerodiv": ret == "ZeroDivisionError",
           "tba": int(car.theoreticalBestArea)}
    if case.get("alloc"):
        ifile, selected = car.via
        obs["selected"] = [[float(v) for v in c] for c in selected]
        obs["selected_types"] = sorted({type(v).__name__ for c in selected for v in c[:4]})
        obs["ifile"] = [[[float(v) for v in b[nm][0]["dim"]], [[k, float(v)] for m in (b[nm][1]["mod"] or []) for k, v in m.items()]]
                        for b in ifile["Rectangles"] for nm in b]
        obs["ifile_tags"] = [["".join(tag_of(v) for v in b[nm][0]["dim"]),
                              "".join(tag_of(v) for m in (b[nm][1]["mod"] or []) for k, v in m.items())]
                             for b in ifile["Rectangles"] for nm in b]
    # the store of the history: its decision variables are "b_<n>" names as well
    obs["mem0"] = mem_nodes(mem0_raw, nmap)
    if obs["keyerror"]:
        return obs
    obs["newmem"] = mem_nodes(list(pb.memory[2 + len(mem0_raw):]), nmap)
    obs["clauses"] = [[[nmap.var(l.v), bool(l.s)] for l in c] for c in sm.clauses]
    obs["vtable"] = [nmap.var(v) for v in sm.vtable[1:]]
    if nmap.clashes:
        obs["nameclash"] = nmap.clashes[:4]
    if obs["zerodiv"]:
        return obs
    (c1, c2), rects, quality = ret
    obs["quality"] = float(quality)
    obs["ret"] = [int(c1), int(c2)]
    obs["sat"] = len(rects) > 0 or (c1, c2) != (0, 1)
    obs["rects"] = [None if r[0] == float("inf") else [plain(r[0]), plain(r[1]), plain(r[2]), plain(r[3])] for r in rects]
    k, n = case["k"], len(case["cells"])
    if obs["sat"]:
        obs["true"] = sorted([nmap.var(v) for v, val in sm.model.items() if val == 1], key=str)
        obs["sigma"] = [[int(sm.model.get(f"b{i}_{b}", 0)) for b in range(n)] for i in range(k)]
    # all models of what solve() fed the solver, projected on the per-box cell variables
    if case["kind"] == "grid" and n <= MAX_ENUM_CELLS:
        tt = sm.ttable
        pv = [tt[f"b{i}_{b}"] for i in range(k) for b in range(n) if f"b{i}_{b}" in tt]
        if len(pv) == k * n:
            s = sm.solver
            found = []
            while s.solve():
                mod = s.get_model()
                val = {abs(l): l > 0 for l in mod}
                bits = [val.get(p, False) for p in pv]
                found.append(bits)
                s.add_clause([-p if b else p for p, b in zip(pv, bits)])
                if len(found) > 200000:
                    break
            obs["models"] = [[[int(bits[i * n + b]) for b in range(n)] for i in range(k)] for bits in found]
    return obs


# --------------------------------------------------------------------------
# Gallina
# --------------------------------------------------------------------------
def gvar(v):
    t = v[0]
    if t == "A":
        return f"(Aux {v[1]})"
    if t == "R":
        return f"(Node {v[1]})"
    if t == "U":
        return f"(vU {v[1]})"
    if t in ("N", "S", "E", "W"):
        return f"(v{t} {v[1]})"
    if t == "?":
        raise ValueError(f"variable {v[1]!r} is not a variable of the model (a second name of one, or no grid line)")
    return f"(v{t} {v[1]} {v[2]})"


def glit(l):
    return f"({'P' if l[1] else 'N'} {gvar(l[0])})"


def gcell(c, p):
    return f"(mkCell {gq(c[0])} {gq(c[1])} {gq(c[2])} {gq(c[3])} {gq(p)})"


def gnum(q, tag):
    """A written number for the model's reader (RectSearch/Spelling.v): int and numpy integers are NInt, float and
    numpy.float64 NFloat of the exact value, -0.0 NNegZero."""
    if tag in ("i", "I"):
        return f"(NInt {gz(int(q))})"
    if tag == "z":
        return "NNegZero"
    return f"(NFloat {gq(q)})"


def tag_of(v):
    """How a Python number met in the implementation's data is written (the inverse of [spelled])."""
    import math
    import numbers
    if isinstance(v, numbers.Integral):
        return "i"
    return "z" if float(v) == 0 and math.copysign(1.0, float(v)) < 0 else "f"


def gproblem(case):
    if case.get("spell"):      # the problem as it was written, read by the model's read_problem
        return "(read_problem " + glist(["(mkSCell " + " ".join(gnum(v, t) for v, t in zip(list(c) + [p], w)) + ")"
                                         for c, p, w in zip(case["cells"], case["occ"], case["spell"])]) + ")"
    return glist([gcell(c, p) for c, p in zip(case["cells"], case["occ"])])


def gdict(d):
    return glist([f"({gq(k)}, {gq(v)})" for k, v in d])


def gbox(r):
    return "None" if r is None else f"(Some ({gq(r[0])}, {gq(r[1])}, {gq(r[2])}, {gq(r[3])}))"


def gmem(nodes):
    out = []
    for v, hi, lo in nodes:
        if v[0] != "U":
            raise ValueError("store entry on a variable that is not a cell-selection variable")
        out.append(f"(name (VSel {v[1]}), {gnat(hi)}, {gnat(lo)})")
    return glist(out)


def effective(case, obs):
    """The case whose cells are what solve was really given: select_box's output for a case that goes through an
    allocation (exact rationals of the returned floats)."""
    if not case.get("alloc"):
        return case
    sel = obs["selected"]
    return dict(case, cells=[[Fraction(v) for v in c[:4]] for c in sel], occ=[Fraction(c[4]) for c in sel])


def garects(obs):
    """The parsed input file as select_box received it - every number as it is written there (int / float / -0.0) -
    read by the model's read_arect."""
    out = []
    for (d, mods), (dt, mt) in zip(obs["ifile"], obs["ifile_tags"]):
        ms = glist(["(" + gstr(k) + ", " + gnum(v, t) + ")" for (k, v), t in zip(mods, mt)])
        out.append("(read_arect " + " ".join(gnum(v, t) for v, t in zip(d, dt)) + " " + ms + ")")
    return glist(out)


def to_coq(case, obs):
    if case.get("alloc"):
        if case["alloc"]["decimal"]:
            return "true"      # decimal coordinates: binary64 rounding is not modelled - judged by the direct oracle only
        pre = f"c08_select_check {gstr('M')} {garects(obs)} {gproblem(effective(case, obs))}"
        return f"({pre}) && ({to_coq_solve(effective(case, obs), obs)})"
    if case.get("inexact"):
        return "true"          # the binary64 area products are not the exact ones here: direct oracle only
    return to_coq_solve(case, obs)


def to_coq_solve(case, obs):
    if obs.get("zerodiv"):
        return "false"     # the model (repaired code) returns a result on every input; solve raised ZeroDivisionError
    o = (f"(mkObs8 {glist([gq(x) for x in obs['xs']])} {glist([gq(x) for x in obs['ys']])} "
         f"{gdict(obs['prevx'])} {gdict(obs['nextx'])} {gdict(obs['prevy'])} {gdict(obs['nexty'])} "
         f"{gbool(obs['keyerror'])} ")
    if obs["keyerror"]:
        o += "[] false [] 0%Z [] [] [])"
    else:
        o += (f"{glist([glist([glit(l) for l in c]) for c in obs['clauses']])} {gbool(obs['sat'])} "
              f"{glist([gvar(v) for v in obs.get('true', [])])} {gz(obs['ret'][0])} "
              f"{glist([gbox(r) for r in obs['rects']])} {glist([gvar(v) for v in obs['vtable']])} "
              f"{gmem(obs['newmem'])})")
    # small grids: ALL models of the implementation's formula against the specification; this also decides when the
    # formula differs from the model's in form (not only in clause order / internal numbering)
    models = None
    if "models" in obs and len(obs["models"]) <= 4000:
        ms = glist([glist([glist([gbool(x) for x in row]) for row in m]) for m in obs["models"]])
        models = (f"c08_models_check {gproblem(case)} {case['k']} {gq(case['factor'])} {gq(case['ratio'])} "
                  f"{gz(case['bound'])} {ms}")
    chk = (f"c08_check Repaired {gproblem(case)} {case['k']} {gq(case['factor'])} {gq(case['ratio'])} "
           f"{gz(case['bound'])} {gmem(obs['mem0'])} {o}")
    e = f"(let models_ok := {models or 'false'} in {chk} models_ok{' && models_ok' if models else ''})"
    if not obs["keyerror"]:
        e = (f"({e}) && c08_quality_check {gproblem(case)} {gq(case['factor'])} {gq(case['ratio'])} {gz(obs['tba'])} "
             f"{gbool(obs['sat'])} {glist([gvar(v) for v in obs.get('true', [])])} {gq(obs['quality'])}")
    return e


# --------------------------------------------------------------------------
# direct oracle (from the property text): k-box single-trunk orthogons on the grid
# --------------------------------------------------------------------------
def grid_index(case):
    """Column/row index of every cell of a full grid; None if the cells are not a full grid."""
    cells = case["cells"]
    xs = sorted({c[0] for c in cells} | {c[2] for c in cells})
    ys = sorted({c[1] for c in cells} | {c[3] for c in cells})
    pos = {}
    for b, c in enumerate(cells):
        if c[0] not in xs or c[1] not in ys:
            return None
        ci, ri = xs.index(c[0]), ys.index(c[1])
        if ci + 1 >= len(xs) or ri + 1 >= len(ys) or xs[ci + 1] != c[2] or ys[ri + 1] != c[3] or (ci, ri) in pos:
            return None
        pos[(ci, ri)] = b
    nx, ny = len(xs) - 1, len(ys) - 1
    if len(pos) != nx * ny or nx < 1 or ny < 1:
        return None
    return xs, ys, pos


def rects_of(nx, ny):
    return [(a, b, c, d) for a in range(nx) for b in range(a, nx) for c in range(ny) for d in range(c, ny)]


def disjoint(r, s):
    return r[1] < s[0] or s[1] < r[0] or r[3] < s[2] or s[3] < r[2]


def abuts(t, b):
    """b touches the trunk t along one full side of b, b's extent inside the trunk's."""
    horiz = (b[1] + 1 == t[0] or t[1] + 1 == b[0]) and t[2] <= b[2] and b[3] <= t[3]
    vert = (b[3] + 1 == t[2] or t[3] + 1 == b[2]) and t[0] <= b[0] and b[1] <= t[1]
    return horiz or vert


def all_shapes(nx, ny, k, cap=None):
    """All k-box single-trunk orthogons (tuples of index rectangles, trunk first); None if the search space
    (trunks x candidate branches ^ (k - 1)) exceeds 8 * cap."""
    rs = rects_of(nx, ny)
    per_trunk = [(t, [b for b in rs if disjoint(t, b) and abuts(t, b)]) for t in rs]
    if cap and sum(len(c) ** (k - 1) for _, c in per_trunk) > 8 * cap:
        return None
    out = []
    for t, cands in per_trunk:
        for combo in itertools.permutations(cands, k - 1):
            if all(disjoint(combo[i], combo[j]) for i in range(len(combo)) for j in range(i + 1, len(combo))):
                out.append((t,) + combo)
    return out


def sigma_of_shape(shape, pos, n):
    sig = [[0] * n for _ in shape]
    for i, (a, b, c, d) in enumerate(shape):
        for ci in range(a, b + 1):
            for ri in range(c, d + 1):
                sig[i][pos[(ci, ri)]] = 1
    return sig


def shape_of_sigma(sig, pos):
    """The rectangles of a cell assignment if it is a shape, else a reason (str)."""
    inv = {b: cr for cr, b in pos.items()}
    rs = []
    for i, row in enumerate(sig):
        on = [inv[b] for b, v in enumerate(row) if v]
        if not on:
            return f"box {i} is empty"
        r = (min(c for c, _ in on), max(c for c, _ in on), min(r for _, r in on), max(r for _, r in on))
        if len(on) != (r[1] - r[0] + 1) * (r[3] - r[2] + 1):
            return f"box {i} is not a full rectangle of cells"
        rs.append(r)
    for i in range(len(rs)):
        for j in range(i + 1, len(rs)):
            if not disjoint(rs[i], rs[j]):
                return f"boxes {i} and {j} overlap"
    for i in range(1, len(rs)):
        if not abuts(rs[0], rs[i]):
            return f"box {i} does not abut the trunk along one side within the trunk's extent"
    return rs


def cost_of_sigma(sig, cc):
    n = len(cc)
    return sum(cc[b] for b in range(n) if any(row[b] for row in sig))


def show_sigma(sig):
    return " | ".join("".join(str(int(x)) for x in row) for row in sig)


def oracle_select(case, obs):
    """The grid handed to the tool as an allocation must reach the search as that grid: the same cells (in the same
    order), every column / row line one coordinate shared exactly by the cells on both sides, M's ratio per cell."""
    g = grid_index(case)
    if g is None:
        return None
    xs, ys, pos = g
    decimal = case["alloc"]["decimal"]
    sel = obs["selected"]
    if len(sel) != len(case["cells"]):
        return f"select: select_box returns {len(sel)} cells for an allocation of {len(case['cells'])} rectangles"
    for b, (c, want, mods) in enumerate(zip(sel, case["cells"], case["alloc"]["mods"])):
        for got, w in zip(c[:4], want):
            tol = Fraction(1, 10 ** 8) * max(abs(w), 1) if decimal else 0
            if abs(Fraction(got) - w) > tol:
                return f"select: cell {b} comes out as {c[:4]} instead of {[float(v) for v in want]}"
        ratio = dict((nm, r) for nm, r in mods).get("M", Fraction(0))
        if Fraction(c[4]) != Fraction(float(ratio)):
            return f"select: cell {b} has occupancy {c[4]} instead of the module's ratio {float(ratio)}"
    eff = effective(case, obs)
    ge = grid_index(eff)
    exs = sorted({c[0] for c in eff["cells"]} | {c[2] for c in eff["cells"]})
    eys = sorted({c[1] for c in eff["cells"]} | {c[3] for c in eff["cells"]})
    if ge is None or len(exs) != len(xs) or len(eys) != len(ys):
        near = [(float(a), float(b)) for l in (exs, eys) for a, b in zip(l, l[1:]) if b - a < Fraction(1, 10 ** 8) * max(abs(b), 1)]
        return (f"select: the {len(xs) - 1} x {len(ys) - 1} grid of the allocation reaches the search with {len(exs)} distinct x "
                f"and {len(eys)} distinct y coordinates instead of {len(xs)} and {len(ys)}: adjacent cells do not share "
                f"their border coordinate exactly (e.g. {near[:2]}), so the cells are not a grid for definecoords")
    return None


def oracle(case, obs):
    if case.get("alloc"):
        why = oracle_select(case, obs)
        if why:
            return why
        return oracle_solve(effective(case, obs), obs, decimal=case["alloc"]["decimal"])
    return oracle_solve(case, obs, decimal=bool(case.get("inexact")))


def oracle_solve(case, obs, decimal=False):
    if case["kind"] != "grid":
        return None
    g = grid_index(case)
    if g is None:
        return None
    xs, ys, pos = g
    nx, ny, n, k = len(xs) - 1, len(ys) - 1, len(case["cells"]), case["k"]
    if obs["keyerror"]:
        return "solve: KeyError on a full grid"
    if obs.get("zerodiv"):
        return ("solve: raised ZeroDivisionError on a full grid instead of returning a shape or (0, 1), [] "
                f"(ratio {case['ratio']}, theoretical area {obs['tba']}: the quality it prints divides by "
                "(ratio - 1) * theoretical area)")
    if [Fraction(x) for x in obs["xs"]] != xs or [Fraction(y) for y in obs["ys"]] != ys:
        return "coords: definecoords does not return the sorted coordinate lists of the grid"
    cc = cell_costs(case)
    bound = case["bound"]
    expected = None           # small grids: every shape meeting the bound, keyed by its cell pattern
    exists = None             # larger grids: does some shape meet the bound (None: not searched)
    shapes = all_shapes(nx, ny, k, cap=MAX_BRUTE_SHAPES)
    if shapes is not None:
        # cost of an index rectangle from 2-D prefix sums of the cell costs (boxes of a shape are disjoint)
        pre = [[0] * (ny + 1) for _ in range(nx + 1)]
        for ci in range(nx):
            for ri in range(ny):
                pre[ci + 1][ri + 1] = cc[pos[(ci, ri)]] + pre[ci][ri + 1] + pre[ci + 1][ri] - pre[ci][ri]

        def rcost(r):
            return pre[r[1] + 1][r[3] + 1] - pre[r[0]][r[3] + 1] - pre[r[1] + 1][r[2]] + pre[r[0]][r[2]]
        meeting = [sh for sh in shapes if sum(rcost(r) for r in sh) >= bound]
        exists = bool(meeting)
        if "models" in obs:
            expected = {show_sigma(sigma_of_shape(sh, pos, n)): sh for sh in meeting}
    if "models" in obs and expected is not None:
        got = {show_sigma(m): m for m in obs["models"]}
        for key, m in got.items():
            if key not in expected:
                why = shape_of_sigma(m, pos)
                if isinstance(why, str):
                    return f"models: the formula admits [{key}] (cells per box, in input order) which is not a shape: {why}"
                return (f"models: the formula admits the shape [{key}] whose cost {cost_of_sigma(m, cc)} is below the "
                        f"bound {bound}")
        for key, sh in expected.items():
            if key not in got:
                return (f"models: the shape [{key}] (boxes {sh}, cost {cost_of_sigma(sigma_of_shape(sh, pos, n), cc)} >= "
                        f"{bound}) is not admitted by the formula")
    if obs["sat"]:
        sig = obs["sigma"]
        rs = shape_of_sigma(sig, pos)
        if isinstance(rs, str):
            return f"solve: the model behind the returned rectangles [{show_sigma(sig)}] is not a shape: {rs}"
        cost = cost_of_sigma(sig, cc)
        if cost < bound and not decimal:
            return f"solve: returned shape [{show_sigma(sig)}] has cost {cost} below the bound {bound}"
        if obs["ret"] != [cost + 1, 1] and not decimal:      # decimal: the code's binary64 area products may truncate differently
            return f"solve: returned cost pair {obs['ret']} but the shape's cost is {cost} (expected [{cost + 1}, 1])"
        want = [[xs[r[0]], ys[r[2]], xs[r[1] + 1], ys[r[3] + 1]] for r in rs]
        got = [None if r is None else [Fraction(v) for v in r] for r in obs["rects"]]
        if got != want:
            return f"solve: returned rectangles {obs['rects']} are not the boxes {want} of the shape"
        if expected is not None and show_sigma(sig) not in expected:
            return "solve: returned shape is not among the shapes meeting the bound"
        if exists is False:
            return "solve: a shape was returned although the exhaustive search finds none meeting the bound"
    else:
        if obs["ret"] != [0, 1] or obs["rects"]:
            return f"solve: unsatisfiable answer is {obs['ret']}, {obs['rects']} instead of (0, 1), []"
        if exists:
            sh = meeting[0]
            return (f"solve: no shape returned although [{show_sigma(sigma_of_shape(sh, pos, n))}] is a shape with "
                    f"cost >= {bound}")
    return None


def origin_zero_integral(case):
    cells = case["cells"]
    xs = [c[0] for c in cells] + [c[2] for c in cells]
    ys = [c[1] for c in cells] + [c[3] for c in cells]
    return min(xs) == 0 and min(ys) == 0 and max(xs).denominator == 1 and max(ys).denominator == 1


def failure_key(case, why):
    head = (why or "").split(":")[0]
    if "ZeroDivisionError" in (why or ""):
        return "C08/quality-zero-division"
    if head == "select":
        return "C08/select-box-shared-borders"
    if head in ("models", "solve") and case.get("kind") == "grid" and not origin_zero_integral(case) \
            and case.get("k", 1) >= 2:
        return "C08/border-tests"          # F10: only grids with a shifted origin or a fractional extent
    return "C08/" + (head if head in ("models", "solve", "coords") else "shape-search")


# --------------------------------------------------------------------------
# shrinking: smaller grids, fewer boxes, plainer numbers
# --------------------------------------------------------------------------
def rebuild(case, xs, ys):
    nx, ny = len(xs) - 1, len(ys) - 1
    cells = grid_cells(xs, ys, list(range(nx * ny)))
    p = Fraction(0) if all(q == 0 for q in case["occ"]) else Fraction(1)     # keep "the module is absent"
    c = dict(case, cells=cells, occ=[p] * len(cells), history=None)
    if case.get("spell"):
        # keep how each line was written by the cells it bounds from below / from above
        tab = {}
        for cell, w in zip(case["cells"], case["spell"]):
            for j in range(4):
                tab.setdefault((j % 2, cell[j], j // 2), w[j])
        c["spell"] = ["".join(tab.get((j % 2, cell[j], j // 2), tab.get((j % 2, cell[j], 1 - j // 2), "f")) for j in range(4)) + "f"
                      for cell in cells]
    if case.get("alloc"):
        c["alloc"] = dict(case["alloc"], mods=[[["M", p]] for _ in cells])
        c["alloc"].pop("spell", None)
    if case.get("near"):
        c["inexact"] = not areas_robust(c)
    return c


_KEY = {}


def _key_of(case):
    """The failure class of a case (None if it does not fail): shrinking must not drift into another finding."""
    h = repr(fr.tojson(case))
    if h not in _KEY:
        try:
            obs = run_impl(case)
            why = oracle(case, obs)
        except Exception as e:
            why = f"implementation raised {type(e).__name__}: {e}"
        _KEY[h] = failure_key(case, why) if why else None
    return _KEY[h]


def shrink(case):
    want = _key_of(case)
    for c in shrink_all(case):
        if want is None or _key_of(c) == want:
            yield c


def shrink_all(case):
    if case.get("history"):
        yield dict(case, history=None)
    if case.get("spell"):
        c = dict(case)
        del c["spell"]
        yield c
    if case.get("alloc") and case["alloc"].get("spell"):
        yield dict(case, alloc={k: v for k, v in case["alloc"].items() if k != "spell"})
    g = grid_index(case) if case["kind"] == "grid" else None
    cc = cell_costs(case)
    low = sum(c for c in cc if c < 0) - 5
    if case["bound"] != low and not (case.get("alloc") and case["alloc"]["decimal"]) and not case.get("inexact"):
        yield dict(case, bound=low)
    if g:
        xs, ys, pos = g
        for i in range(len(xs)):
            if len(xs) > 2:
                c = rebuild(case, xs[:i] + xs[i + 1:], ys)
                yield dict(c, bound=-10 ** 6)
        for i in range(len(ys)):
            if len(ys) > 2:
                c = rebuild(case, xs, ys[:i] + ys[i + 1:])
                yield dict(c, bound=-10 ** 6)
        rb = rebuild(case, xs, ys)
        if rb["cells"] != case["cells"] or rb["occ"] != case["occ"]:
            yield dict(rb, bound=-10 ** 6)
    if case["k"] > 1:
        yield dict(case, k=case["k"] - 1)
    if case["ratio"] != 2:
        yield dict(case, ratio=Fraction(2))
    if case["factor"] != 4:
        yield dict(case, factor=4)


# --------------------------------------------------------------------------
def nontrivial(case):
    return case["kind"] == "grid" and len(case["cells"]) >= 3 and case["k"] >= 2


def dist_key(case):
    n = len(case["cells"])
    kind = case["kind"] if not case.get("alloc") else \
        (("ifile" if case["alloc"].get("via") == "ifile" else "alloc") + ("-decimal" if case["alloc"]["decimal"] else "-dyadic"))
    return f"{kind}/k{case['k']}/" + ("<=4" if n <= 4 else "<=9" if n <= 9 else "<=16" if n <= 16 else "<=25")


def run(ctx, out, replay=None):
    n = 500 if ctx.quick() else 5000
    out.rule = ("full grids of 1x1 .. 5x5 (and 6x1, 1x6) cells on strictly increasing dyadic coordinate lists (unit, "
                "integer non-uniform, fractional extent, shifted integer / fractional / negative origin, cells so small "
                "that the integer areas vanish - independently per axis); half of the cases from the ten smallest sizes, "
                "five of which are a single row or column; cells listed row-major, column-major or shuffled; k 1..3; "
                "occupancies 0, quarters up to 1, 5/4 and 2 (4% all zero, 3% only 0/1); factor 2..16; ratio 2, 3, 2.5, "
                "1.5 and (1 in 20) 1; bounds from trivially met to unsatisfiable; 6% grids with a missing cell and 3% with "
                "a degenerate cell (KeyError) for the correspondence only; 15% after an earlier solve in the same process, "
                "10% after an earlier solve (other k, other bound) with the SAME carrier and input-file objects, as rect's "
                "main does; cells also listed reversed and rows top-down; one case in 125 has 32..36 cells (11x3, 6x6, "
                "33x1, 1x34, 7x5, 8x4; k <= 2); "
                "every 8th case reaches the search through a real Allocation, rect_io.get_alloc and select_box - "
                "alternately with dyadic numbers (select_box compared with the model exactly) and with decimal "
                "coordinates (tenths, hundredths, twentieths; uniform or not; direct oracle only); two thirds of these "
                "hand the parsed input file (the dict get_alloc returns) to select_box directly, which is not confined to "
                "the positive quadrant: decimal axes ending exactly at 0, with 0 as an inner line or inside a cell, wholly "
                "negative, and 1e3..1e6 away from 0 on either side; for <= 9 cells every "
                "model of the solver's formula projected on the cell variables is enumerated with PySAT and compared "
                "with the independent enumeration of shapes meeting the bound; the variable table (registration "
                "order) is compared as well; every third case writes equal numbers in different ways in different cells "
                "(int / float / numpy.float64 / numpy.int64 / -0.0 per cell and coordinate: by side of the line, one "
                "deviating number, all ints but one, one line only, at random; in allocation texts 3 / 3.0 / 3.00 / "
                "30.0e-1 / 0.03e2 / 3.0e+0, in parsed input files int / float / numpy / -0.0) and the model reads the "
                "problem as written (read_problem); one case in 20 has two (or three) grid lines one unit in the last "
                "place apart (dyadic; one in 40 decimal: 0.3 | 0.1 + 0.2), one in 40 plain decimal coordinates on the "
                "direct path - compared with the model when the binary64 area products provably truncate like the exact "
                "ones, else direct oracle only; non-trivial = full grid with >= 3 cells and k >= 2; distinct by hash")
    cases = []
    if replay and "case" in replay:
        cases.append(fr.unjson(replay["case"]))
    cases += fr.load_corpus("C08")
    while len(cases) < n:
        j = len(cases)
        # every 8th case reaches the search through an allocation (get_alloc + select_box), alternately with
        # dyadic numbers (compared with the model exactly) and decimal ones (direct oracle)
        # ... and every other one of those hands the parsed input file to select_box directly (any origin: negative,
        # ending at 0, straddling 0, far from 0)
        # every third case writes equal numbers in different ways; one in 20 has two grid lines one unit in the last place
        # apart (dyadic numbers: compared with the model), one in 40 the same with decimal numbers and one in 40 plain
        # decimal coordinates on the direct path
        big = j % (250 if ctx.quick() else 125) == 51     # quick: two of them (each up to ~100 s of vm_compute), thorough: one in 125
        near = None if big else "dyadic" if j % 20 == 7 else "decimal" if j % 40 == 14 else "plain-decimal" if j % 40 == 34 else None
        cases.append(gen_case(ctx.rng, small=(j % 2 == 0), alloc=(None if j % 8 != 5 else (j % 16 != 5)),
                              via=("ifile" if j % 8 == 5 and (j // 16) % 3 != 0 else "file"), big=big,
                              spell=(j % 3 == 1), near=near))
    # the few 32..36-cell cases cost up to a minute each in vm_compute and the shards (10 consecutive cases) are awaited in
    # order: one per shard at the head of the list, so that they run side by side instead of stalling the queue four times
    large = [c for c in cases if len(c["cells"]) >= 30]
    cases = [c for c in cases if len(c["cells"]) < 30]
    for i, c in enumerate(large):
        cases.insert(min(10 * i + 9, len(cases)), c)
    stats = {"spelled": 0, "lines_written_in_two_ways": 0, "near_lines": 0, "inexact_oracle_only": 0, "sat": 0, "unsat": 0, "keyerror": 0, "zerodiv": 0, "zero_quality_denominator": 0, "enumerated_instances": 0, "models_enumerated": 0,
             "max_clauses": 0, "with_diagram": 0}

    def run_counted(case):
        obs = run_impl(case)
        if case.get("spell") or (case.get("alloc") or {}).get("spell"):
            stats["spelled"] += 1
            if case.get("spell") and mixed_lines(case):
                stats["lines_written_in_two_ways"] += 1
        stats["near_lines"] += bool(case.get("near") in ("dyadic", "decimal"))
        stats["inexact_oracle_only"] += bool(case.get("inexact"))
        if obs["keyerror"]:
            stats["keyerror"] += 1
            return obs
        if obs.get("zerodiv"):
            stats["zerodiv"] += 1
            return obs
        if obs["tba"] == 0 or case["ratio"] == 1:
            stats["zero_quality_denominator"] += 1
        stats["sat" if obs["sat"] else "unsat"] += 1
        stats["max_clauses"] = max(stats["max_clauses"], len(obs["clauses"]))
        if any(l[0][0] == "R" and l[0][1] >= 2 for c in obs["clauses"] for l in c):
            stats["with_diagram"] += 1
        if "models" in obs:
            stats["enumerated_instances"] += 1
            stats["models_enumerated"] += len(obs["models"])
        return obs
    fr.run_cases(ctx, out, cases, run_counted, to_coq, oracle, failure_key, HEADER,
                 dist_key=dist_key, nontrivial=nontrivial, shard=10, shrink=shrink)
    out.extra["c08_stats"] = stats
