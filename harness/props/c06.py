"""C06 - single-trunk orthogon recognition (find_location, create_stog)."""
from fractions import Fraction as F

from harness import core, fr
from harness.core import gq, gbool, glist, gopt

HEADER = """From FrameModel Require Import Num.QcTac Geometry.Rect Cases.Cmp Stog.CreateStog Stog.StogPost
  Stog.StogHist Stog.StogModule Cases.CmpC06.
Open Scope Qc_scope."""

ASSUMPTIONS = [
    "distance/area tolerances are passed explicitly (Rectangle.set_epsilon) and read by the model as parameters",
    "completeness is proved for rectangles at least 2*eps wide and high (FRAME's own eps is 1e-12 of the smallest dimension); "
    "degenerate cases are still compared model-vs-implementation but not judged by the oracle",
    "which of several valid trunks is selected is not compared (verified post-condition checker stog_post_ok instead)",
    "translation tie of find_location / area_overlap (shared with C18, see harness/props/c18.py::translation_tie): a source "
    "outside the translator's subset is recorded as 'translator: skipped (<reason>)', triples the correspondence budget and is "
    "not a violation by itself; a translated definition no longer proved equal to the model is",
    "object histories (kind 'hist'): a pool of real Rectangle objects goes through a sequence of create_stog calls on lists "
    "that share objects, in-place and setter moves / resizes, roles written through the public location setter, new objects "
    "and read-only probes; after EVERY operation the value of EVERY object is read back through the public attributes and the "
    "model (Stog/StogHist.v, a function of the current values) must agree; the oracle judges every call on the geometry read "
    "back just before it.  The same object never occurs twice in one list (the model identifies the candidate trunk by "
    "position, the code by object identity)",
    "module histories (kind 'mhist'): the same, through ONE real Module (built directly, or loaded by Netlist from a tree): "
    "m.create_stog() / m.has_stog, geometry.create_stog(m.rectangles), Netlist.create_stogs(), between changes of the module's "
    "rectangles through add_rectangle, clear_rectangles, the public list (append / insert / remove / pop / del / extend / slice "
    "assignment / reverse), Netlist.assign_rectangles, recenter_rectangles (only with a centroid that is exact in binary64) and "
    "every object operation above; after EVERY operation every object and the module's list (by identity) are read back and "
    "replayed through Cases/CmpC06.v mhist_check (model: Stog/StogModule.v); has_stog is read only right after a recognition "
    "of the module and must equal its answer",
]

SIDES = ["NORTH", "SOUTH", "EAST", "WEST"]


def box(r):
    cx, cy, w, h = (core.frac(r[k]) for k in ("cx", "cy", "w", "h"))
    return cx - w / 2, cy - h / 2, cx + w / 2, cy + h / 2


def from_box(b, region="_", hard=False):
    return {"cx": (b[0] + b[2]) / 2, "cy": (b[1] + b[3]) / 2, "w": b[2] - b[0], "h": b[3] - b[1],
            "fixed": False, "hard": hard, "region": region, "loc": "NOPOLY"}


def gen_case(rng):
    kind = rng.choice(["stog", "stog", "stog", "near", "near", "dup", "random", "degenerate", "single", "empty", "pair"])
    eps = rng.choice([F(1, 1024), F(1, 1024), F(1, 64), F(0), F(1, 4096)])
    aeps = rng.choice([F(1, 1024), F(1, 32), F(1, 16), F(0)])
    den = rng.choice([1, 2, 4])
    x0 = F(rng.randrange(4, 20), den)
    y0 = F(rng.randrange(4, 20), den)
    W = F(rng.randrange(2, 12), den)
    H = F(rng.randrange(2, 12), den)
    t = (x0, y0, x0 + W, y0 + H)
    rects = [from_box(t)]
    if kind == "empty":
        return {"kind": kind, "eps": eps, "aeps": aeps, "rects": []}
    if kind == "single":
        return {"kind": kind, "eps": eps, "aeps": aeps, "rects": rects}
    if kind == "random":
        n = rng.randrange(2, 6)
        rects = []
        for _ in range(n):
            a = F(rng.randrange(0, 12), 2)
            b = F(rng.randrange(0, 12), 2)
            rects.append(from_box((a, b, a + F(rng.randrange(1, 8), 2), b + F(rng.randrange(1, 8), 2))))
        return {"kind": kind, "eps": eps, "aeps": aeps, "rects": rects}
    nb = rng.randrange(1, 6)
    tiny = rng.choice([F(1, 4096), F(1, 2048), F(1, 256), F(1, 128)])

    def branch(side, mode):
        # a branch of the trunk on `side`; mode selects exact / perturbed / broken placement
        d = F(rng.randrange(1, 8), den)           # how far it sticks out
        if side in ("NORTH", "SOUTH"):
            lo, hi = t[0], t[2]
        else:
            lo, hi = t[1], t[3]
        L = hi - lo
        a = lo + L * F(rng.randrange(0, 4), 4)
        b = a + L * F(rng.randrange(1, 5), 4)
        b = min(b, hi)
        if rng.random() < 0.3:
            a, b = lo, hi                          # flush with both corners
        off = F(0)
        if mode == "perturb":
            off = rng.choice([-1, 1]) * tiny       # within or outside eps depending on eps
        if mode == "gap":
            off = F(rng.randrange(1, 4), 8)
        if mode == "overlap":
            off = -F(rng.randrange(1, 4), 8)
        if mode == "overhang":
            if rng.random() < 0.5:
                a = lo - F(rng.randrange(1, 4), 8)
            else:
                b = hi + F(rng.randrange(1, 4), 8)
        if mode == "overhang_tiny":
            if rng.random() < 0.5:
                a = lo - tiny
            else:
                b = hi + tiny
        if side == "NORTH":
            return (a, t[3] + off, b, t[3] + off + d)
        if side == "SOUTH":
            return (a, t[1] - off - d, b, t[1] - off)
        if side == "EAST":
            return (t[2] + off, a, t[2] + off + d, b)
        return (t[0] - off - d, a, t[0] - off, b)

    for _ in range(nb):
        side = rng.choice(SIDES)
        mode = "exact"
        if kind == "near" and rng.random() < 0.5:
            mode = rng.choice(["perturb", "gap", "overlap", "overhang", "overhang_tiny", "perturb"])
        rects.append(from_box(branch(side, mode)))
    if kind == "dup":
        rects.append(dict(rng.choice(rects)))
    if kind == "degenerate":
        s = rng.choice(SIDES)
        b = branch(s, "exact")
        # make it thinner than 2*eps in one direction
        th = eps if eps > 0 else F(1, 4096)
        if s in ("NORTH", "SOUTH"):
            b = (b[0], b[1], b[0] + th, b[3])
        else:
            b = (b[0], b[1], b[2], b[1] + th)
        rects.append(from_box(b))
    if kind == "pair":
        rects = rects[:2]
    rng.shuffle(rects)
    return {"kind": kind, "eps": eps, "aeps": aeps, "rects": rects}


def gen_extra(rng):
    """input classes the random stream reaches rarely or never: equal areas (the scan of create_stog stops at the
    first candidate that is NOT LARGER than the best one), long lists (9, 10, 15, 16, 17, 31, 32, 33, 64, 100
    branches), integer coordinates (Point / Shape built from Python ints), rectangles left of / below the origin,
    straddling it or ending exactly at 0, lists given trunk-last / reversed / sorted by area"""
    kind = rng.choice(["equal", "equal", "many", "ints", "negative", "negative", "order"])
    eps = rng.choice([F(1, 1024), F(1, 64), F(0), F(1, 4096)])
    aeps = rng.choice([F(1, 1024), F(1, 16), F(0)])
    case = None
    if kind == "equal":
        a = F(rng.randrange(1, 6))
        b = F(rng.randrange(1, 6))
        x0, y0 = F(rng.randrange(2, 10)), F(rng.randrange(2, 10))
        style = rng.choice(["twins", "twins3", "area-tie", "bigger-invalid"])
        if style == "twins":               # two equal rectangles side by side: each is a trunk for the other
            rects = [from_box((x0, y0, x0 + a, y0 + b)), from_box((x0 + a, y0, x0 + 2 * a, y0 + b))]
        elif style == "twins3":            # three in a row: only the middle one is a trunk, all areas equal
            rects = [from_box((x0 + i * a, y0, x0 + (i + 1) * a, y0 + b)) for i in range(3)]
        elif style == "area-tie":          # trunk 2a x 2b with a branch a x 4b on its east side, flush with the south corner: same area
            rects = [from_box((x0, y0, x0 + 2 * a, y0 + 4 * b)), from_box((x0 + 2 * a, y0, x0 + 4 * a, y0 + 4 * b)),
                     from_box((x0, y0 + 4 * b, x0 + a, y0 + 5 * b))]
        else:                              # the largest rectangle is no trunk, a smaller one is; another has the trunk's area
            rects = [from_box((x0, y0, x0 + 2 * a, y0 + 2 * b)), from_box((x0 + 2 * a, y0, x0 + 3 * a, y0 + b)),
                     from_box((x0, y0 + 2 * b, x0 + a, y0 + 3 * b)), from_box((x0 + 10 * a, y0, x0 + 12 * a, y0 + 2 * b))]
            if rng.random() < 0.5:
                rects = rects[:3]
        rng.shuffle(rects)
        case = {"kind": "equal/" + style, "eps": eps, "aeps": aeps, "rects": rects}
    elif kind == "many":
        k = rng.choice([9, 10, 15, 16, 17, 31, 32, 33, 64, 100])
        d = F(1, 4)
        north = (k + 1) // 2
        x0, y0 = F(3), F(5)
        Wd = north * d
        rects = [from_box((x0, y0, x0 + Wd, y0 + 2))]
        for i in range(k):
            j, up = (i, True) if i < north else (i - north, False)
            h = F(rng.randrange(1, 5), 4)
            rects.append(from_box((x0 + j * d, y0 + 2, x0 + (j + 1) * d, y0 + 2 + h) if up else
                                  (x0 + j * d, y0 - h, x0 + (j + 1) * d, y0)))
        bad = rng.random() < 0.3
        if bad:                            # one branch pulled away: no orthogon any more
            i = rng.randrange(1, len(rects))
            rects[i] = dict(rects[i], cy=rects[i]["cy"] + 10)
        order = rng.choice(["trunk-first", "trunk-last", "shuffled"])
        if order == "trunk-last":
            rects = rects[1:] + rects[:1]
        elif order == "shuffled":
            rng.shuffle(rects)
        case = {"kind": f"many/{k}", "eps": eps, "aeps": aeps, "rects": rects}
    else:
        base = gen_case(rng)
        while len(base["rects"]) < 2 or base["kind"] == "degenerate":
            base = gen_case(rng)
        rects = base["rects"]
        eps, aeps = base["eps"], base["aeps"]
        if kind == "ints":
            # every coordinate an integer, handed over as Python ints
            m = 8
            rects = [dict(r, cx=r["cx"] * m, cy=r["cy"] * m, w=r["w"] * m, h=r["h"] * m) for r in rects]
            if not all(core.frac(r[f]).denominator == 1 for r in rects for f in ("cx", "cy", "w", "h")):
                return gen_extra(rng)
            case = {"kind": "ints", "eps": eps, "aeps": aeps, "rects": rects, "ints": True}
        elif kind == "negative":
            bs = [box(r) for r in rects]
            how = rng.choice(["left", "straddle", "end-at-0", "both-axes"])
            xs = sorted({b[0] for b in bs} | {b[2] for b in bs})
            ys = sorted({b[1] for b in bs} | {b[3] for b in bs})
            dx = {"left": xs[-1] + 3, "straddle": (xs[0] + xs[-1]) / 2, "end-at-0": xs[-1], "both-axes": rng.choice(xs)}[how]
            dy = rng.choice(ys) if how == "both-axes" else F(0)
            rects = [dict(r, cx=r["cx"] - dx, cy=r["cy"] - dy) for r in rects]
            case = {"kind": "negative/" + how, "eps": eps, "aeps": aeps, "rects": rects}
        else:
            how = rng.choice(["reversed", "by-area", "by-area-desc", "trunk-last"])
            ar = lambda r: core.frac(r["w"]) * core.frac(r["h"])
            if how == "reversed":
                rects = rects[::-1]
            elif how == "by-area":
                rects = sorted(rects, key=ar)
            elif how == "by-area-desc":
                rects = sorted(rects, key=ar, reverse=True)
            else:
                big = max(rects, key=ar)
                rects = [r for r in rects if r is not big] + [big]
            case = {"kind": "order/" + how, "eps": eps, "aeps": aeps, "rects": rects}
    return case


def gen_sameobj(rng):
    """A list in which one rectangle OBJECT occurs at two or three positions (a repeated rectangle in the strongest sense).
    The description lists the values position by position; 'share' says which positions hold one object.  By value the
    list is an ordinary list with repeated rectangles, so model, checker and oracle apply unchanged."""
    base = gen_case(rng)
    while len(base["rects"]) < 1 or base["kind"] in ("degenerate", "empty"):
        base = gen_case(rng)
    rects = [dict(d) for d in base["rects"]]
    share = list(range(len(rects)))
    for _ in range(rng.choice([1, 1, 2])):
        j = rng.choice([0, 0, rng.randrange(len(rects))])          # often the would-be trunk (listed first)
        pos = rng.randrange(len(rects) + 1)
        rects.insert(pos, dict(rects[j]))
        share = [k + 1 if k >= pos else k for k in share]
        src = j + 1 if j >= pos else j
        share.insert(pos, None)
        share[pos] = share[src]
    # positions holding one object all point at its first position
    first = {}
    canon = []
    for k, o in enumerate(share):
        first.setdefault(o, k)
        canon.append(first[o])
    return {"kind": "sameobj", "eps": base["eps"], "aeps": base["aeps"], "rects": rects, "share": canon}


def mk_rect_c06(d, ints=False):
    if not ints:
        return fr.mk_rect(d)
    from frame.geometry.geometry import Rectangle, Point, Shape
    r = Rectangle(center=Point(int(d["cx"]), int(d["cy"])), shape=Shape(int(d["w"]), int(d["h"])),
                  fixed=bool(d.get("fixed", False)), hard=bool(d.get("hard", False)), region=d.get("region", "_"))
    return r


def run_impl(case):
    if case.get("kind") == "hist":
        return run_hist_impl(case)
    if case.get("kind") == "mhist":
        return run_mhist_impl(case)
    from frame.geometry.geometry import Rectangle, create_stog
    Rectangle.undefine_epsilon()
    Rectangle.set_epsilon(float(case["eps"]), float(case["aeps"]))
    try:
        rects = [mk_rect_c06(d, case.get("ints", False)) for d in case["rects"]]
        if case.get("share"):
            # the same OBJECT at several positions of the list: position k holds the object built for position share[k]
            rects = [rects[j] for j in case["share"]]
        for r in rects:
            r.location = Rectangle.StogLocation.NO_POLYGON
        pre = [r.find_location(s).name for r in rects[:3] for s in rects[:3]]
        try:
            b = create_stog(rects)
        except AssertionError:
            return {"b": None, "out": [], "fl": pre}
        return {"b": bool(b), "out": [fr.rect_obs(r) for r in rects], "fl": pre}
    finally:
        Rectangle.undefine_epsilon()


def to_coq(case, obs):
    if case.get("kind") == "hist":
        return hist_to_coq(case, obs)
    if case.get("kind") == "mhist":
        return mhist_to_coq(case, obs)
    eps, aeps = gq(case["eps"]), gq(case["aeps"])
    RS = glist([fr.grect(dict(d, loc="NOPOLY")) for d in case["rects"]])
    if obs["b"] is None:
        return f"match create_stog {eps} {aeps} {RS} with None => true | Some _ => false end"
    OUT = glist([fr.grect(d) for d in obs["out"]])
    # pairwise find_location on the first three rectangles, exactly
    fl = []
    k = 0
    first = case["rects"][:3]
    for r in first:
        for s in first:
            fl.append(f"loc_eqb (find_location {eps} {aeps} {fr.grect(r)} {fr.grect(s)}) {fr.LOCS[obs['fl'][k]]}")
            k += 1
    flx = " && ".join(fl) if fl else "true"
    return (f"opt_eqb Bool.eqb (stog_decision {eps} {aeps} {RS}) (Some {gbool(obs['b'])}) && "
            f"stog_post_ok {eps} {aeps} {RS} {OUT} {gbool(obs['b'])} && {flx}")


# ---------------- direct oracle ----------------
def ov(a, b):
    w = min(a[2], b[2]) - max(a[0], b[0])
    h = min(a[3], b[3]) - max(a[1], b[1])
    return w * h if w > 0 and h > 0 else F(0)


def abuts(side, t, r, eps, aeps):
    if ov(t, r) > aeps:
        return False
    if side == "NORTH":
        return abs(t[3] - r[1]) < eps and r[0] > t[0] - eps and r[2] < t[2] + eps
    if side == "SOUTH":
        return abs(t[1] - r[3]) < eps and r[0] > t[0] - eps and r[2] < t[2] + eps
    if side == "EAST":
        return abs(t[2] - r[0]) < eps and r[1] > t[1] - eps and r[3] < t[3] + eps
    if side == "WEST":
        return abs(t[0] - r[2]) < eps and r[1] > t[1] - eps and r[3] < t[3] + eps
    return False


def geom_key(d):
    return tuple(core.frac(d[k]) for k in ("cx", "cy", "w", "h")) + (d["region"], d["fixed"], d["hard"])


def oracle_one(case, obs):
    rects = case["rects"]
    eps, aeps = case["eps"], case["aeps"]
    if not rects:
        return None if obs["b"] is None else "empty list accepted"
    if obs["b"] is None:
        return "non-empty list rejected"
    if sorted(map(geom_key, rects), key=repr) != sorted(map(geom_key, obs["out"]), key=repr):
        return "recognition altered, dropped or duplicated a rectangle"
    degenerate = any(core.frac(d["w"]) < 2 * eps or core.frac(d["h"]) < 2 * eps for d in rects)
    boxes = [box(d) for d in rects]
    exists = any(all(j == i or any(abuts(s, boxes[i], boxes[j], eps, aeps) for s in SIDES)
                     for j in range(len(rects))) for i in range(len(rects)))
    out = obs["out"]
    if obs["b"]:
        if out[0]["loc"] != "TRUNK":
            return "reported as orthogon but the first rectangle is not labelled as trunk"
        t = box(out[0])
        for r in out[1:]:
            if r["loc"] not in SIDES:
                return "reported as orthogon but a non-trunk rectangle carries no side"
            if not abuts(r["loc"], t, box(r), eps, aeps):
                return f"rectangle labelled {r['loc']} does not abut that side of the trunk within its extent"
        if not exists and not degenerate:
            return "reported as orthogon although no rectangle can serve as trunk"
    else:
        if any(r["loc"] != "NOPOLY" for r in out):
            return "not reported as orthogon but some rectangle carries a role"
        if exists and not degenerate:
            return "a valid trunk exists but the rectangles are not reported as an orthogon"
    return None




# --------------------------------------------------------------------------
# object histories
# --------------------------------------------------------------------------
ROLES = ["TRUNK", "NORTH", "SOUTH", "EAST", "WEST", "NOPOLY"]


def far_rect(rng):
    return from_box((F(40 + rng.randrange(0, 8)), F(40), F(44 + rng.randrange(0, 8)) + 4, F(44)))


def gen_hist(rng):
    """A pool of rectangles and a sequence of operations on it.  Built from an ordinary case (usually a
    single-trunk orthogon) so that positive answers - which leave roles behind - are frequent."""
    base = gen_case(rng)
    while len(base["rects"]) < 2:
        base = gen_case(rng)
    eps, aeps = base["eps"], base["aeps"]
    pool = [dict(r) for r in base["rects"]]
    for r in pool:
        if rng.random() < 0.15:
            r["loc"] = rng.choice(ROLES)            # a role left by "somebody else" before the history starts
    n = len(pool)
    ops = []
    cur = [dict(r) for r in pool]                  # the generator's own idea of the current geometry
    big = max(range(n), key=lambda i: core.frac(cur[i]["w"]) * core.frac(cur[i]["h"]))

    def alive():
        return list(range(len(cur)))

    def a_list(kind=None):
        ids = alive()
        kind = kind or rng.choice(["all", "all", "perm", "sub", "sub2", "old"])
        if kind == "old":
            ids = list(range(n))
        if kind == "sub" and len(ids) > 2:
            ids.remove(rng.choice(ids))
        if kind == "sub2" and len(ids) > 2:
            ids = rng.sample(ids, rng.randrange(1, len(ids)))
        if kind != "all" or rng.random() < 0.5:
            rng.shuffle(ids)
        return ids

    def move(i, x, y, mech=None):
        mech = mech or rng.choice(["attr", "iadd", "setter"])
        ops.append(["move", mech, i, x, y])
        cur[i]["cx"], cur[i]["cy"] = x, y

    def resize(i, w, h, mech=None):
        mech = mech or rng.choice(["attr", "setter"])
        ops.append(["resize", mech, i, w, h])
        cur[i]["w"], cur[i]["h"] = w, h

    def new(r):
        ops.append(["new", dict(r)])
        cur.append(dict(r))
        return len(cur) - 1

    template = rng.choice(["replace-front", "replace-front", "move-away", "move-back", "prepend", "swap-group",
                           "resize", "setloc", "random", "random", "random"])
    if template == "replace-front":
        # recognise; then a fresh rectangle takes the place of one element (often the trunk) and goes in front
        ops.append(["call", a_list("all")])
        k = new(far_rect(rng) if rng.random() < 0.7 else from_box(box(cur[big])))
        gone = big if rng.random() < 0.7 else rng.randrange(n)
        rest = [i for i in range(n) if i != gone]
        rng.shuffle(rest)
        ops.append(["call", [k] + rest])
        if rng.random() < 0.5:
            ops.append(["call", a_list("old")])
    elif template == "prepend":
        ops.append(["call", a_list("all")])
        k = new(far_rect(rng))
        rest = list(range(n))
        rng.shuffle(rest)
        ops.append(["call", [k] + rest])
        ops.append(["call", rest + [k]])
    elif template == "move-away":
        ops.append(["call", a_list("all")])
        i = big if rng.random() < 0.6 else rng.randrange(n)
        ox, oy = cur[i]["cx"], cur[i]["cy"]
        move(i, ox + F(rng.randrange(20, 40)), oy + F(rng.randrange(0, 30)))
        ops.append(["call", a_list(rng.choice(["all", "perm"]))])
        if rng.random() < 0.6:
            move(i, ox, oy)
            ops.append(["call", a_list("all")])
    elif template == "move-back":
        # broken first, repaired in place afterwards
        i = rng.randrange(n)
        ox, oy = cur[i]["cx"], cur[i]["cy"]
        if rng.random() < 0.5:
            ops.append(["probe", rng.randrange(n), i])
        move(i, ox + F(rng.randrange(1, 9), 4) * rng.choice([-1, 1]), oy)
        ops.append(["call", a_list("all")])
        move(i, ox, oy)
        ops.append(["call", a_list("all")])
    elif template == "swap-group":
        # a second, unrelated group; lists mixing the two
        g2 = [new(far_rect(rng)) for _ in range(rng.choice([1, 2]))]
        ops.append(["call", list(range(n))])
        ops.append(["call", g2 + rng.sample(range(n), rng.randrange(1, n))])
        ops.append(["call", [rng.choice(g2)] + [i for i in range(n) if i != big]])
        ops.append(["call", list(range(n))])
    elif template == "resize":
        ops.append(["call", a_list("all")])
        i = rng.randrange(n)
        w, h = cur[i]["w"], cur[i]["h"]
        resize(i, w * rng.choice([F(1, 2), 2, F(3, 2)]), h)
        ops.append(["call", a_list("all")])
        resize(i, w, h)
        ops.append(["call", a_list("perm")])
    elif template == "setloc":
        for i in rng.sample(range(n), rng.randrange(1, n + 1)):
            ops.append(["setloc", i, rng.choice(ROLES)])
        ops.append(["call", a_list()])
        ops.append(["setloc", rng.randrange(n), rng.choice(ROLES)])
        ops.append(["call", a_list()])
    else:
        for _ in range(rng.randrange(3, 9)):
            what = rng.choices(["call", "move", "resize", "setloc", "new", "probe"], [6, 3, 1, 1, 2, 2])[0]
            ids = alive()
            i = rng.choice(ids)
            if what == "call":
                ops.append(["call", a_list()])
            elif what == "move":
                if rng.random() < 0.5:
                    move(i, cur[i]["cx"] + F(rng.randrange(-8, 9), 4), cur[i]["cy"] + F(rng.randrange(-8, 9), 4))
                elif rng.random() < 0.5:
                    move(i, cur[i]["cx"] + 30, cur[i]["cy"])
                else:
                    o = pool[i] if i < n else cur[i]
                    move(i, o["cx"], o["cy"])       # back to where it started
            elif what == "resize":
                resize(i, cur[i]["w"] * rng.choice([F(1, 2), 2]), cur[i]["h"] * rng.choice([1, 1, 2]))
            elif what == "setloc":
                ops.append(["setloc", i, rng.choice(ROLES)])
            elif what == "new":
                new(far_rect(rng) if rng.random() < 0.5 else from_box(box(cur[rng.choice(ids)])))
            else:
                ops.append(["probe", i, rng.choice(ids)])
        ops.append(["call", a_list()])
    # the very list object an earlier call was given (reordered by that call), as Module.create_stog does
    calls = [k for k, op in enumerate(ops) if op[0] == "call" and op[1]]
    if calls and rng.random() < 0.45:
        k = rng.choice(calls)
        at = rng.randrange(k + 1, len(ops) + 1)
        ops.insert(at, ["recall", k])
        if rng.random() < 0.4:
            ops.append(["recall", k])
    if rng.random() < 0.04:
        ops.append(["call", []])
    return {"kind": "hist", "eps": eps, "aeps": aeps, "rects": pool, "ops": ops, "template": template}


def run_hist_impl(case):
    from frame.geometry.geometry import Rectangle, Point, Shape, create_stog
    Rectangle.undefine_epsilon()
    Rectangle.set_epsilon(float(case["eps"]), float(case["aeps"]))
    Loc = Rectangle.StogLocation
    try:
        objs = [fr.mk_rect(d) for d in case["rects"]]
        steps = []
        lists = {}
        for k, op in enumerate(case["ops"]):
            rec = {}
            if op[0] in ("call", "recall"):
                if op[0] == "call":
                    lst = lists[k] = [objs[i] for i in op[1]]
                else:
                    lst = lists[op[1]]
                rec["idxs"] = [next(n for n, o in enumerate(objs) if o is x) for x in lst]
                pre = [fr.rect_obs(r) for r in objs]
                try:
                    rec["b"] = bool(create_stog(lst))
                except AssertionError:
                    rec["b"] = None
                rec["pre"] = pre
                rec["order"] = [next(k for k, o in enumerate(objs) if o is x) for x in lst]
            elif op[0] == "move":
                _, mech, i, x, y = op
                r = objs[i]
                if mech == "attr":
                    r.center.x = float(x)
                    r.center.y = float(y)
                elif mech == "iadd":
                    r.center.x += float(x) - r.center.x
                    r.center.y += float(y) - r.center.y
                else:
                    r.center = Point(float(x), float(y))
            elif op[0] == "resize":
                _, mech, i, w, h = op
                r = objs[i]
                if mech == "attr":
                    r.shape.w = float(w)
                    r.shape.h = float(h)
                else:
                    r.shape = Shape(float(w), float(h))
            elif op[0] == "setloc":
                objs[op[1]].location = getattr(Loc, "NO_POLYGON" if op[2] == "NOPOLY" else op[2])
            elif op[0] == "new":
                objs.append(fr.mk_rect(op[1]))
            elif op[0] == "probe":
                a, c = objs[op[1]], objs[op[2]]
                bb = a.bounding_box
                rec["bbox"] = [bb.ll.x, bb.ll.y, bb.ur.x, bb.ur.y]
                rec["loc"] = fr.LOCS[a.find_location(c).name]
                rec["ov"] = a.area_overlap(c)
            else:
                raise ValueError(op[0])
            rec["post"] = [fr.rect_obs(r) for r in objs]
            steps.append(rec)
        return {"steps": steps}
    finally:
        Rectangle.undefine_epsilon()


def gnats(l):
    return "[" + "; ".join(str(int(i)) for i in l) + "]%nat"


def ghop(op, rec=None):
    if op[0] in ("call", "recall"):
        return f"HCall {gnats(rec['idxs'])}"
    if op[0] == "move":
        return f"HMove {'Setter' if op[1] == 'setter' else 'InPlace'} {int(op[2])}%nat {gq(op[3])} {gq(op[4])}"
    if op[0] == "resize":
        return f"HResize {'Setter' if op[1] == 'setter' else 'InPlace'} {int(op[2])}%nat {gq(op[3])} {gq(op[4])}"
    if op[0] == "setloc":
        return f"HSetLoc {int(op[1])}%nat {fr.LOCS[op[2]]}"
    if op[0] == "new":
        return f"HNew {fr.grect(op[1])}"
    if op[0] == "probe":
        return f"HProbe {int(op[1])}%nat {int(op[2])}%nat"
    raise ValueError(op[0])


def hist_to_coq(case, obs):
    eps, aeps = gq(case["eps"]), gq(case["aeps"])
    steps = []
    for op, rec in zip(case["ops"], obs["steps"]):
        post = glist([fr.grect(d) for d in rec["post"]])
        if op[0] in ("call", "recall"):
            o = f"OCall {gopt(None if rec['b'] is None else gbool(rec['b']))} {gnats(rec['order'])} {post}"
        elif op[0] == "probe":
            o = f"OProbe {rec['loc']} {gq(rec['ov'])} {post}"
        else:
            o = f"OState {post}"
        steps.append(f"({ghop(op, rec)}, {o})")
    pool = glist([fr.grect(d) for d in case["rects"]])
    return f"hist_check {eps} {aeps} {pool} {glist(steps)}"


def hist_oracle(case, obs):
    """every call judged on its own, on the geometry read back from the objects just before it"""
    for k, (op, rec) in enumerate(zip(case["ops"], obs["steps"])):
        if op[0] not in ("call", "recall"):
            continue
        idxs = rec["idxs"]
        sub = {"eps": case["eps"], "aeps": case["aeps"], "rects": [rec["pre"][i] for i in idxs]}
        out = [rec["post"][i] for i in rec["order"]]
        why = oracle_one(sub, {"b": rec["b"], "out": out if rec["b"] is not None else []})
        if why:
            return f"step {k} (create_stog on objects {idxs}): {why}"
        if sorted(rec["order"]) != sorted(idxs):
            return f"step {k}: the list no longer holds the same objects"
        for i, (a, c) in enumerate(zip(rec["pre"], rec["post"])):
            if geom_key(a) != geom_key(c):
                return f"step {k}: recognition altered rectangle {i}"
    return None


def hist_shrink(case):
    ops = case["ops"]
    calls = [k for k, op in enumerate(ops) if op[0] in ("call", "recall")]
    for k in calls[:-1]:
        yield dict(case, ops=ops[:k + 1])

    def without(k):
        out = []
        for n, op in enumerate(ops):
            if n == k or (op[0] == "recall" and op[1] == k):
                continue
            out.append(["recall", op[1] - 1] if op[0] == "recall" and op[1] > k else op)
        return out
    for k in range(len(ops)):
        if ops[k][0] != "new" and len(ops) > 1:
            yield dict(case, ops=without(k))
    for k, op in enumerate(ops):
        if op[0] == "call" and len(op[1]) > 1:
            for j in range(len(op[1])):
                yield dict(case, ops=ops[:k] + [["call", op[1][:j] + op[1][j + 1:]]] + ops[k + 1:])


# --------------------------------------------------------------------------
# module histories: the same histories through the Module API (frame/netlist/module.py)
# --------------------------------------------------------------------------
RECOG = ("mcall", "mplain", "ncall", "call")


def mops_valid(case):
    """the module never holds one object twice, every index names an object, ncall / recenter never on an empty module"""
    n = len(case["rects"])
    ml = set(range(n)) if case.get("via") == "netlist" else set()
    for op in case["ops"]:
        k = op[0]
        if k == "new":
            n += 1
        elif k == "nassign":
            ml = set(range(n, n + len(op[1])))
            n += len(op[1])
        elif k in ("madd", "minsert"):
            i = op[-1]
            if i in ml or not 0 <= i < n:
                return False
            ml.add(i)
        elif k == "mremove":
            ml.discard(op[2])
        elif k == "mset":
            if len(set(op[2])) != len(op[2]) or any(not 0 <= i < n for i in op[2]):
                return False
            ml = set(op[2])
        elif k == "mclear":
            ml = set()
        elif k in ("ncall", "mrecenter"):
            if not ml:
                return False
        elif k == "call":
            if len(set(op[1])) != len(op[1]) or any(not 0 <= i < n for i in op[1]):
                return False
        elif k in ("move", "resize"):
            if not 0 <= op[2] < n:
                return False
        elif k == "setloc":
            if not 0 <= op[1] < n:
                return False
        elif k == "probe":
            if not (0 <= op[1] < n and 0 <= op[2] < n):
                return False
    return True


def gen_mhist(rng):
    base = gen_case(rng)
    while len(base["rects"]) < 2:
        base = gen_case(rng)
    eps, aeps = base["eps"], base["aeps"]
    via = "netlist" if rng.random() < 0.25 else "module"
    pool = [dict(r) for r in base["rects"]]
    if via == "netlist":
        # parse_yaml_rectangle wants non-negative numbers: everything moved into the first quadrant
        pool = [dict(r, cx=r["cx"] + 16, cy=r["cy"] + 16) for r in pool]
    else:
        for r in pool:
            if rng.random() < 0.1:
                r["loc"] = rng.choice(ROLES)
    n = len(pool)
    cur = [dict(r) for r in pool]
    ops = []
    ml = set(range(n)) if via == "netlist" else set()
    hard = via == "module" and rng.random() < 0.3
    big = max(range(n), key=lambda i: core.frac(cur[i]["w"]) * core.frac(cur[i]["h"]))

    def recog():
        r = rng.random()
        if via == "netlist" and ml and r < 0.3:
            ops.append(["ncall"])
        elif r < 0.12:
            ops.append(["mplain"])
        else:
            ops.append(["mcall"])

    def add(i, mech=None):
        ops.append(["madd", mech or rng.choice(["add", "add", "append"]), i])
        ml.add(i)

    def add_all(ids=None):
        ids = list(range(n)) if ids is None else list(ids)
        rng.shuffle(ids)
        for i in ids:
            if i not in ml:
                add(i)

    def remove(i):
        ops.append(["mremove", rng.choice(["remove", "pop", "del"]), i])
        ml.discard(i)

    def mset(ids, mech=None):
        ids = list(ids)
        ops.append(["mset", mech or rng.choice(["clear+add", "clear+append", "clear+extend", "slice"]), ids])
        ml.clear()
        ml.update(ids)

    def move(i, x, y):
        ops.append(["move", rng.choice(["attr", "iadd", "setter"]), i, x, y])
        cur[i]["cx"], cur[i]["cy"] = x, y

    def resize(i, w, h):
        ops.append(["resize", rng.choice(["attr", "setter"]), i, w, h])
        cur[i]["w"], cur[i]["h"] = w, h

    def new(r):
        ops.append(["new", dict(r)])
        cur.append(dict(r))
        return len(cur) - 1

    def far():
        r = far_rect(rng)
        return dict(r, cx=r["cx"] + 16, cy=r["cy"] + 16) if via == "netlist" else r

    def recenter():
        """only when the centroid (hence every coordinate afterwards) is exact in binary64"""
        if not hard or not ml:
            return False
        A = sum(core.frac(cur[i]["w"]) * core.frac(cur[i]["h"]) for i in ml)
        if A <= 0:
            return False
        x = sum(core.frac(cur[i]["cx"]) * core.frac(cur[i]["w"]) * core.frac(cur[i]["h"]) for i in ml) / A
        y = sum(core.frac(cur[i]["cy"]) * core.frac(cur[i]["w"]) * core.frac(cur[i]["h"]) for i in ml) / A
        for v in (x, y):
            d = v.denominator
            if d & (d - 1) or d > 4096:
                return False
        dx, dy = F(rng.randrange(-12, 13), 4), F(rng.randrange(-12, 13), 4)
        ops.append(["mrecenter", x + dx, y + dy, dx, dy])
        for i in ml:
            cur[i]["cx"] += dx
            cur[i]["cy"] += dy
        return True

    def nassign(ids, changed=None):
        rs = [dict(cur[i], loc="NOPOLY") for i in ids]
        if changed:
            changed(rs)
        ops.append(["nassign", rs])
        ml.clear()
        for r in rs:
            cur.append(dict(r))
            ml.add(len(cur) - 1)

    templates = ["move-away", "move-away", "move-back", "remove-far", "resize", "clear-readd", "replace-trunk", "setloc",
                 "plain-mix", "random", "random", "random"]
    if hard:
        templates += ["recenter"] * 4
    if via == "netlist":
        templates += ["nassign"] * 5
    template = rng.choice(templates)
    if via == "module" and template != "move-back":
        if template == "remove-far":
            k = new(far())
            ids = list(range(n)) + [k]
            rng.shuffle(ids)
            for i in ids:
                add(i)
        else:
            add_all()
    if rng.random() < 0.15:
        ops.append(["probe", rng.randrange(n), rng.randrange(n)])

    if template == "move-away":
        recog()
        i = big if rng.random() < 0.5 else rng.randrange(n)
        ox, oy = cur[i]["cx"], cur[i]["cy"]
        move(i, ox + F(rng.randrange(20, 40)), oy + F(rng.randrange(0, 30)))
        recog()
        if rng.random() < 0.6:
            move(i, ox, oy)
            recog()
    elif template == "move-back":
        i = rng.randrange(n)
        ox, oy = cur[i]["cx"], cur[i]["cy"]
        if via == "module":
            ops.append(["move", "setter", i, ox + F(rng.randrange(1, 9), 4) * rng.choice([-1, 1]), oy])
            cur[i]["cx"] = ops[-1][3]
            add_all()
        else:
            move(i, ox + F(rng.randrange(1, 9), 4), oy)
        recog()
        move(i, ox, oy)
        recog()
    elif template == "remove-far":
        if via == "netlist":
            k = new(far())
            if rng.random() < 0.5:
                add(k)
            else:
                ops.append(["minsert", rng.randrange(0, n + 1), k])
                ml.add(k)
        else:
            k = len(cur) - 1
        recog()
        remove(k)
        recog()
        if rng.random() < 0.4:
            remove(big if rng.random() < 0.5 else rng.randrange(n))
            recog()
    elif template == "resize":
        recog()
        i = rng.randrange(n)
        w, h = cur[i]["w"], cur[i]["h"]
        resize(i, w * rng.choice([F(1, 2), 2, F(3, 2)]), h)
        recog()
        resize(i, w, h)
        recog()
    elif template == "clear-readd":
        recog()
        how = rng.choice(["clear", "mset-sub", "mset-far", "mset-same"])
        if how == "clear":
            ops.append(["mclear"])
            ml.clear()
            if rng.random() < 0.3:
                ops.append(["mcall"])               # the empty module: AssertionError, has_stog False
            ids = [i for i in range(n) if i != big or rng.random() < 0.5]
            rng.shuffle(ids)
            for i in ids:
                add(i, rng.choice(["add", "append", "append"]))
        elif how == "mset-sub":
            ids = [i for i in range(n) if i != (big if rng.random() < 0.6 else rng.randrange(n))]
            rng.shuffle(ids)
            mset(ids)
        elif how == "mset-far":
            k = new(far())
            ids = list(range(n)) + [k]
            rng.shuffle(ids)
            mset(ids)
        else:
            ids = list(range(n))
            rng.shuffle(ids)
            mset(ids)
        recog()
    elif template == "replace-trunk":
        recog()
        k = new(far() if rng.random() < 0.7 else from_box(box(cur[big])))
        gone = big if rng.random() < 0.7 else rng.randrange(n)
        if rng.random() < 0.5:
            rest = [i for i in range(n) if i != gone]
            rng.shuffle(rest)
            mset([k] + rest)
        else:
            remove(gone)
            ops.append(["minsert", rng.choice([0, 0, 1, n]), k])
            ml.add(k)
        recog()
    elif template == "setloc":
        recog()
        for i in rng.sample(range(n), rng.randrange(1, n + 1)):
            ops.append(["setloc", i, rng.choice(ROLES)])
        recog()
    elif template == "plain-mix":
        recog()
        i = rng.randrange(n)
        ox, oy = cur[i]["cx"], cur[i]["cy"]
        move(i, ox + F(rng.randrange(20, 40)), oy)
        how = rng.choice(["mplain", "call-all", "call-sub", "reverse"])
        if how == "mplain":
            ops.append(["mplain"])
        elif how == "reverse":
            ops.append(["mreverse"])
        else:
            ids = [j for j in range(n) if how == "call-all" or j != i]
            rng.shuffle(ids)
            ops.append(["call", ids])
        recog()
        move(i, ox, oy)
        if how != "mplain" and rng.random() < 0.5:
            ids = list(range(n))
            rng.shuffle(ids)
            ops.append(["call", ids])
        recog()
    elif template == "recenter":
        recog()
        ok = recenter()
        if not ok:
            move(big, cur[big]["cx"] + 30, cur[big]["cy"])
        recog()
        if rng.random() < 0.5:
            i = rng.randrange(n)
            move(i, cur[i]["cx"] + F(rng.randrange(1, 9), 4), cur[i]["cy"])
            recenter()
            recog()
    elif template == "nassign":
        recog()
        how = rng.choice(["same", "moved", "dropped", "far-added", "reordered"])
        ids = sorted(ml)
        if how == "same":
            nassign(ids)
        elif how == "moved":
            def ch(rs):
                r = rng.choice(rs)
                r["cx"] += rng.randrange(20, 40)
            nassign(ids, ch)
        elif how == "dropped":
            gone = big if rng.random() < 0.6 else rng.choice(ids)
            nassign([i for i in ids if i != gone] or ids)
        elif how == "far-added":
            def ch(rs):
                rs.insert(rng.randrange(len(rs) + 1), far())
            nassign(ids, ch)
        else:
            rng.shuffle(ids)
            nassign(ids)
        recog()
        if rng.random() < 0.5:
            i = rng.choice(sorted(ml))
            move(i, cur[i]["cx"] + rng.randrange(20, 40), cur[i]["cy"])
            recog()
    else:
        for _ in range(rng.randrange(3, 10)):
            what = rng.choices(["recog", "move", "resize", "setloc", "new+add", "remove", "readd", "probe", "call", "reverse",
                                "recenter", "mset"], [7, 4, 1, 1, 2, 2, 2, 1, 1, 1, 2, 1])[0]
            ids = list(range(len(cur)))
            i = rng.choice(ids)
            if what == "recog":
                if ml or rng.random() < 0.3:
                    recog()
            elif what == "move":
                o = pool[i] if i < n else cur[i]
                r = rng.random()
                if r < 0.4:
                    move(i, cur[i]["cx"] + F(rng.randrange(-8, 9), 4), cur[i]["cy"] + F(rng.randrange(-8, 9), 4))
                elif r < 0.7:
                    move(i, cur[i]["cx"] + 30, cur[i]["cy"])
                else:
                    move(i, o["cx"], o["cy"])
            elif what == "resize":
                resize(i, cur[i]["w"] * rng.choice([F(1, 2), 2]), cur[i]["h"] * rng.choice([1, 1, 2]))
            elif what == "setloc":
                ops.append(["setloc", i, rng.choice(ROLES)])
            elif what == "new+add":
                k = new(far() if rng.random() < 0.5 else from_box(box(cur[i])))
                if rng.random() < 0.8:
                    if rng.random() < 0.5:
                        add(k)
                    else:
                        ops.append(["minsert", rng.randrange(0, len(ml) + 1), k])
                        ml.add(k)
            elif what == "remove":
                if ml:
                    remove(rng.choice(sorted(ml)))
            elif what == "readd":
                out = [j for j in ids if j not in ml]
                if out:
                    add(rng.choice(out))
            elif what == "probe":
                ops.append(["probe", i, rng.choice(ids)])
            elif what == "call":
                sub = rng.sample(ids, rng.randrange(1, len(ids) + 1))
                ops.append(["call", sub])
            elif what == "reverse":
                ops.append(["mreverse"])
            elif what == "recenter":
                recenter()
            else:
                sub = rng.sample(ids, rng.randrange(0, len(ids) + 1))
                mset(sub)
        if ml:
            recog()
        else:
            ops.append(["mcall"])
    case = {"kind": "mhist", "eps": eps, "aeps": aeps, "rects": pool, "ops": ops, "template": "m-" + template, "via": via,
            "hard": hard}
    assert mops_valid(case), case
    return case


def _obj_op(objs, op, rec):
    """the operations on the rectangle objects themselves, shared with the plain histories"""
    from frame.geometry.geometry import Rectangle, Point, Shape
    Loc = Rectangle.StogLocation
    if op[0] == "move":
        _, mech, i, x, y = op
        r = objs[i]
        if mech == "attr":
            r.center.x = float(x)
            r.center.y = float(y)
        elif mech == "iadd":
            r.center.x += float(x) - r.center.x
            r.center.y += float(y) - r.center.y
        else:
            r.center = Point(float(x), float(y))
    elif op[0] == "resize":
        _, mech, i, w, h = op
        r = objs[i]
        if mech == "attr":
            r.shape.w = float(w)
            r.shape.h = float(h)
        else:
            r.shape = Shape(float(w), float(h))
    elif op[0] == "setloc":
        objs[op[1]].location = getattr(Loc, "NO_POLYGON" if op[2] == "NOPOLY" else op[2])
    elif op[0] == "new":
        objs.append(fr.mk_rect(op[1]))
    elif op[0] == "probe":
        a, c = objs[op[1]], objs[op[2]]
        rec["loc"] = fr.LOCS[a.find_location(c).name]
        rec["ov"] = a.area_overlap(c)
    else:
        return False
    return True


def run_mhist_impl(case):
    from frame.geometry.geometry import Rectangle, Point, create_stog
    from frame.netlist.module import Module
    Rectangle.undefine_epsilon()
    Rectangle.set_epsilon(float(case["eps"]), float(case["aeps"]))
    try:
        nl = None
        if case.get("via") == "netlist":
            from frame.netlist.netlist import Netlist
            area = float(sum(core.frac(d["w"]) * core.frac(d["h"]) for d in case["rects"]))
            tree = {"Modules": {"M": {"area": area, "rectangles": [[float(d["cx"]), float(d["cy"]), float(d["w"]), float(d["h"])]
                                                                      for d in case["rects"]]}}, "Nets": []}
            nl = Netlist(tree)                       # runs the first recognition on load
            m = nl.get_module("M")
            objs = list(m.rectangles)
        else:
            m = Module("M", hard=True) if case.get("hard") else Module("M", area=20.0)
            objs = [fr.mk_rect(d) for d in case["rects"]]

        def ident(x):
            return next(n for n, o in enumerate(objs) if o is x)

        def ml():
            return [ident(x) for x in m.rectangles]

        obs = {"pool0": [fr.rect_obs(r) for r in objs], "ml0": ml(), "has0": bool(m.has_stog), "steps": []}
        for op in case["ops"]:
            rec = {}
            k = op[0]
            if k in RECOG:
                lst = [objs[i] for i in op[1]] if k == "call" else m.rectangles
                rec["idxs"] = [ident(x) for x in lst]
                rec["pre"] = [fr.rect_obs(r) for r in objs]
                try:
                    if k == "mcall":
                        rec["b"] = bool(m.create_stog())
                    elif k == "ncall":
                        nl.create_stogs()
                        rec["b"] = "has"
                    else:
                        rec["b"] = bool(create_stog(lst))
                except AssertionError:
                    rec["b"] = None
                rec["has"] = bool(m.has_stog)
                if rec["b"] == "has":
                    rec["b"] = rec["has"]            # Netlist.create_stogs returns nothing: has_stog is the answer
                rec["order"] = [ident(x) for x in (lst if k == "call" else m.rectangles)]
            elif k == "madd":
                if op[1] == "add":
                    m.add_rectangle(objs[op[2]])
                else:
                    m.rectangles.append(objs[op[2]])
            elif k == "minsert":
                m.rectangles.insert(op[1], objs[op[2]])
            elif k == "mremove":
                pos = next((n for n, x in enumerate(m.rectangles) if x is objs[op[2]]), None)
                if pos is not None:
                    if op[1] == "remove" and m.rectangles.index(objs[op[2]]) == pos:
                        m.rectangles.remove(objs[op[2]])
                    elif op[1] == "del":
                        del m.rectangles[pos]
                    else:
                        m.rectangles.pop(pos)
            elif k == "mset":
                new = [objs[i] for i in op[2]]
                if op[1] == "slice":
                    m.rectangles[:] = new
                else:
                    m.clear_rectangles()
                    if op[1] == "clear+add":
                        for r in new:
                            m.add_rectangle(r)
                    elif op[1] == "clear+append":
                        for r in new:
                            m.rectangles.append(r)
                    else:
                        m.rectangles.extend(new)
            elif k == "mclear":
                m.clear_rectangles()
            elif k == "mreverse":
                m.rectangles.reverse()
            elif k == "mrecenter":
                m.center = Point(float(op[1]), float(op[2]))
                m.recenter_rectangles()
            elif k == "nassign":
                nl.assign_rectangles({"M": [[float(d["cx"]), float(d["cy"]), float(d["w"]), float(d["h"])] for d in op[1]]})
                rec["n_before"] = len(objs)
                objs.extend(m.rectangles)
            elif not _obj_op(objs, op, rec):
                raise ValueError(k)
            rec["post"] = [fr.rect_obs(r) for r in objs]
            rec["ml"] = ml()
            obs["steps"].append(rec)
        return obs
    finally:
        Rectangle.undefine_epsilon()


def mhist_to_coq(case, obs):
    eps, aeps = gq(case["eps"]), gq(case["aeps"])
    steps = []
    prev_ml = obs["ml0"]
    for op, rec in zip(case["ops"], obs["steps"]):
        post = glist([fr.grect(d) for d in rec["post"]])
        k = op[0]
        has = gbool(rec.get("has", False))
        if k in RECOG:
            o = f"OCall {gopt(None if rec['b'] is None else gbool(rec['b']))} {gnats(rec['order'])} {post}"
            mop = {"mcall": "MCreate", "ncall": "MCreate", "mplain": "MPlain"}.get(k) or f"(MObj (HCall {gnats(rec['idxs'])}))"
        elif k == "probe":
            o = f"OProbe {rec['loc']} {gq(rec['ov'])} {post}"
            mop = f"(MObj ({ghop(op)}))"
        else:
            o = f"OState {post}"
            if k == "madd":
                mop = f"(MAdd {int(op[2])}%nat)"
            elif k == "minsert":
                mop = f"(MInsert {int(op[1])}%nat {int(op[2])}%nat)"
            elif k == "mremove":
                mop = f"(MRemove {int(op[2])}%nat)"
            elif k == "mset":
                mop = f"(MSet {gnats(op[2])})"
            elif k == "mclear":
                mop = "(MSet []%nat)"
            elif k == "mreverse":
                mop = f"(MSet {gnats(prev_ml[::-1])})"
            elif k == "mrecenter":
                mop = f"(MShift {gq(op[3])} {gq(op[4])})"
            elif k == "nassign":
                # new Rectangle objects (the values asked for, no role), then the module's list replaced by them
                nb = rec["n_before"]
                for j, d in enumerate(op[1]):
                    part = glist([fr.grect(x) for x in rec["post"][:nb + j + 1]])
                    steps.append(f"(MObj (HNew {fr.grect(dict(d, loc='NOPOLY'))}), OState {part}, {gnats(prev_ml)}, false)")
                mop = f"(MSet {gnats(range(nb, nb + len(op[1])))})"
            else:
                mop = f"(MObj ({ghop(op)}))"
        steps.append(f"({mop}, {o}, {gnats(rec['ml'])}, {has})")
        prev_ml = rec["ml"]
    pool = glist([fr.grect(d) for d in obs["pool0"]])
    return f"mhist_check {eps} {aeps} {pool} {gnats(obs['ml0'])} {glist(steps)}"


def mhist_oracle(case, obs):
    """every recognition judged on its own, on the geometry read back from the module's rectangles just before it"""
    if case.get("via") == "netlist":
        # the recognition Netlist runs on load, judged on the rectangles asked for
        sub = {"eps": case["eps"], "aeps": case["aeps"], "rects": [dict(d, loc="NOPOLY") for d in case["rects"]]}
        why = oracle_one(sub, {"b": obs["has0"], "out": [obs["pool0"][i] for i in obs["ml0"]]})
        if why:
            return f"load (Netlist): {why}"
    for k, (op, rec) in enumerate(zip(case["ops"], obs["steps"])):
        if op[0] not in RECOG:
            continue
        idxs = rec["idxs"]
        what = {"mcall": "Module.create_stog()", "mplain": "create_stog(m.rectangles)", "ncall": "Netlist.create_stogs()",
                "call": "create_stog"}[op[0]]
        sub = {"eps": case["eps"], "aeps": case["aeps"], "rects": [rec["pre"][i] for i in idxs]}
        out = [rec["post"][i] for i in rec["order"]]
        why = oracle_one(sub, {"b": rec["b"], "out": out if rec["b"] is not None else []})
        if why:
            return f"step {k} ({what} on objects {idxs}): {why}"
        if op[0] == "mcall" and rec["b"] is not None and rec["has"] != rec["b"]:
            return f"step {k}: Module.create_stog() answered {rec['b']} but has_stog is {rec['has']} right after it"
        if sorted(rec["order"]) != sorted(idxs):
            return f"step {k}: the list no longer holds the same objects"
        for i, (a, c) in enumerate(zip(rec["pre"], rec["post"])):
            if geom_key(a) != geom_key(c):
                return f"step {k}: recognition altered rectangle {i}"
    return None


def mhist_shrink(case):
    ops = case["ops"]
    calls = [k for k, op in enumerate(ops) if op[0] in RECOG]
    for k in calls[:-1]:
        yield dict(case, ops=ops[:k + 1])
    for k in range(len(ops)):
        if ops[k][0] not in ("new", "nassign") and len(ops) > 1:
            c = dict(case, ops=ops[:k] + ops[k + 1:])
            if mops_valid(c):
                yield c


def oracle(case, obs):
    if case.get("kind") == "hist":
        return hist_oracle(case, obs)
    if case.get("kind") == "mhist":
        return mhist_oracle(case, obs)
    return oracle_one(case, obs)


def failure_key(case, why):
    if case.get("kind") == "hist":
        return "C06/history"
    if case.get("kind") == "mhist":
        return "C06/module-history"
    if len(case["rects"]) != len({geom_key(d) for d in case["rects"]}):
        return "C06/repeated-rectangle"
    return "C06/create_stog"


def shrink(case):
    if case.get("kind") == "hist":
        yield from hist_shrink(case)
        return
    if case.get("kind") == "mhist":
        yield from mhist_shrink(case)
        return
    rs = case["rects"]
    for i in range(len(rs)):
        if len(rs) > 1:
            c = dict(case, rects=rs[:i] + rs[i + 1:])
            if case.get("share"):
                # drop position i; positions that shared its object now share the first remaining one of them
                sh = case["share"]
                rest = [k for k in range(len(sh)) if k != i]
                first = {}
                c["share"] = [first.setdefault(sh[k], n) for n, k in enumerate(rest)]
            yield c


def run(ctx, out, replay=None):
    # second tie: find_location / area_overlap re-translated from the current source and proved equal to the model
    from harness.props import c18
    # translator skipped: the correspondence budget is tripled (thorough tier: x1.5, to stay within its 15 minutes)
    mult = (3 if ctx.quick() else 1.5) if c18.translation_tie(ctx, out, pid="C06") == "skipped" else 1
    n = int((4000 if ctx.quick() else 60000) * mult)
    out.rule = ("trunk with 1-5 branches on random sides (flush with corners, partial extent), near misses (gap, overhang, "
                "overlap, perturbation around eps), repeated rectangles, random layouts, degenerate thin rectangles, random "
                "order; non-trivial = at least two rectangles; distinct by canonical hash.  Extra stream: equal areas (twins, rows of "
                "equal rectangles, a branch with the trunk's area, a larger rectangle that is no trunk), long lists (9..100 branches, "
                "trunk first / last / shuffled, intact or with one branch pulled away), integer coordinates passed as Python ints, "
                "rectangles left of / straddling / ending exactly at the origin, lists reversed or sorted by area, lists holding one rectangle OBJECT at two or three positions.  Object histories: a pool built from such "
                "a case, then 2-10 operations from templates (recognise, then replace one element - often the trunk - by a fresh "
                "rectangle put in front; prepend / append a fresh one; move an element away in place and back; break first and "
                "repair in place; a second group and lists mixing the groups; resize; arbitrary roles through the setter) or drawn at "
                "random (calls on the whole pool, permutations, sub-lists; moves by attribute assignment, += and the centre setter; "
                "resizes; new rectangles; read-only probes; create_stog again on the very list object an earlier call was given), every "
                "object read back after every operation.  Module histories: the same pools and templates driven through one real "
                "Module (three in four built directly, soft or hard; one in four loaded by Netlist from a tree, which recognises on "
                "load): recognise with m.create_stog() + has_stog (sometimes geometry.create_stog(m.rectangles) or "
                "Netlist.create_stogs()), change the module's rectangles by another route - a member moved away / back or resized "
                "in place or through the setters, a far rectangle removed from the list (remove / pop / del), clear_rectangles and "
                "re-adding (add_rectangle, append, extend, slice assignment), the trunk replaced by a fresh rectangle inserted in "
                "front, roles overwritten, plain create_stog on another list sharing the objects, the list reversed, "
                "recenter_rectangles (exact centroids only), Netlist.assign_rectangles (same / one moved / one dropped / a far one "
                "added / reordered) - and recognise again; or 3-9 such operations at random; every object and the module's list "
                "read back after every operation")
    cases = []
    if replay and "case" in replay:
        cases.append(fr.unjson(replay["case"]))
    cases += fr.load_corpus("C06")
    while len(cases) < n:
        cases.append(gen_case(ctx.rng))
    xrng = __import__("random").Random(f"C06-extra-{ctx.seed}")
    for _ in range(int((300 if ctx.quick() else 2000) * mult)):
        cases.append(gen_extra(xrng))
    for _ in range(int((200 if ctx.quick() else 1500) * mult)):
        cases.append(gen_sameobj(xrng))
    nh = int((1500 if ctx.quick() else 8000) * mult)
    hrng = __import__("random").Random(f"C06-hist-{ctx.seed}")
    for _ in range(nh):
        cases.append(gen_hist(hrng))
    out.extra["history_cases"] = nh
    nm = int((700 if ctx.quick() else 5000) * mult)
    mrng = __import__("random").Random(f"C06-mhist-{ctx.seed}")
    for _ in range(nm):
        cases.append(gen_mhist(mrng))
    out.extra["module_history_cases"] = nm
    fr.run_cases(ctx, out, cases, run_impl, to_coq, oracle, failure_key, HEADER,
                 dist_key=lambda c: c["kind"] + ("/" + c["template"] if "template" in c else ""),
                 nontrivial=lambda c: len(c["rects"]) >= 2, shard=250, shrink=shrink)
