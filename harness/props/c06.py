"""C06 - single-trunk orthogon recognition (find_location, create_stog)."""
from fractions import Fraction as F

from harness import core, fr
from harness.core import gq, gbool, glist, gopt

HEADER = """From FrameModel Require Import Num.QcTac Geometry.Rect Cases.Cmp Stog.CreateStog Stog.StogPost.
Open Scope Qc_scope."""

ASSUMPTIONS = [
    "distance/area tolerances are passed explicitly (Rectangle.set_epsilon) and read by the model as parameters",
    "completeness is proved for rectangles at least 2*eps wide and high (FRAME's own eps is 1e-12 of the smallest dimension); "
    "degenerate cases are still compared model-vs-implementation but not judged by the oracle",
    "which of several valid trunks is selected is not compared (verified post-condition checker stog_post_ok instead)",
]

SIDES = ["NORTH", "SOUTH", "EAST", "WEST"]


def box(r):
    cx, cy, w, h = (core.frac(r[k]) for k in ("cx", "cy", "w", "h"))
    return cx - w / 2, cy - h / 2, cx + w / 2, cy + h / 2


def from_box(b, region="_", hard=False):
    return {"cx": (b[0] + b[2]) / 2, "cy": (b[1] + b[3]) / 2, "w": b[2] - b[0], "h": b[3] - b[1],
            "fixed": False, "hard": hard, "region": region, "loc": "NOPOLY"}


def gen_case(rng):
    kind = rng.choice(["stog", "stog", "stog", "near", "near", "dup", "random", "degenerate", "single", "empty", "pair"])
    eps = rng.choice([F(1, 1024), F(1, 1024), F(1, 64), F(0), F(1, 4096)])
    aeps = rng.choice([F(1, 1024), F(1, 32), F(1, 16), F(0)])
    den = rng.choice([1, 2, 4])
    x0 = F(rng.randrange(4, 20), den)
    y0 = F(rng.randrange(4, 20), den)
    W = F(rng.randrange(2, 12), den)
    H = F(rng.randrange(2, 12), den)
    t = (x0, y0, x0 + W, y0 + H)
    rects = [from_box(t)]
    if kind == "empty":
        return {"kind": kind, "eps": eps, "aeps": aeps, "rects": []}
    if kind == "single":
        return {"kind": kind, "eps": eps, "aeps": aeps, "rects": rects}
    if kind == "random":
        n = rng.randrange(2, 6)
        rects = []
        for _ in range(n):
            a = F(rng.randrange(0, 12), 2)
            b = F(rng.randrange(0, 12), 2)
            rects.append(from_box((a, b, a + F(rng.randrange(1, 8), 2), b + F(rng.randrange(1, 8), 2))))
        return {"kind": kind, "eps": eps, "aeps": aeps, "rects": rects}
    nb = rng.randrange(1, 6)
    tiny = rng.choice([F(1, 4096), F(1, 2048), F(1, 256), F(1, 128)])

    def branch(side, mode):
        # a branch of the trunk on `side`; mode selects exact / perturbed / broken placement
        d = F(rng.randrange(1, 8), den)           # how far it sticks out
        if side in ("NORTH", "SOUTH"):
            lo, hi = t[0], t[2]
        else:
            lo, hi = t[1], t[3]
        L = hi - lo
        a = lo + L * F(rng.randrange(0, 4), 4)
        b = a + L * F(rng.randrange(1, 5), 4)
        b = min(b, hi)
        if rng.random() < 0.3:
            a, b = lo, hi                          # flush with both corners
        off = F(0)
        if mode == "perturb":
            off = rng.choice([-1, 1]) * tiny       # within or outside eps depending on eps
        if mode == "gap":
            off = F(rng.randrange(1, 4), 8)
        if mode == "overlap":
            off = -F(rng.randrange(1, 4), 8)
        if mode == "overhang":
            if rng.random() < 0.5:
                a = lo - F(rng.randrange(1, 4), 8)
            else:
                b = hi + F(rng.randrange(1, 4), 8)
        if mode == "overhang_tiny":
            if rng.random() < 0.5:
                a = lo - tiny
            else:
                b = hi + tiny
        if side == "NORTH":
            return (a, t[3] + off, b, t[3] + off + d)
        if side == "SOUTH":
            return (a, t[1] - off - d, b, t[1] - off)
        if side == "EAST":
            return (t[2] + off, a, t[2] + off + d, b)
        return (t[0] - off - d, a, t[0] - off, b)

    for _ in range(nb):
        side = rng.choice(SIDES)
        mode = "exact"
        if kind == "near" and rng.random() < 0.5:
            mode = rng.choice(["perturb", "gap", "overlap", "overhang", "overhang_tiny", "perturb"])
        rects.append(from_box(branch(side, mode)))
    if kind == "dup":
        rects.append(dict(rng.choice(rects)))
    if kind == "degenerate":
        s = rng.choice(SIDES)
        b = branch(s, "exact")
        # make it thinner than 2*eps in one direction
        th = eps if eps > 0 else F(1, 4096)
        if s in ("NORTH", "SOUTH"):
            b = (b[0], b[1], b[0] + th, b[3])
        else:
            b = (b[0], b[1], b[2], b[1] + th)
        rects.append(from_box(b))
    if kind == "pair":
        rects = rects[:2]
    rng.shuffle(rects)
    return {"kind": kind, "eps": eps, "aeps": aeps, "rects": rects}


def run_impl(case):
    from frame.geometry.geometry import Rectangle, create_stog
    Rectangle.undefine_epsilon()
    Rectangle.set_epsilon(float(case["eps"]), float(case["aeps"]))
    try:
        rects = [fr.mk_rect(d) for d in case["rects"]]
        for r in rects:
            r.location = Rectangle.StogLocation.NO_POLYGON
        pre = [r.find_location(s).name for r in rects[:3] for s in rects[:3]]
        try:
            b = create_stog(rects)
        except AssertionError:
            return {"b": None, "out": [], "fl": pre}
        return {"b": bool(b), "out": [fr.rect_obs(r) for r in rects], "fl": pre}
    finally:
        Rectangle.undefine_epsilon()


def to_coq(case, obs):
    eps, aeps = gq(case["eps"]), gq(case["aeps"])
    RS = glist([fr.grect(dict(d, loc="NOPOLY")) for d in case["rects"]])
    if obs["b"] is None:
        return f"match create_stog {eps} {aeps} {RS} with None => true | Some _ => false end"
    OUT = glist([fr.grect(d) for d in obs["out"]])
    # pairwise find_location on the first three rectangles, exactly
    fl = []
    k = 0
    first = case["rects"][:3]
    for r in first:
        for s in first:
            fl.append(f"loc_eqb (find_location {eps} {aeps} {fr.grect(r)} {fr.grect(s)}) {fr.LOCS[obs['fl'][k]]}")
            k += 1
    flx = " && ".join(fl) if fl else "true"
    return (f"opt_eqb Bool.eqb (stog_decision {eps} {aeps} {RS}) (Some {gbool(obs['b'])}) && "
            f"stog_post_ok {eps} {aeps} {RS} {OUT} {gbool(obs['b'])} && {flx}")


# ---------------- direct oracle ----------------
def ov(a, b):
    w = min(a[2], b[2]) - max(a[0], b[0])
    h = min(a[3], b[3]) - max(a[1], b[1])
    return w * h if w > 0 and h > 0 else F(0)


def abuts(side, t, r, eps, aeps):
    if ov(t, r) > aeps:
        return False
    if side == "NORTH":
        return abs(t[3] - r[1]) < eps and r[0] > t[0] - eps and r[2] < t[2] + eps
    if side == "SOUTH":
        return abs(t[1] - r[3]) < eps and r[0] > t[0] - eps and r[2] < t[2] + eps
    if side == "EAST":
        return abs(t[2] - r[0]) < eps and r[1] > t[1] - eps and r[3] < t[3] + eps
    if side == "WEST":
        return abs(t[0] - r[2]) < eps and r[1] > t[1] - eps and r[3] < t[3] + eps
    return False


def geom_key(d):
    return tuple(core.frac(d[k]) for k in ("cx", "cy", "w", "h")) + (d["region"], d["fixed"], d["hard"])


def oracle(case, obs):
    rects = case["rects"]
    eps, aeps = case["eps"], case["aeps"]
    if not rects:
        return None if obs["b"] is None else "empty list accepted"
    if obs["b"] is None:
        return "non-empty list rejected"
    if sorted(map(geom_key, rects), key=repr) != sorted(map(geom_key, obs["out"]), key=repr):
        return "recognition altered, dropped or duplicated a rectangle"
    degenerate = any(core.frac(d["w"]) < 2 * eps or core.frac(d["h"]) < 2 * eps for d in rects)
    boxes = [box(d) for d in rects]
    exists = any(all(j == i or any(abuts(s, boxes[i], boxes[j], eps, aeps) for s in SIDES)
                     for j in range(len(rects))) for i in range(len(rects)))
    out = obs["out"]
    if obs["b"]:
        if out[0]["loc"] != "TRUNK":
            return "reported as orthogon but the first rectangle is not labelled as trunk"
        t = box(out[0])
        for r in out[1:]:
            if r["loc"] not in SIDES:
                return "reported as orthogon but a non-trunk rectangle carries no side"
            if not abuts(r["loc"], t, box(r), eps, aeps):
                return f"rectangle labelled {r['loc']} does not abut that side of the trunk within its extent"
        if not exists and not degenerate:
            return "reported as orthogon although no rectangle can serve as trunk"
    else:
        if any(r["loc"] != "NOPOLY" for r in out):
            return "not reported as orthogon but some rectangle carries a role"
        if exists and not degenerate:
            return "a valid trunk exists but the rectangles are not reported as an orthogon"
    return None


def failure_key(case, why):
    if len(case["rects"]) != len({geom_key(d) for d in case["rects"]}):
        return "C06/repeated-rectangle"
    return "C06/create_stog"


def shrink(case):
    rs = case["rects"]
    for i in range(len(rs)):
        if len(rs) > 1:
            yield dict(case, rects=rs[:i] + rs[i + 1:])


def run(ctx, out, replay=None):
    # second tie: find_location / area_overlap re-translated from the current source and proved equal to the model
    from harness.props import c18
    c18.translation_tie(ctx, out, pid="C06")
    n = 4000 if ctx.quick() else 80000
    out.rule = ("trunk with 1-5 branches on random sides (flush with corners, partial extent), near misses (gap, overhang, "
                "overlap, perturbation around eps), repeated rectangles, random layouts, degenerate thin rectangles, random "
                "order; non-trivial = at least two rectangles; distinct by canonical hash")
    cases = []
    if replay and "case" in replay:
        cases.append(fr.unjson(replay["case"]))
    cases += fr.load_corpus("C06")
    while len(cases) < n:
        cases.append(gen_case(ctx.rng))
    fr.run_cases(ctx, out, cases, run_impl, to_coq, oracle, failure_key, HEADER,
                 dist_key=lambda c: c["kind"], nontrivial=lambda c: len(c["rects"]) >= 2, shard=250, shrink=shrink)
