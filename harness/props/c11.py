"""C11 - Die refinement keeps the tiling, reaches the count and bounds the aspect ratio.

Correspondence: real `Die` objects (generated descriptions: blockages, specialised
regions, fixed rectangles through a Netlist; dyadic coordinates) are refined with
`split_refinable_regions(r, n)` / `initial_grid(rows, cols)`; `split_rectangles` is
also called directly on generated rectangle lists.  The state before the call is the
model's input, the state after it is checked in Coq (vm_compute): exact list equality
(order included) when phase 2 does not run, the verified checker `phase2_ok`
otherwise (which rectangle of maximum area the heap pops is not part of the
property), plus `phase2_tight` (the loop stopped as early as it could).
Direct oracle: Fractions only, independent of the model."""
from fractions import Fraction as F

from harness import core, fr
from harness.core import gq, gz, gbool, glist

HEADER = """From FrameModel Require Import Num.QcTac Geometry.Rect Cases.Cmp Refine.Phase1 Refine.Phase2 Refine.DieRefine Cases.CmpC11.
Open Scope Qc_scope."""

ASSUMPTIONS = [
    "the Die state before the call (bounding box, specialised, ground, blockage and fixed lists as built by the real Die constructor) "
    "is the model's input: how a die is decomposed is C01's subject",
    "which rectangle of maximum area heapq pops and the order of the returned list are not compared (verified checker phase2_ok); "
    "when phase 2 does not run the lists are compared exactly, order included",
    "binary64: coordinates are dyadic so every halving is exact; the aspect-ratio quotient h/w (inverted with 1.0/ar below 1) is rounded "
    "by the code and exact in the model: a case in which, for some rectangle obtainable by halving, the rounded test `aspect_ratio > r` "
    "decides differently from the exact quotient (e.g. a 10 x 17 region with the limit 1.7, whose binary64 value is below 17/10; a "
    "71 x 50 region with 1.42, where even the orientation matters) is run but neither compared nor judged (counted in the evidence)",
    "initial_grid divides by the row/column count: compared exactly when the step is dyadic, within 16 roundings at the die's magnitude otherwise",
    "the model is written for the code as repaired by fixes/C11-phase2-aspect.diff",
]

R_VALUES = [1.42, 1.5, 1.7, 2.0, 3.0, 10.0]
R_EDGE = [1.415, 1.4150000000000003, 1.0, 1.4143, 64.0]
GROUND = "_"
TAGS = ["dsp", "bram", "lut"]


# ---------------------------------------------------------------- generators
def rect_dict(x0, y0, x1, y1, region=GROUND, fixed=False, hard=False, loc="NOPOLY"):
    return {"cx": (x0 + x1) / 2, "cy": (y0 + y1) / 2, "w": x1 - x0, "h": y1 - y0,
            "fixed": fixed, "hard": hard, "region": region, "loc": loc}


def box(d):
    cx, cy, w, h = (core.frac(d[k]) for k in ("cx", "cy", "w", "h"))
    return cx - w / 2, cy - h / 2, cx + w / 2, cy + h / 2


def ov(a, b):
    w = min(a[2], b[2]) - max(a[0], b[0])
    h = min(a[3], b[3]) - max(a[1], b[1])
    return w * h if w > 0 and h > 0 else F(0)


def gen_layout(rng, maxk=4):
    """A die W x H with up to maxk disjoint lattice-aligned rectangles in it."""
    den = rng.choice([1, 1, 2, 4])
    style = rng.choice(["small", "small", "wide", "tall", "big"])
    small = [1, 2, 3, 4, 5, 6, 7, 8]
    large = [8, 10, 12, 16, 24, 30, 32, 64]
    if style == "small":
        wn, hn = rng.choice(small), rng.choice(small)
    elif style == "wide":
        wn, hn = rng.choice(large), rng.choice([1, 1, 2, 3])
    elif style == "tall":
        wn, hn = rng.choice([1, 1, 2, 3]), rng.choice(large)
    else:
        wn, hn = rng.choice(large), rng.choice(large)
    W, H = F(wn, den), F(hn, den)
    k = rng.choice([0, 0, 1, 1, 2, 3, maxk])
    placed = []
    for _ in range(k * 3):
        if len(placed) >= k or wn < 1 or hn < 1:
            break
        a, b = sorted((rng.randrange(0, wn + 1), rng.randrange(0, wn + 1)))
        c, d = sorted((rng.randrange(0, hn + 1), rng.randrange(0, hn + 1)))
        if a == b or c == d:
            continue
        bx = (F(a, den), F(c, den), F(b, den), F(d, den))
        if any(ov(bx, p[0]) > 0 for p in placed):
            continue
        placed.append((bx, rng.choice(["#", "#", "fixed", "tag", "tag", "tag"])))
    regions, fixed = [], []
    for bx, kind in placed:
        if kind == "fixed":
            fixed.append(rect_dict(*bx))
        else:
            regions.append(rect_dict(*bx, region="#" if kind == "#" else rng.choice(TAGS)))
    return W, H, regions, fixed


def gen_r(rng):
    return rng.choice(R_VALUES) if rng.random() < 0.93 else rng.choice(R_EDGE)


def gen_n(rng):
    x = rng.random()
    if x < 0.03:
        return rng.choice([0, -1, -7])
    if x < 0.35:
        return rng.randrange(1, 9)
    return rng.randrange(1, 65)


def gen_case(rng):
    x = rng.random()
    if x < 0.62:
        W, H, regions, fixed = gen_layout(rng)
        return {"kind": "split", "W": W, "H": H, "regions": regions, "fixed": fixed, "r": gen_r(rng), "n": gen_n(rng)}
    if x < 0.80:
        if rng.random() < 0.85:
            den = rng.choice([1, 1, 2, 4])
            W, H = F(rng.randrange(1, 33), den), F(rng.randrange(1, 33), den)
            regions, fixed = [], []
        else:
            W, H, regions, fixed = gen_layout(rng, maxk=2)
        nrows = rng.choice([0, -1, 9, 12]) if rng.random() < 0.06 else rng.randrange(1, 9)
        ncols = rng.choice([0, -2, 10]) if rng.random() < 0.06 else rng.randrange(1, 9)
        return {"kind": "grid", "W": W, "H": H, "regions": regions, "fixed": fixed, "nrows": nrows, "ncols": ncols}
    # direct call of split_rectangles on a list of rectangles with arbitrary attributes
    W, H, regions, fixed = gen_layout(rng, maxk=5)
    rects = []
    for d in regions + fixed:
        rects.append(dict(d, region=rng.choice([GROUND, GROUND] + TAGS), fixed=rng.random() < 0.2,
                          hard=rng.random() < 0.2, loc=rng.choice(["NOPOLY", "NOPOLY", "TRUNK", "EAST"])))
    if rng.random() < 0.5 or not rects:
        rects.append(rect_dict(-W, F(0), F(0), H, region=rng.choice([GROUND] + TAGS)))
    if rng.random() < 0.08:
        rects = []
    rng.shuffle(rects)
    return {"kind": "raw", "rects": rects, "r": gen_r(rng), "n": gen_n(rng)}


# ---------------------------------------------------------------- implementation
def fnum(x):
    return repr(float(x))


def die_text(case):
    lines = [f"width: {fnum(case['W'])}", f"height: {fnum(case['H'])}"]
    if case["regions"]:
        rs = ", ".join(f"[{fnum(d['cx'])}, {fnum(d['cy'])}, {fnum(d['w'])}, {fnum(d['h'])}, '{d['region']}']"
                       for d in case["regions"])
        lines.append(f"regions: [{rs}]")
    return "\n".join(lines) + "\n"


def netlist_text(case):
    mods = ", ".join(f"F{i}: {{fixed: true, rectangles: [[{fnum(d['cx'])}, {fnum(d['cy'])}, {fnum(d['w'])}, {fnum(d['h'])}]]}}"
                     for i, d in enumerate(case["fixed"]))
    return f"Modules: {{{mods}, M: {{area: 1}}}}\nNets: []\n"


def snapshot(die):
    return {"bbox": fr.rect_obs(die.bounding_box),
            "spec": [fr.rect_obs(r) for r in die.specialized_regions],
            "ground": [fr.rect_obs(r) for r in die.ground_regions],
            "blockages": [fr.rect_obs(r) for r in die.blockages],
            "fixed": [fr.rect_obs(r) for r in die.fixed_regions]}


class Hang(Exception):
    pass


def _alarm(signum, frame):
    raise Hang()


HANG_BUDGET = [4]     # calls that may be waited for; afterwards the remaining cases are skipped


def run_impl(case):
    """A call that does not return within 10 s is reported as such (refinement must terminate)."""
    import signal
    if HANG_BUDGET[0] <= 0:
        return {"status": "die-rejected", "why": "skipped: several earlier calls did not return"}
    old = signal.signal(signal.SIGALRM, _alarm)
    signal.alarm(10)
    try:
        return run_impl_(case)
    except Hang:
        HANG_BUDGET[0] -= 1
        return {"status": "hang"}
    finally:
        signal.alarm(0)
        signal.signal(signal.SIGALRM, old)


SKIPPED = {"float-boundary": 0}


def float_boundary(rects, r):
    """True iff, for some rectangle obtainable from `rects` by halving the longer side, the code's
    rounded test `aspect_ratio > r` (h/w, inverted with 1.0/ar when below 1) decides differently
    from the exact quotient.  Such cases (e.g. a 10 x 17 region with the limit 1.7, whose binary64
    value is below 17/10) are outside what an exact-arithmetic model can speak about."""
    rf, rq = float(r), core.frac(r)
    for d in rects:
        w, h = core.frac(d["w"]), core.frac(d["h"])
        if w <= 0 or h <= 0:
            continue
        for _ in range(34):
            ar = float(h) / float(w)
            if ar < 1:
                ar = 1.0 / ar
            if (ar > rf) != (max(w / h, h / w) > rq):
                return True
            if h > w:
                h /= 2
            else:
                w /= 2
    return False


def run_impl_(case):
    from frame.geometry.geometry import Rectangle, split_rectangles
    Rectangle.undefine_epsilon()
    try:
        if case["kind"] == "raw":
            if float_boundary(case["rects"], case["r"]):
                SKIPPED["float-boundary"] += 1
                return {"status": "boundary"}
            rects = [fr.mk_rect(d) for d in case["rects"]]
            try:
                out = split_rectangles(rects, float(case["r"]), case["n"])
            except AssertionError:
                return {"status": "assert"}
            except IndexError:
                return {"status": "index"}
            return {"status": "ok", "out": [fr.rect_obs(r) for r in out]}
        from frame.die.die import Die
        from frame.netlist.netlist import Netlist
        try:
            net = Netlist(netlist_text(case)) if case["fixed"] else None
            die = Die(die_text(case), net)
        except AssertionError as e:
            return {"status": "die-rejected", "why": str(e)[:200]}
        before = snapshot(die)
        if case["kind"] == "split" and float_boundary(before["spec"] + before["ground"], case["r"]):
            SKIPPED["float-boundary"] += 1
            return {"status": "boundary"}
        try:
            if case["kind"] == "split":
                die.split_refinable_regions(float(case["r"]), case["n"])
            else:
                die.initial_grid(case["nrows"], case["ncols"])
            status = "ok"
        except AssertionError:
            status = "assert"
        except IndexError:
            status = "index"
        fp = die.floorplanning_rectangles()
        return {"status": status, "before": before, "after": snapshot(die),
                "fp": [[fr.rect_obs(r) for r in fp[0]], [fr.rect_obs(r) for r in fp[1]]]}
    finally:
        Rectangle.undefine_epsilon()


# ---------------------------------------------------------------- model side
def grects(l):
    return glist([fr.grect(d) for d in l])


def gdie(s):
    return (f"(mkDie {fr.grect(s['bbox'])} {grects(s['spec'])} {grects(s['ground'])} "
            f"{grects(s['blockages'])} {grects(s['fixed'])})")


def dyadic(q):
    d = core.frac(q).denominator
    return d & (d - 1) == 0


def to_coq(case, obs):
    st = obs["status"]
    if st in ("die-rejected", "boundary"):
        return "true"
    if st == "hang":
        return "false"
    if case["kind"] == "raw":
        RS, r, n = grects(case["rects"]), gq(case["r"]), gz(case["n"])
        if st != "ok":
            return f"is_reject (split_rectangles_greedy {RS} {r} {n})"
        OUT = grects(obs["out"])
        return f"split_rectangles_ok {RS} {r} {n} {OUT} && split_tight {RS} {r} {n} {OUT}"
    D, D2 = gdie(obs["before"]), gdie(obs["after"])
    fp = f"fp_eqb {D2} {grects(obs['fp'][0])} {grects(obs['fp'][1])}"
    if case["kind"] == "split":
        r, n = gq(case["r"]), gz(case["n"])
        if st != "ok":
            return f"is_reject (die_split_greedy {D} {r} {n}) && die_eqb {D} {D2} && {fp}"
        return f"die_split_ok {D} {r} {n} {D2} && die_split_tight {D} {r} {n} {D2} && {fp}"
    nr, nc = gz(case["nrows"]), gz(case["ncols"])
    if st != "ok":
        return f"is_reject (initial_grid {D} {nr} {nc}) && die_eqb {D} {D2} && {fp}"
    exact = dyadic(case["W"] / case["ncols"]) and dyadic(case["H"] / case["nrows"])
    scale = gq(max(case["W"], case["H"]))
    return f"grid_agrees {gbool(exact)} {scale} {D} {nr} {nc} {D2} && {fp}"


# ---------------------------------------------------------------- direct oracle
def aspect(d):
    w, h = core.frac(d["w"]), core.frac(d["h"])
    return max(w / h, h / w)


def inside(a, b, tol=0):
    return a[0] >= b[0] - tol and a[1] >= b[1] - tol and a[2] <= b[2] + tol and a[3] <= b[3] + tol


def geom(d):
    return tuple(core.frac(d[k]) for k in ("cx", "cy", "w", "h")) + (d["region"], d["fixed"], d["hard"], d["loc"])


def check_refinement(before, after, r, n):
    """`after` refines the non-overlapping list `before`: count, containment + tag, tiling, aspect."""
    if len(after) < n:
        return f"only {len(after)} refinable regions, {n} requested"
    bb = [box(d) for d in before]
    got = [F(0)] * len(before)
    for a in after:
        if core.frac(a["w"]) <= 0 or core.frac(a["h"]) <= 0:
            return "a region of non-positive size"
        ab = box(a)
        owners = [i for i, b in enumerate(bb) if inside(ab, b)]
        if not owners:
            return "a refined region does not lie inside any former refinable region"
        owners = [i for i in owners if before[i]["region"] == a["region"] and before[i]["fixed"] == a["fixed"]
                  and before[i]["hard"] == a["hard"]]
        if len(owners) != 1:
            return "a refined region does not carry the tag/attributes of the region it was cut from"
        got[owners[0]] += core.frac(a["w"]) * core.frac(a["h"])
    ab = [box(a) for a in after]
    for i in range(len(ab)):
        for j in range(i + 1, len(ab)):
            if ov(ab[i], ab[j]) > 0:
                return "two refined regions overlap"
    for i, b in enumerate(before):
        if got[i] != core.frac(b["w"]) * core.frac(b["h"]):
            return "the refined regions do not cover a former refinable region exactly"
    for a in after:
        if aspect(a) > core.frac(r):
            return f"aspect ratio {float(aspect(a))} exceeds the limit {float(r)}"
    return None


def non_overlapping(rects):
    bs = [box(d) for d in rects]
    return all(ov(bs[i], bs[j]) == 0 for i in range(len(bs)) for j in range(i + 1, len(bs)))


def admissible(r, n):
    """the property's domain: limits accepted by the code (> 1.415 as a float) and n >= 1"""
    return n >= 1 and float(r) > 1.415


def oracle(case, obs):
    st = obs["status"]
    if st in ("die-rejected", "boundary"):
        return None
    if st == "hang":
        return "the call did not return within 10 s"
    if case["kind"] == "raw":
        rects = case["rects"]
        ok_in = all(core.frac(d["w"]) > 0 and core.frac(d["h"]) > 0 for d in rects)
        if st != "ok":
            if admissible(case["r"], case["n"]) and rects and ok_in:
                return f"admissible request refused ({st})"
            return None
        if not admissible(case["r"], case["n"]):
            return "inadmissible request (n < 1 or limit <= 1.415) accepted"
        if not non_overlapping(rects):
            return None
        return check_refinement(rects, obs["out"], case["r"], case["n"])
    b, a = obs["before"], obs["after"]
    for k, what in (("blockages", "blockages"), ("fixed", "fixed regions")):
        if list(map(geom, b[k])) != list(map(geom, a[k])):
            return f"{what} changed"
    if geom(b["bbox"]) != geom(a["bbox"]):
        return "the die changed"
    if [list(map(geom, obs["fp"][0])), list(map(geom, obs["fp"][1]))] != \
            [list(map(geom, a["spec"] + a["ground"])), list(map(geom, a["fixed"]))]:
        return "floorplanning_rectangles() is not (specialised + ground regions, fixed regions)"
    before, after = b["spec"] + b["ground"], a["spec"] + a["ground"]
    if any(d["region"] == GROUND for d in a["spec"]) or any(d["region"] != GROUND for d in a["ground"]):
        return "a region is reported in the wrong list (specialised vs ground): its tag is lost"
    if case["kind"] == "split":
        if st != "ok":
            if list(map(geom, before)) != list(map(geom, after)):
                return "a refused request changed the die"
            if admissible(case["r"], case["n"]) and before:
                return f"admissible request refused ({st})"
            return None
        if not admissible(case["r"], case["n"]):
            return "inadmissible request (n < 1 or limit <= 1.415) accepted"
        return check_refinement(before, after, case["r"], case["n"])
    # grid
    nr, nc = case["nrows"], case["ncols"]
    empty = not (b["spec"] or b["blockages"] or b["fixed"]) and len(b["ground"]) == 1
    wanted = nr > 0 and nc > 0 and nr + nc > 1 and empty
    if st != "ok":
        if list(map(geom, before)) != list(map(geom, after)):
            return "a refused request changed the die"
        return "grid request on an empty die refused" if wanted else None
    if not wanted:
        return "grid created on a die that is not empty, or with a non-positive / 1x1 shape"
    if len(after) != nr * nc:
        return f"{len(after)} regions in a {nr}x{nc} grid"
    die = box(b["bbox"])
    exact = dyadic(case["W"] / nc) and dyadic(case["H"] / nr)
    tol = F(0) if exact else max(case["W"], case["H"]) / 10 ** 9
    cells = [box(d) for d in after]
    for d, c in zip(after, cells):
        if d["region"] != GROUND or not inside(c, die, tol) or c[2] <= c[0] or c[3] <= c[1]:
            return "a grid cell is not a ground region inside the die"
    for i in range(len(cells)):
        for j in range(i + 1, len(cells)):
            if ov(cells[i], cells[j]) > tol * max(case["W"], case["H"]):
                return "two grid cells overlap"
    tot = sum((c[2] - c[0]) * (c[3] - c[1]) for c in cells)
    if abs(tot - case["W"] * case["H"]) > tol * max(case["W"], case["H"]) * 4:
        return "the grid cells do not cover the die"
    return None


def failure_key(case, why):
    if case["kind"] == "grid":
        return "C11/initial_grid"
    if why and "aspect ratio" in why and float(case["r"]) < 2:
        return "C11/phase2-aspect"
    return "C11/split_rectangles" if case["kind"] == "raw" else "C11/split_refinable_regions"


def shrink(case):
    if case["kind"] in ("split", "raw"):
        n = case["n"]
        for m in sorted({1, 2, n // 2, n - 1}):
            if 1 <= m < n:
                yield dict(case, n=m)
    if case["kind"] in ("split", "grid"):
        for key in ("regions", "fixed"):
            for i in range(len(case[key])):
                yield dict(case, **{key: case[key][:i] + case[key][i + 1:]})
        for key in ("W", "H"):
            if case[key] != 1 and not case["regions"] and not case["fixed"]:
                yield dict(case, **{key: F(1)})
                if case[key] > 2 and case[key].denominator == 1:
                    yield dict(case, **{key: case[key] // 2})
        if case["kind"] == "grid":
            for key in ("nrows", "ncols"):
                if case[key] > 1:
                    yield dict(case, **{key: case[key] - 1})
    else:
        rs = case["rects"]
        for i in range(len(rs)):
            yield dict(case, rects=rs[:i] + rs[i + 1:])
    if case["kind"] != "grid" and case["r"] not in (1.5, 2.0):
        yield dict(case, r=1.5)
        yield dict(case, r=2.0)


def dist_key(case):
    if case["kind"] == "grid":
        return "grid"
    return f"{case['kind']}/r={case['r']}"


def nontrivial(case):
    if case["kind"] == "grid":
        return case["nrows"] * case["ncols"] > 1
    return case["n"] > 1


def run(ctx, out, replay=None):
    n = 800 if ctx.quick() else 8000
    out.rule = ("real Die objects from generated descriptions (0-4 disjoint lattice-aligned blockages / specialised regions / "
                "fixed rectangles on small, elongated and large dyadic dies), limits 1.42 1.5 1.7 2 3 10 (+ edge values around the "
                "assert), n in 1..64 (+ non-positive), grids 1..8 x 1..8 (+ refused shapes, non-empty dies), direct calls of "
                "split_rectangles with arbitrary attributes; non-trivial = n > 1 or more than one grid cell; distinct by canonical hash")
    cases = []
    if replay and "case" in replay:
        cases.append(fr.unjson(replay["case"]))
    cases += fr.load_corpus("C11")
    while len(cases) < n:
        cases.append(gen_case(ctx.rng))
    fr.run_cases(ctx, out, cases, run_impl, to_coq, oracle, failure_key, HEADER,
                 dist_key=dist_key, nontrivial=nontrivial, shard=70, shrink=shrink)
    out.extra["skipped_float_boundary_cases"] = SKIPPED["float-boundary"]
    greedy_evidence(ctx, out, cases[:160 if ctx.quick() else 1500])


def greedy_evidence(ctx, out, cases):
    """Evidence only (not part of the verdict): on how many cases phase 2 ran, and how often the
    implementation's list is, up to order, the one the model's own algorithm computes."""
    exprs = []
    for case in cases:
        if case["kind"] == "grid":
            continue
        obs = run_impl(case)
        if obs["status"] != "ok":
            continue
        if case["kind"] == "raw":
            RS, OUT = grects(case["rects"]), grects(obs["out"])
        else:
            RS = grects(obs["before"]["spec"] + obs["before"]["ground"])
            OUT = grects(obs["after"]["spec"] + obs["after"]["ground"])
        r, n = gq(case["r"]), gz(case["n"])
        exprs += [f"phase2_ran {RS} {r} {n}", f"equals_greedy {RS} {r} {n} {OUT}"]
    res = core.coq_eval_bools(ctx, HEADER, exprs, shard=80, tag="greedy")
    ran = [i for i in range(0, len(res), 2) if res[i] is True]
    out.extra["phase2_sample"] = {"cases": len(res) // 2, "phase2_ran": len(ran),
                                  "equal_to_model_greedy_when_ran": sum(1 for i in ran if res[i + 1] is True),
                                  "equal_to_model_when_not_ran": sum(1 for i in range(0, len(res), 2)
                                                                     if res[i] is False and res[i + 1] is True)}
