"""C11 - Die refinement keeps the tiling, reaches the count and bounds the aspect ratio.

Correspondence: real `Die` objects (generated descriptions: blockages, specialised
regions, fixed rectangles through a Netlist; dyadic coordinates) are refined with
`split_refinable_regions(r, n)` / `initial_grid(rows, cols)`; `split_rectangles` is
also called directly on generated rectangle lists.  The state before the call is the
model's input, the state after it is checked in Coq (vm_compute): the same rectangles as
the model's phase-1 list, in any order, when phase 2 does not run (the property promises
no order of the lists), the verified checker `phase2_ok`
otherwise (which rectangle of maximum area the heap pops is not part of the
property).  Whether the loop stopped as early as it could (`phase2_tight`) is recorded in the
evidence only: the property asks for AT LEAST n regions.
Histories: sequences of operations on ONE Die object (splits with varying (r, n), initial_grid
before / between / after splits, refused requests, floorplanning_rectangles() and the getters in
between); after every step the object's lists are compared with the per-call model applied to the
lists observed before the step (Refine/DieOps.v: trace_ok, C11_history_sound), so anything the
object remembers between calls besides its lists shows as a disagreement.
Direct oracle: Fractions only, independent of the model."""
from fractions import Fraction as F
from math import gcd

from harness import core, fr
from harness.core import gq, gz, gbool, glist

HEADER = """From FrameModel Require Import Num.QcTac Geometry.Rect Cases.Cmp Refine.Phase1 Refine.Phase2 Refine.DieRefine Refine.DieOps Cases.CmpC11.
Open Scope Qc_scope."""

ASSUMPTIONS = [
    "the Die state before the call (bounding box, specialised, ground, blockage and fixed lists as built by the real Die constructor) "
    "is the model's input: how a die is decomposed is C01's subject",
    "which rectangle of maximum area heapq pops and the order of the returned list are not compared (verified checker phase2_ok); "
    "when phase 2 does not run the lists are compared as multisets (perm_rects): the order of the lists is not part of the property; "
    "grid cells and the lists returned by floorplanning_rectangles() likewise",
    "binary64: coordinates are dyadic so every halving is exact; the aspect-ratio quotient h/w (inverted with 1.0/ar below 1) is rounded "
    "by the code and exact in the model: a case in which, for some rectangle obtainable by halving, the rounded test `aspect_ratio > r` "
    "decides differently from the exact quotient (e.g. a 10 x 17 region with the limit 1.7, whose binary64 value is below 17/10; a "
    "71 x 50 region with 1.42, where even the orientation matters) is run but neither compared nor judged (counted in the evidence)",
    "initial_grid divides by the row/column count: compared exactly when the step is dyadic, within 16 roundings at the die's magnitude otherwise",
    "the model is written for the code as repaired by fixes/C11-phase2-aspect.diff",
    "absolute scale: dies in other units (binary factors: exact, compared with the model up to n = 130; decimal factors and larger "
    "counts: direct oracle only, the pieces must lie inside the region they were cut from within 1e-9 of the die's extent, overlap by "
    "at most (1e-9 extent)^2 and cover each former region within 1e-9 of its area; counts and tags exactly, aspect ratios within a "
    "relative 1e-9 of the limit (exactly for binary factors): the sides of a piece cut from decimal coordinates are one ulp off the exact halves); "
    "process state: when another die was built first (it defines the class-wide Rectangle tolerances) or the coordinates are decimal, the "
    "refinement is judged only if the regions it starts from do not overlap (how a die is decomposed under foreign tolerances is C01 / C20); "
    "the other die is up to 10^13 times larger or smaller (foreign distance tolerance up to 100 times the judged die's extent: its "
    "constructor then mostly refuses it - not judged here - or builds lists that do not tile it: a history from such a start is compared "
    "step by step with trace_ok, the start invariant die_inv is not claimed); refinement itself reads no tolerance and is judged exactly",
    "histories: the model of a call is a function of the object's five lists before the call and of the call's own arguments "
    "(DieOps.step_ok); a history is cut before the first split whose rounded aspect-ratio test would decide differently from the "
    "exact quotient (float-boundary, counted); a history whose grid cells are not binary fractions is compared step by step "
    "(grid cells within 16 roundings) instead of with trace_ok as a whole",
]

R_VALUES = [1.42, 1.5, 1.7, 2.0, 3.0, 10.0]
R_EDGE = [1.415, 1.4150000000000003, 1.0, 1.4143, 64.0]
GROUND = "_"
TAGS = ["dsp", "bram", "lut", "dsp", "bram", "__", "_g", "G_", "ground", "null", "dsp1", "dsp1_0"]


# ---------------------------------------------------------------- generators
def rect_dict(x0, y0, x1, y1, region=GROUND, fixed=False, hard=False, loc="NOPOLY"):
    return {"cx": (x0 + x1) / 2, "cy": (y0 + y1) / 2, "w": x1 - x0, "h": y1 - y0,
            "fixed": fixed, "hard": hard, "region": region, "loc": loc}


def box(d):
    cx, cy, w, h = (core.frac(d[k]) for k in ("cx", "cy", "w", "h"))
    return cx - w / 2, cy - h / 2, cx + w / 2, cy + h / 2


def ov(a, b):
    w = min(a[2], b[2]) - max(a[0], b[0])
    h = min(a[3], b[3]) - max(a[1], b[1])
    return w * h if w > 0 and h > 0 else F(0)


def gen_layout(rng, maxk=4):
    """A die W x H with up to maxk disjoint lattice-aligned rectangles in it."""
    den = rng.choice([1, 1, 2, 4])
    style = rng.choice(["small", "small", "wide", "tall", "big"])
    small = [1, 2, 3, 4, 5, 6, 7, 8]
    large = [8, 10, 12, 16, 24, 30, 32, 64]
    if style == "small":
        wn, hn = rng.choice(small), rng.choice(small)
    elif style == "wide":
        wn, hn = rng.choice(large), rng.choice([1, 1, 2, 3])
    elif style == "tall":
        wn, hn = rng.choice([1, 1, 2, 3]), rng.choice(large)
    else:
        wn, hn = rng.choice(large), rng.choice(large)
    W, H = F(wn, den), F(hn, den)
    k = rng.choice([0, 0, 1, 1, 2, 3, maxk])
    placed = []
    for _ in range(k * 3):
        if len(placed) >= k or wn < 1 or hn < 1:
            break
        a, b = sorted((rng.randrange(0, wn + 1), rng.randrange(0, wn + 1)))
        c, d = sorted((rng.randrange(0, hn + 1), rng.randrange(0, hn + 1)))
        if a == b or c == d:
            continue
        bx = (F(a, den), F(c, den), F(b, den), F(d, den))
        if any(ov(bx, p[0]) > 0 for p in placed):
            continue
        placed.append((bx, rng.choice(["#", "#", "fixed", "tag", "tag", "tag"])))
    regions, fixed = [], []
    rng.shuffle(placed)                      # the order in which the regions are listed is arbitrary
    for bx, kind in placed:
        if kind == "fixed":
            fixed.append(rect_dict(*bx))
        else:
            regions.append(rect_dict(*bx, region="#" if kind == "#" else rng.choice(TAGS)))
    return W, H, regions, fixed


def gen_r(rng):
    r = rng.choice(R_VALUES) if rng.random() < 0.93 else rng.choice(R_EDGE)
    if float(r).is_integer() and rng.random() < 0.2:
        return int(r)                        # the limit given as an int (2 instead of 2.0)
    return r


def rarg(r):
    return r if isinstance(r, int) else float(r)


def call_split(die, r, n, style):
    """split_refinable_regions with positional / keyword arguments, n left to its default when it is 1"""
    if style == "kw":
        return die.split_refinable_regions(aspect_ratio=rarg(r), n=n)
    if style == "default-n" and n == 1:
        return die.split_refinable_regions(rarg(r))
    return die.split_refinable_regions(rarg(r), n)


def call_grid(die, nrows, ncols, style):
    if style == "kw":
        return die.initial_grid(ncols=ncols, nrows=nrows)
    return die.initial_grid(nrows, ncols)


def gen_style(rng):
    return rng.choice(["pos", "pos", "pos", "kw", "default-n"])


def gen_n(rng):
    x = rng.random()
    if x < 0.03:
        return rng.choice([0, -1, -7])
    if x < 0.045:
        return rng.choice([65, 100, 127, 128, 129])         # beyond the usual sizes
    if x < 0.35:
        return rng.randrange(1, 9)
    return rng.randrange(1, 65)


def gen_op(rng, kind=None):
    kind = kind or rng.choices(["split", "grid", "read", "badsplit"], [55, 20, 18, 7])[0]
    if kind == "split":
        return ["split", gen_r(rng), rng.choice([1, 1, 2, 3, 4, 5, 8, 9, 16, 17, 24, 32, 40])]
    if kind == "badsplit":
        return rng.choice([["split", 2.0, 0], ["split", 1.0, 4], ["split", 1.415, 2], ["split", 1.5, -3]])
    if kind == "grid":
        if rng.random() < 0.7:
            return ["grid", rng.choice([1, 2, 4, 8]), rng.choice([1, 2, 4, 8])]
        return ["grid", rng.choice([0, 1, 2, 3, 5, 6, 7]), rng.choice([-1, 1, 2, 3, 5, 6, 7])]
    return ["read"]


def gen_history(rng):
    """a sequence of operations on ONE Die object"""
    pat = rng.choice(["splits", "splits", "grid-first", "split1-grid-split", "split1-grid-split", "split-grid-refused",
                      "grid-grid", "random", "random", "random"])
    empty = pat != "splits" and (pat != "random" or rng.random() < 0.6)
    if empty:
        den = rng.choice([1, 1, 2, 4])
        if pat == "split1-grid-split":
            wn = rng.choice([1, 2, 3, 4, 5, 6, 8, 10, 12, 16])
            hn = max(1, min(32, wn + rng.choice([-2, -1, 0, 0, 0, 1, 2, wn])))
        else:
            wn, hn = rng.randrange(1, 33), rng.randrange(1, 33)
        W, H, regions, fixed = F(wn, den), F(hn, den), [], []
    else:
        W, H, regions, fixed = gen_layout(rng)
    ops = []
    if pat == "splits":
        r = gen_r(rng)
        n = rng.choice([1, 2, 3, 5, 8])
        for _ in range(rng.randrange(2, 5)):
            ops.append(["split", r, n])
            r = rng.choice([r, r, gen_r(rng)])
            n = rng.choice([n, n + 1, n - 1 if n > 1 else 1, 2 * n, rng.choice([1, 2, 3, 5, 8, 13, 21, 34])])
    elif pat == "grid-first":
        ops = [gen_op(rng, "grid")] + [gen_op(rng, "split") for _ in range(rng.randrange(1, 4))]
    elif pat == "split1-grid-split":
        asp = max(W / H, H / W)
        ok = [r for r in R_VALUES if r >= asp] or [10.0]
        r = rng.choice(ok)
        r2 = rng.choice([r, r, r] + [x for x in R_VALUES if x >= r] + R_VALUES)
        g = gen_op(rng, "grid")
        ops = [["split", r, 1], g, ["split", r2, rng.choice([1, 1, max(1, g[1] * g[2]), 2, 9, 16])]]
        if rng.random() < 0.3:
            ops.append(gen_op(rng, "split"))
    elif pat == "split-grid-refused":
        ops = [["split", gen_r(rng), rng.choice([2, 3, 4, 8])], gen_op(rng, "grid"), gen_op(rng, "split")]
    elif pat == "grid-grid":
        ops = [gen_op(rng, "grid"), gen_op(rng, "grid"), gen_op(rng, "split")]
    else:
        ops = [gen_op(rng) for _ in range(rng.randrange(2, 7))]
    # grids whose cells are binary fractions (halving them later stays exact); single grid calls cover the other shapes
    for op in ops:
        if op[0] == "grid":
            for k, side in ((1, H), (2, W)):
                if op[k] > 0 and not dyadic(side / op[k]):
                    op[k] = rng.choice([m for m in range(1, 9) if dyadic(side / m)])
    # reads and refused requests anywhere
    out = []
    for op in ops:
        if rng.random() < 0.25:
            out.append(["read"])
        if rng.random() < 0.08:
            out.append(gen_op(rng, "badsplit"))
        out.append(op)
    if rng.random() < 0.5:
        out.append(["read"])
    form = "text"
    if not regions and rng.random() < 0.4:
        form = rng.choice(["string", "dict"])
    case = {"kind": "hist", "W": W, "H": H, "regions": regions, "fixed": fixed, "ops": out, "dieform": form,
            "style": gen_style(rng)}
    if rng.random() < 0.25:
        # a second Die object alive in the same process, used in between: nothing of it may show in the first
        case["noise"] = {"W": F(rng.randrange(1, 33)), "H": F(rng.randrange(1, 33)),
                         "ops": [gen_op(rng, rng.choice(["split", "split", "grid"])) for _ in range(len(out))]}
    return case


# absolute scale: the same layouts in other units (a 10 mm die in metres, a die in nanometres); binary factors keep every
# halving exact (model comparison as usual), decimal factors go to the direct oracle with a tolerance
SCALES_DY = [F(1, 1024), F(1, 1024), F(1, 128), F(1, 16), F(1), F(64), F(1024), F(2 ** 20)]
SCALES_DEC = [F(1, 1000), F(1, 1000), F(1, 100), F(1, 100), F(1, 10), F(10), F(1000), F(10 ** 6)]
BIG_N = [64, 100, 128, 256, 300, 512, 600, 1000, 1024]
PRE_FACTORS = [F(1, 1000), F(1, 8), F(1), F(8), F(1000), F(1000), F(1000), F(10 ** 6)]
# FAR pre-dies: the class-wide distance tolerance is min(W, H) * 1e-11 of the FIRST die of the process, so a die 10^9 .. 10^13
# times larger leaves a tolerance of 1% .. 100 times the judged die's own extent (and one as much smaller a tolerance far
# below one ulp of its coordinates); refinement itself reads no tolerance, so it is judged exactly as before
# (the judged die's constructor accepts an empty die while that tolerance stays below its shorter side: factors 10^10 ..
# 5 * 10^10 are where a die is still built and the foreign tolerance is of the size of the pieces a refinement makes)
PRE_FAR = [F(10) ** 9, F(10) ** 10, 2 * F(10) ** 10, 2 * F(10) ** 10, 5 * F(10) ** 10, 5 * F(10) ** 10, F(10) ** 11, F(10) ** 11,
           F(10) ** 12, F(10) ** 13]


def scale_rect(d, s):
    return dict(d, cx=d["cx"] * s, cy=d["cy"] * s, w=d["w"] * s, h=d["h"] * s)


def scaled(case, s):
    """the case in other units"""
    return dict(case, W=case["W"] * s, H=case["H"] * s, regions=[scale_rect(d, s) for d in case["regions"]],
                fixed=[scale_rect(d, s) for d in case["fixed"]], scale=s)


def gen_pre(rng, case, far=False):
    """another die built (and sometimes refined) FIRST in the same process: the first design of a process defines the
    class-wide tolerances of Rectangle, here from a die up to 1000 times (seldom 10^6 times) larger or smaller, or (a third
    of them, and every `far` one) 10^9 .. 10^13 times larger or smaller"""
    f = rng.choice(PRE_FACTORS)
    if far or rng.random() < 0.3:
        f = rng.choice(PRE_FAR)
        if rng.random() < (0.25 if far else 0.4):
            f = 1 / f
    pre = {"W": case["W"] * f * rng.choice([1, 1, 2, 3]), "H": case["H"] * f * rng.choice([1, 1, 2, 3])}
    if rng.random() < 0.4:
        pre["split"] = [rng.choice([1.5, 2.0, 3.0]), rng.choice([1, 4, 16])]
    return pre


def gen_scaled(rng):
    """refinement of a die that is small or large in absolute units, mostly into many regions, often after another die"""
    W, H, regions, fixed = gen_layout(rng, maxk=3)
    exact = rng.random() < 0.5
    s = rng.choice(SCALES_DY if exact else SCALES_DEC)
    n = rng.choice(BIG_N) if rng.random() < 0.7 else rng.randrange(1, 65)
    case = scaled({"kind": "split", "W": W, "H": H, "regions": regions, "fixed": fixed, "r": gen_r(rng), "n": n,
                   "style": gen_style(rng)}, s)
    if rng.random() < 0.5:
        case["pre"] = gen_pre(rng, case)
    return case


def gen_far(rng):
    """a small die (mostly empty: a die with regions is seldom accepted by its constructor under a tolerance of its own
    size) refined once or through a short history after a die 10^9 .. 10^13 times larger (a quarter: smaller) was built.
    Mostly limits below 2 (where halving a compliant region gives a non-compliant one that must be split again) and, in
    more than half of the cases, a count that drives the pieces below the foreign distance tolerance."""
    if rng.random() < 0.6:
        den = rng.choice([1, 1, 2, 4])
        W, H = F(rng.choice([1, 2, 3, 5, 8, 12, 30, 30, 48, 50, 64]), den), F(rng.choice([1, 2, 3, 5, 8, 12, 30, 30, 48, 50, 64]), den)
        regions, fixed = [], []
    else:
        W, H, regions, fixed = gen_layout(rng, maxk=2)
    rlim = lambda: rng.choice([1.42, 1.5, 1.5, 1.7]) if rng.random() < 0.75 else gen_r(rng)
    hist = rng.random() < 0.3
    if hist:
        ops = [["split", rlim(), rng.choice([1, 2, 3, 4, 8])]]
        if rng.random() < 0.5:
            ops.append(["read"])
        ops.append(["split", rlim(), rng.choice([2, 5, 8, 16, 32])])
        case = {"kind": "hist", "W": W, "H": H, "regions": regions, "fixed": fixed, "ops": ops,
                "dieform": "text" if regions else rng.choice(["string", "dict", "text"]), "style": gen_style(rng)}
    else:
        case = {"kind": "split", "W": W, "H": H, "regions": regions, "fixed": fixed, "r": rlim(),
                "n": rng.choice([1, 2, 3, 4, 5, 8, 16, 32, 64]), "style": gen_style(rng)}
    case = scaled(case, rng.choice(SCALES_DY + [F(1)] * 12))
    case["pre"] = gen_pre(rng, case, far=True)
    # the tolerance the pre-die leaves (Die.__init__: min(W, H) * 10e-12), and the count at which pieces get that thin
    eps = min(case["pre"]["W"], case["pre"]["H"]) / 10 ** 11
    if eps < min(case["W"], case["H"]) and rng.random() < 0.7:
        deep = int(min(F(1024), 2 * case["W"] * case["H"] / (eps * eps))) + 1
        deep = min(1024, deep * rng.choice([1, 1, 2, 4]))
        if hist:
            case["ops"][-1][2] = min(deep, 128)
        else:
            case["n"] = deep
    return case


def oracle_only(case):
    """cases decided by the direct oracle alone: decimal scale factors (positions k*W/2^j are rounded) and counts beyond
    what the model comparison is run for"""
    s = case.get("scale")
    return s is not None and case["kind"] == "split" and (not dyadic(s) or case["n"] > 130)


def gen_case(rng):
    x = rng.random()
    if x < 0.07:
        return gen_scaled(rng)
    if x < 0.13:
        return gen_far(rng)
    case = gen_case_(rng)
    if case["kind"] == "hist" and rng.random() < 0.12:
        case = scaled(case, rng.choice(SCALES_DY))
    if case["kind"] != "raw" and rng.random() < 0.1:
        case["pre"] = gen_pre(rng, case)
    return case


def gen_case_(rng):
    x = rng.random()
    if x < 0.36:
        return gen_history(rng)
    x = (x - 0.36) / 0.64
    if x < 0.62:
        W, H, regions, fixed = gen_layout(rng)
        return {"kind": "split", "W": W, "H": H, "regions": regions, "fixed": fixed, "r": gen_r(rng), "n": gen_n(rng),
                "style": gen_style(rng)}
    if x < 0.80:
        if rng.random() < 0.85:
            den = rng.choice([1, 1, 2, 4])
            W, H = F(rng.randrange(1, 33), den), F(rng.randrange(1, 33), den)
            regions, fixed = [], []
        else:
            W, H, regions, fixed = gen_layout(rng, maxk=2)
        nrows = rng.choice([0, -1, 9, 12]) if rng.random() < 0.06 else rng.randrange(1, 9)
        ncols = rng.choice([0, -2, 10]) if rng.random() < 0.06 else rng.randrange(1, 9)
        if rng.random() < 0.04:
            nrows, ncols = rng.choice([(10, 10), (16, 16), (1, 100), (33, 2), (9, 7), (17, 15)])
        return {"kind": "grid", "W": W, "H": H, "regions": regions, "fixed": fixed, "nrows": nrows, "ncols": ncols,
                "style": gen_style(rng)}
    # direct call of split_rectangles on a list of rectangles with arbitrary attributes
    W, H, regions, fixed = gen_layout(rng, maxk=5)
    rects = []
    for d in regions + fixed:
        rects.append(dict(d, region=rng.choice([GROUND, GROUND] + TAGS), fixed=rng.random() < 0.2,
                          hard=rng.random() < 0.2, loc=rng.choice(["NOPOLY", "NOPOLY", "TRUNK", "EAST"])))
    if rng.random() < 0.5 or not rects:
        rects.append(rect_dict(-W, F(0), F(0), H, region=rng.choice([GROUND] + TAGS)))
    if rng.random() < 0.08:
        rects = []
    rng.shuffle(rects)
    return {"kind": "raw", "rects": rects, "r": gen_r(rng), "n": gen_n(rng)}


# ---------------------------------------------------------------- implementation
def fnum(x):
    return repr(float(x))


def die_text(case):
    lines = [f"width: {fnum(case['W'])}", f"height: {fnum(case['H'])}"]
    if case["regions"]:
        rs = ", ".join(f"[{fnum(d['cx'])}, {fnum(d['cy'])}, {fnum(d['w'])}, {fnum(d['h'])}, '{d['region']}']"
                       for d in case["regions"])
        lines.append(f"regions: [{rs}]")
    return "\n".join(lines) + "\n"


def netlist_text(case):
    mods = ", ".join(f"F{i}: {{fixed: true, rectangles: [[{fnum(d['cx'])}, {fnum(d['cy'])}, {fnum(d['w'])}, {fnum(d['h'])}]]}}"
                     for i, d in enumerate(case["fixed"]))
    return f"Modules: {{{mods}, M: {{area: 1}}}}\nNets: []\n"


def snapshot(die):
    return {"bbox": fr.rect_obs(die.bounding_box),
            "spec": [fr.rect_obs(r) for r in die.specialized_regions],
            "ground": [fr.rect_obs(r) for r in die.ground_regions],
            "blockages": [fr.rect_obs(r) for r in die.blockages],
            "fixed": [fr.rect_obs(r) for r in die.fixed_regions]}


class Hang(Exception):
    pass


def _alarm(signum, frame):
    raise Hang()


HANG_BUDGET = [4]     # calls that may be waited for; afterwards the remaining cases are skipped


def run_impl(case):
    """A call that does not return within 10 s is reported as such (refinement must terminate)."""
    import signal
    if HANG_BUDGET[0] <= 0:
        return {"status": "die-rejected", "why": "skipped: several earlier calls did not return"}
    old = signal.signal(signal.SIGALRM, _alarm)
    signal.alarm(10)
    try:
        return run_impl_(case)
    except Hang:
        HANG_BUDGET[0] -= 1
        return {"status": "hang"}
    finally:
        signal.alarm(0)
        signal.signal(signal.SIGALRM, old)


SKIPPED = {"float-boundary": 0}


def float_boundary(rects, r):
    """True iff, for some rectangle obtainable from `rects` by halving the longer side, the code's
    rounded test `aspect_ratio > r` (h/w, inverted with 1.0/ar when below 1) decides differently
    from the exact quotient.  Such cases (e.g. a 10 x 17 region with the limit 1.7, whose binary64
    value is below 17/10) are outside what an exact-arithmetic model can speak about."""
    rf, rq = float(r), core.frac(r)
    for d in rects:
        w, h = core.frac(d["w"]), core.frac(d["h"])
        if w <= 0 or h <= 0:
            continue
        for _ in range(34):
            ar = float(h) / float(w)
            if ar < 1:
                ar = 1.0 / ar
            if (ar > rf) != (max(w / h, h / w) > rq):
                return True
            if h > w:
                h /= 2
            else:
                w /= 2
    return False


def build_pre(case):
    """the die of case['pre'], built (and refined) before the judged one in the same process"""
    pre = case.get("pre")
    if not pre:
        return
    from frame.die.die import Die
    try:
        d = Die(f"{fnum(pre['W'])}x{fnum(pre['H'])}")
        if pre.get("split"):
            d.split_refinable_regions(rarg(pre["split"][0]), pre["split"][1])
    except Exception:
        pass


def build_die(case):
    from frame.die.die import Die
    from frame.netlist.netlist import Netlist
    build_pre(case)
    net = Netlist(netlist_text(case)) if case["fixed"] else None
    form = case.get("dieform", "text")
    if form == "string" and not case["regions"]:
        return Die(f"{fnum(case['W'])}x{fnum(case['H'])}", net)
    if form == "dict":
        tree = {"width": float(case["W"]), "height": float(case["H"])}
        if case["regions"]:
            tree["regions"] = [[float(d["cx"]), float(d["cy"]), float(d["w"]), float(d["h"]), d["region"]] for d in case["regions"]]
        return Die(tree, net)
    return Die(die_text(case), net)


def run_history(case):
    """every operation of case['ops'] on one Die object; the lists are read after every step"""
    try:
        die = build_die(case)
    except AssertionError as e:
        return {"status": "die-rejected", "why": str(e)[:200]}
    state = snapshot(die)
    obs = {"status": "hist", "start": state, "events": [], "cut": None}
    other = None
    if case.get("noise"):
        from frame.die.die import Die
        try:
            other = Die(f"{fnum(case['noise']['W'])}x{fnum(case['noise']['H'])}")
        except Exception:
            other = None
    for i, op in enumerate(case["ops"]):
        if other is not None and i < len(case["noise"]["ops"]):
            nop = case["noise"]["ops"][i]
            try:
                if nop[0] == "split":
                    other.split_refinable_regions(rarg(nop[1]), nop[2])
                elif nop[0] == "grid":
                    other.initial_grid(nop[1], nop[2])
            except Exception:
                pass
        ev = {"op": op, "before": state}
        if op[0] == "split":
            if float_boundary(state["spec"] + state["ground"], op[1]):
                SKIPPED["float-boundary"] += 1
                obs["cut"] = i
                break
            call = lambda: call_split(die, op[1], op[2], case.get("style"))
        elif op[0] == "grid":
            call = lambda: call_grid(die, op[1], op[2], case.get("style"))
        else:
            call = None
        if call is not None:
            try:
                call()
                ev["status"] = "ok"
            except AssertionError:
                ev["status"] = "assert"
            except IndexError:
                ev["status"] = "index"
        else:
            ev["status"] = "ok"
        fp = die.floorplanning_rectangles()
        ev["fp"] = [[fr.rect_obs(r) for r in fp[0]], [fr.rect_obs(r) for r in fp[1]]]
        state = snapshot(die)
        ev["after"] = state
        obs["events"].append(ev)
    return obs


def run_impl_(case):
    from frame.geometry.geometry import Rectangle, split_rectangles
    Rectangle.undefine_epsilon()
    try:
        if case["kind"] == "hist":
            return run_history(case)
        if case["kind"] == "raw":
            if float_boundary(case["rects"], case["r"]):
                SKIPPED["float-boundary"] += 1
                return {"status": "boundary"}
            rects = [fr.mk_rect(d) for d in case["rects"]]
            try:
                out = split_rectangles(rects, rarg(case["r"]), case["n"])
            except AssertionError:
                return {"status": "assert"}
            except IndexError:
                return {"status": "index"}
            return {"status": "ok", "out": [fr.rect_obs(r) for r in out]}
        from frame.die.die import Die
        from frame.netlist.netlist import Netlist
        try:
            build_pre(case)
            net = Netlist(netlist_text(case)) if case["fixed"] else None
            die = Die(die_text(case), net)
        except AssertionError as e:
            return {"status": "die-rejected", "why": str(e)[:200]}
        before = snapshot(die)
        if case["kind"] == "split" and float_boundary(before["spec"] + before["ground"], case["r"]):
            SKIPPED["float-boundary"] += 1
            return {"status": "boundary"}
        try:
            if case["kind"] == "split":
                call_split(die, case["r"], case["n"], case.get("style"))
            else:
                call_grid(die, case["nrows"], case["ncols"], case.get("style"))
            status = "ok"
        except AssertionError:
            status = "assert"
        except IndexError:
            status = "index"
        fp = die.floorplanning_rectangles()
        return {"status": status, "before": before, "after": snapshot(die),
                "fp": [[fr.rect_obs(r) for r in fp[0]], [fr.rect_obs(r) for r in fp[1]]]}
    finally:
        Rectangle.undefine_epsilon()


# ---------------------------------------------------------------- model side
def grects(l):
    return glist([fr.grect(d) for d in l])


def gdie(s):
    return (f"(mkDie {fr.grect(s['bbox'])} {grects(s['spec'])} {grects(s['ground'])} "
            f"{grects(s['blockages'])} {grects(s['fixed'])})")


def dyadic(q):
    d = core.frac(q).denominator
    return d & (d - 1) == 0


def gevent_parts(ev):
    op, D2 = ev["op"], gdie(ev["after"])
    out = "Returned" if ev["status"] == "ok" else "Raised"
    if op[0] == "split":
        return f"(OSplit {gq(op[1])} {gz(op[2])})", out, D2
    if op[0] == "grid":
        return f"(OGrid {gz(op[1])} {gz(op[2])})", out, D2
    return "ORead", f"(Lists {grects(ev['fp'][0])} {grects(ev['fp'][1])})", D2


def gevent(ev):
    return "(" + ", ".join(gevent_parts(ev)) + ")"


def grid_exact(case, op):
    return op[1] > 0 and op[2] > 0 and dyadic(F(case["W"]) / op[2]) and dyadic(F(case["H"]) / op[1])


def judged_events(case, obs):
    """the events up to and including the first grid whose cells are not binary fractions: halving such cells is not
    exact in binary64, so later steps are outside what exact arithmetic can judge (the generator avoids such grids)"""
    evs = []
    for ev in obs["events"]:
        evs.append(ev)
        if ev["op"][0] == "grid" and ev["status"] == "ok" and not grid_exact(case, ev["op"]):
            break
    return evs


def state_tiles(st):
    """the lists of a die state tile its bounding box (exactly)"""
    bb = box(st["bbox"])
    rs = [box(d) for k in ("spec", "ground", "blockages", "fixed") for d in st[k]]
    if any(not (b[2] > b[0] and b[3] > b[1] and inside(b, bb)) for b in rs):
        return False
    if overlapping_pair(rs) is not None:
        return False
    return sum(((b[2] - b[0]) * (b[3] - b[1]) for b in rs), F(0)) == (bb[2] - bb[0]) * (bb[3] - bb[1])


def hist_to_coq(case, obs):
    evs = judged_events(case, obs)
    D0 = gdie(obs["start"])
    tr = glist([gevent(ev) for ev in evs])
    if case.get("pre") and not state_tiles(obs["start"]):
        # a die its constructor decomposed under another design's tolerances into lists that do not tile it (C01's / C20's
        # subject): the steps are compared with the per-call model as always, the invariant of the start is not claimed
        SKIPPED["foreign-start"] = SKIPPED.get("foreign-start", 0) + 1
        return f"trace_ok {D0} {tr}"
    # (floorplanning_rectangles() after every step is compared with the lists by the direct oracle; the read events carry it)
    if all(grid_exact(case, ev["op"]) for ev in evs if ev["op"][0] == "grid" and ev["status"] == "ok"):
        return f"history_ok {D0} {tr}"
    # a grid whose cells are not binary fractions: step by step, the grid cells within 16 roundings
    scale = gq(max(case["W"], case["H"]))
    parts = [f"die_inv_b {D0}"]
    for ev in evs:
        op = ev["op"]
        ex = gbool(grid_exact(case, op)) if op[0] == "grid" else "true"
        o, out, D2 = gevent_parts(ev)
        parts.append(f"step_agrees {ex} {scale} {gdie(ev['before'])} {o} {out} {D2}")
    return " && ".join(parts)


def to_coq(case, obs):
    st = obs["status"]
    if st in ("die-rejected", "boundary"):
        return "true"
    if st == "hang":
        return "false"
    if st == "hist":
        return hist_to_coq(case, obs)
    if oracle_only(case):
        return "true"
    if case["kind"] == "raw":
        RS, r, n = grects(case["rects"]), gq(case["r"]), gz(case["n"])
        if st != "ok":
            return f"is_reject (split_rectangles_greedy {RS} {r} {n})"
        OUT = grects(obs["out"])
        return f"split_rectangles_ok {RS} {r} {n} {OUT}"
    D, D2 = gdie(obs["before"]), gdie(obs["after"])
    fp = f"fp_eqb {D2} {grects(obs['fp'][0])} {grects(obs['fp'][1])}"
    if case["kind"] == "split":
        r, n = gq(case["r"]), gz(case["n"])
        if st != "ok":
            return f"is_reject (die_split_greedy {D} {r} {n}) && die_eqb {D} {D2} && {fp}"
        return f"die_split_ok {D} {r} {n} {D2} && {fp}"
    nr, nc = gz(case["nrows"]), gz(case["ncols"])
    if st != "ok":
        return f"is_reject (initial_grid {D} {nr} {nc}) && die_eqb {D} {D2} && {fp}"
    exact = dyadic(F(case["W"]) / case["ncols"]) and dyadic(F(case["H"]) / case["nrows"])
    scale = gq(max(case["W"], case["H"]))
    return f"grid_agrees {gbool(exact)} {scale} {D} {nr} {nc} {D2} && {fp}"


# ---------------------------------------------------------------- direct oracle
def aspect(d):
    w, h = core.frac(d["w"]), core.frac(d["h"])
    return max(w / h, h / w)


def inside(a, b, tol=0):
    return a[0] >= b[0] - tol and a[1] >= b[1] - tol and a[2] <= b[2] + tol and a[3] <= b[3] + tol


def bag(l):
    """a list of regions as a multiset (the property promises no order)"""
    return sorted((geom(d) for d in l), key=repr)


def geom(d):
    return tuple(core.frac(d[k]) for k in ("cx", "cy", "w", "h")) + (d["region"], d["fixed"], d["hard"], d["loc"])


def overlapping_pair(boxes, tol_area=F(0)):
    """indices of two boxes that overlap by more than tol_area, or None.  Exact: the coordinates (Fractions) are brought
    to a common denominator and compared as integers; sweep along x (about n^1.5 comparisons for a tiling)."""
    if len(boxes) < 2:
        return None
    den = 1
    for b in boxes:
        for v in b:
            den = den * v.denominator // gcd(den, v.denominator)
    ib = [tuple(v.numerator * (den // v.denominator) for v in b) for b in boxes]
    tol = tol_area * den * den
    order = sorted(range(len(ib)), key=lambda i: ib[i][0])
    for p, i in enumerate(order):
        a0, a1, a2, a3 = ib[i]
        for j in order[p + 1:]:
            b0, b1, b2, b3 = ib[j]
            if b0 >= a2:
                break
            w = min(a2, b2) - b0                      # b0 >= a0: the list is sorted
            h = min(a3, b3) - max(a1, b1)
            if w > 0 and h > 0 and w * h > tol:
                return i, j
    return None


def check_refinement(before, after, r, n, rel=F(0)):
    """`after` refines the non-overlapping list `before`: count, containment + tag, tiling, aspect.  rel = 0: exactly
    (binary coordinates); otherwise positions may be off by rel * (the extent of `before`) - decimal coordinates."""
    if len(after) < n:
        return f"only {len(after)} refinable regions, {n} requested"
    bb = [box(d) for d in before]
    ext = max([F(0)] + [max(abs(v) for v in b) for b in bb])
    tolc = rel * ext
    got = [F(0)] * len(before)
    for a in after:
        if core.frac(a["w"]) <= 0 or core.frac(a["h"]) <= 0:
            return "a region of non-positive size"
        ab = box(a)
        owners = [i for i, b in enumerate(bb) if inside(ab, b, tolc)]
        if not owners:
            return "a refined region does not lie inside any former refinable region"
        owners = [i for i in owners if before[i]["region"] == a["region"] and before[i]["fixed"] == a["fixed"]
                  and before[i]["hard"] == a["hard"]]
        if len(owners) != 1:
            return "a refined region does not carry the tag/attributes of the region it was cut from"
        got[owners[0]] += core.frac(a["w"]) * core.frac(a["h"])
    if overlapping_pair([box(a) for a in after], tolc * ext) is not None:
        return "two refined regions overlap"
    for i, b in enumerate(before):
        area = core.frac(b["w"]) * core.frac(b["h"])
        if abs(got[i] - area) > rel * area:
            return "the refined regions do not cover a former refinable region exactly"
    for a in after:
        # decimal coordinates: the sides of a piece are differences of rounded positions, one ulp off the exact halves, so the
        # exact quotient of the two floats may exceed a limit the code's rounded quotient meets (0.03 x 0.02: 1.5000000000000002)
        if aspect(a) > core.frac(r) * (1 + rel):
            return f"aspect ratio {float(aspect(a))} exceeds the limit {float(r)}"
    return None


def non_overlapping(rects, tol_area=F(0)):
    return overlapping_pair([box(d) for d in rects], tol_area) is None


def admissible(r, n):
    """the property's domain: limits accepted by the code (> 1.415 as a float) and n >= 1"""
    return n >= 1 and float(r) > 1.415


def oracle_history(case, obs):
    for i, ev in enumerate(judged_events(case, obs)):
        op = ev["op"]
        if op[0] == "read":
            b, a = ev["before"], ev["after"]
            if b != a:
                why = "reading the regions changed the die"
            elif [bag(ev["fp"][0]), bag(ev["fp"][1])] != [bag(a["spec"] + a["ground"]), bag(a["fixed"])]:
                why = "floorplanning_rectangles() is not (specialised + ground regions, fixed regions)"
            else:
                why = None
        else:
            sub = {"kind": op[0], "W": case["W"], "H": case["H"], "pre": case.get("pre")}
            if op[0] == "split":
                sub.update(r=op[1], n=op[2])
            else:
                sub.update(nrows=op[1], ncols=op[2])
            why = oracle(sub, {"status": ev["status"], "before": ev["before"], "after": ev["after"], "fp": ev["fp"]})
        if why:
            called = " -> ".join(f"{o[0]}({', '.join(str(v) for v in o[1:])})" for o in case["ops"][:i + 1])
            return f"step {i + 1} of {called}: {why}"
    return None


def oracle(case, obs):
    st = obs["status"]
    if st in ("die-rejected", "boundary"):
        return None
    if st == "hang":
        return "the call did not return within 10 s"
    if st == "hist":
        return oracle_history(case, obs)
    if case["kind"] == "raw":
        rects = case["rects"]
        ok_in = all(core.frac(d["w"]) > 0 and core.frac(d["h"]) > 0 for d in rects)
        if st != "ok":
            if admissible(case["r"], case["n"]) and rects and ok_in:
                return f"admissible request refused ({st})"
            return None
        if not admissible(case["r"], case["n"]):
            return "inadmissible request (n < 1 or limit <= 1.415) accepted"
        if not non_overlapping(rects):
            return None
        return check_refinement(rects, obs["out"], case["r"], case["n"])
    b, a = obs["before"], obs["after"]
    for k, what in (("blockages", "blockages"), ("fixed", "fixed regions")):
        if list(map(geom, b[k])) != list(map(geom, a[k])):
            return f"{what} changed"
    if geom(b["bbox"]) != geom(a["bbox"]):
        return "the die changed"
    if [bag(obs["fp"][0]), bag(obs["fp"][1])] != [bag(a["spec"] + a["ground"]), bag(a["fixed"])]:
        return "floorplanning_rectangles() is not (specialised + ground regions, fixed regions)"
    before, after = b["spec"] + b["ground"], a["spec"] + a["ground"]
    if any(d["region"] == GROUND for d in a["spec"]) or any(d["region"] != GROUND for d in a["ground"]):
        return "a region is reported in the wrong list (specialised vs ground): its tag is lost"
    if case["kind"] == "split":
        if st != "ok":
            if list(map(geom, before)) != list(map(geom, after)):
                return "a refused request changed the die"
            if admissible(case["r"], case["n"]) and before:
                return f"admissible request refused ({st})"
            return None
        if not admissible(case["r"], case["n"]):
            return "inadmissible request (n < 1 or limit <= 1.415) accepted"
        s = case.get("scale")
        rel = F(0) if s is None or dyadic(s) else F(1, 10 ** 9)
        if case.get("pre") or rel:
            # a die built under tolerances defined by another design, or from decimal coordinates: how it is decomposed is
            # C01's / C20's subject; the refinement is judged when the regions it starts from do not overlap
            ext = max(case["W"], case["H"])
            if not non_overlapping(before, rel * ext * ext):
                return None
        return check_refinement(before, after, case["r"], case["n"], rel)
    # grid
    nr, nc = case["nrows"], case["ncols"]
    empty = not (b["spec"] or b["blockages"] or b["fixed"]) and len(b["ground"]) == 1
    wanted = nr > 0 and nc > 0 and nr + nc > 1 and empty
    if st != "ok":
        if list(map(geom, before)) != list(map(geom, after)):
            return "a refused request changed the die"
        return "grid request on an empty die refused" if wanted else None
    if not wanted:
        return "grid created on a die that is not empty, or with a non-positive / 1x1 shape"
    if len(after) != nr * nc:
        return f"{len(after)} regions in a {nr}x{nc} grid"
    die = box(b["bbox"])
    exact = dyadic(F(case["W"]) / nc) and dyadic(F(case["H"]) / nr)
    tol = F(0) if exact else F(max(case["W"], case["H"])) / 10 ** 9
    cells = [box(d) for d in after]
    for d, c in zip(after, cells):
        if d["region"] != GROUND or not inside(c, die, tol) or c[2] <= c[0] or c[3] <= c[1]:
            return "a grid cell is not a ground region inside the die"
    for i in range(len(cells)):
        for j in range(i + 1, len(cells)):
            if ov(cells[i], cells[j]) > tol * max(case["W"], case["H"]):
                return "two grid cells overlap"
    tot = sum((c[2] - c[0]) * (c[3] - c[1]) for c in cells)
    if abs(tot - case["W"] * case["H"]) > tol * max(case["W"], case["H"]) * 4:
        return "the grid cells do not cover the die"
    return None


def failure_key(case, why):
    if case["kind"] == "hist":
        return "C11/history"
    if case["kind"] == "grid":
        return "C11/initial_grid"
    if why and "aspect ratio" in why and float(case["r"]) < 2:
        return "C11/phase2-aspect"
    return "C11/split_rectangles" if case["kind"] == "raw" else "C11/split_refinable_regions"


def shrink(case):
    if case["kind"] == "hist":
        ops = case["ops"]
        for i in reversed(range(len(ops))):
            yield dict(case, ops=ops[:i] + ops[i + 1:])
        for key in ("regions", "fixed"):
            for i in range(len(case[key])):
                yield dict(case, **{key: case[key][:i] + case[key][i + 1:]})
        for i, op in enumerate(ops):
            if op[0] == "split" and op[2] > 1:
                for m in sorted({1, op[2] // 2, op[2] - 1}):
                    if 1 <= m < op[2]:
                        yield dict(case, ops=ops[:i] + [[op[0], op[1], m]] + ops[i + 1:])
            if op[0] == "grid":
                for k in (1, 2):
                    if op[k] > 1:
                        new = list(op)
                        new[k] -= 1
                        yield dict(case, ops=ops[:i] + [new] + ops[i + 1:])
        for key in ("W", "H"):
            if not case["regions"] and not case["fixed"] and case[key] > 2 and case[key].denominator == 1:
                yield dict(case, **{key: F(case[key] // 2)})
        if case.get("dieform") != "text":
            yield dict(case, dieform="text")
        if case.get("noise"):
            yield dict(case, noise=None)
        if case.get("pre"):
            yield dict(case, pre=None)
        return
    if case.get("pre"):
        yield dict(case, pre=None)
        if case["pre"].get("split"):
            yield dict(case, pre={k: v for k, v in case["pre"].items() if k != "split"})
    if case["kind"] in ("split", "raw"):
        n = case["n"]
        for m in sorted({1, 2, n // 2, n - 1}):
            if 1 <= m < n:
                yield dict(case, n=m)
    if case["kind"] in ("split", "grid"):
        for key in ("regions", "fixed"):
            for i in range(len(case[key])):
                yield dict(case, **{key: case[key][:i] + case[key][i + 1:]})
        for key in ("W", "H"):
            if case[key] != 1 and not case["regions"] and not case["fixed"]:
                yield dict(case, **{key: F(1)})
                if case[key] > 2 and case[key].denominator == 1:
                    yield dict(case, **{key: F(case[key] // 2)})
        if case["kind"] == "grid":
            for key in ("nrows", "ncols"):
                if case[key] > 1:
                    yield dict(case, **{key: case[key] - 1})
    else:
        rs = case["rects"]
        for i in range(len(rs)):
            yield dict(case, rects=rs[:i] + rs[i + 1:])
    if case["kind"] != "grid" and case["r"] not in (1.5, 2.0):
        yield dict(case, r=1.5)
        yield dict(case, r=2.0)


def dist_key(case):
    if case["kind"] == "hist":
        return "history/" + "-".join(op[0][0] for op in case["ops"])[:9]
    if case["kind"] == "grid":
        return "grid"
    return f"{case['kind']}/r={float(case['r'])}"


def nontrivial(case):
    if case["kind"] == "hist":
        return sum(1 for op in case["ops"] if op[0] != "read") >= 2
    if case["kind"] == "grid":
        return case["nrows"] * case["ncols"] > 1
    return case["n"] > 1


def run(ctx, out, replay=None):
    n = 700 if ctx.quick() else 6000
    out.rule = ("real Die objects from generated descriptions (0-4 disjoint lattice-aligned blockages / specialised regions / "
                "fixed rectangles on small, elongated and large dyadic dies), limits 1.42 1.5 1.7 2 3 10 (+ edge values around the "
                "assert), n in 1..64 (+ non-positive), grids 1..8 x 1..8 (+ refused shapes, non-empty dies), direct calls of "
                "split_rectangles with arbitrary attributes; histories (about a third of the cases): 2-8 operations on ONE Die object "
                "(splits with equal / tighter / looser limits and growing or smaller counts, initial_grid first / after split(r, 1) / "
                "refused after a real split / twice, refused splits, floorplanning_rectangles() in between; die built from YAML text, a "
                "dict or the '<W>x<H>' string), lists read and compared after every step; non-trivial = n > 1, more than one grid "
                "cell, or at least two modifying calls; distinct by canonical hash; ABSOLUTE SCALE (7% of the cases + an eighth of "
                "the histories): the same layouts in other units - binary factors 2^-10 .. 2^20 (exact; model comparison up to n = 130) "
                "and decimal factors 10^-3 .. 10^6 (direct oracle, positions within 1e-9 of the die) - refined into up to 1024 regions; "
                "PROCESS STATE (half of those, a tenth of the others): another die, up to 1000 times (seldom 10^6 times) larger or "
                "smaller, is built and sometimes refined first in the same process, so the class-wide Rectangle tolerances come from it; "
                "a third of these pre-dies, and those of a further 6% of the cases (small, mostly empty dies; single splits and short "
                "histories), are 10^9 .. 10^13 times larger or smaller: the foreign distance tolerance is then 1% .. 100 times the "
                "judged die's own extent (or far below one ulp); judged by the same exact oracle")
    cases = []
    if replay and "case" in replay:
        cases.append(fr.unjson(replay["case"]))
    cases += fr.load_corpus("C11")
    while len(cases) < n:
        cases.append(gen_case(ctx.rng))
    for c in cases:
        if c.get("scale") is not None:
            out.count("scale:" + ("binary" if dyadic(c["scale"]) else "decimal") + ("/oracle-only" if oracle_only(c) else ""))
        if c.get("pre"):
            out.count("after-another-die")
            ratio = max(F(c["pre"]["W"]) / F(c["W"]), F(c["pre"]["H"]) / F(c["H"]))
            small = min(F(c["pre"]["W"]) / F(c["W"]), F(c["pre"]["H"]) / F(c["H"]))
            if ratio >= 10 ** 9:
                out.count("after-a-die-1e9..1e13-times-larger")
            elif small <= F(1, 10 ** 9):
                out.count("after-a-die-1e9..1e13-times-smaller")
    fr.run_cases(ctx, out, cases, run_impl, to_coq, oracle, failure_key, HEADER,
                 dist_key=dist_key, nontrivial=nontrivial, shard=40, shrink=shrink)
    out.extra["skipped_float_boundary_cases"] = SKIPPED["float-boundary"]
    out.extra["histories_from_a_start_that_does_not_tile_after_another_die"] = SKIPPED.get("foreign-start", 0)
    greedy_evidence(ctx, out, cases[:160 if ctx.quick() else 1500])


def greedy_evidence(ctx, out, cases):
    """Evidence only (not part of the verdict): on how many cases phase 2 ran, and how often the
    implementation's list is, up to order, the one the model's own algorithm computes."""
    exprs = []
    for case in cases:
        if case["kind"] in ("grid", "hist") or oracle_only(case):
            continue
        obs = run_impl(case)
        if obs["status"] != "ok":
            continue
        if case["kind"] == "raw":
            RS, OUT = grects(case["rects"]), grects(obs["out"])
        else:
            RS = grects(obs["before"]["spec"] + obs["before"]["ground"])
            OUT = grects(obs["after"]["spec"] + obs["after"]["ground"])
        r, n = gq(case["r"]), gz(case["n"])
        exprs += [f"phase2_ran {RS} {r} {n}", f"equals_greedy {RS} {r} {n} {OUT}", f"split_tight {RS} {r} {n} {OUT}"]
    res = core.coq_eval_bools(ctx, HEADER, exprs, shard=90, tag="greedy")
    ran = [i for i in range(0, len(res), 3) if res[i] is True]
    out.extra["phase2_sample"] = {"cases": len(res) // 3, "phase2_ran": len(ran),
                                  "equal_to_model_greedy_when_ran": sum(1 for i in ran if res[i + 1] is True),
                                  "stopped_as_early_as_possible_when_ran": sum(1 for i in ran if res[i + 2] is True),
                                  "equal_to_model_when_not_ran": sum(1 for i in range(0, len(res), 3)
                                                                     if res[i] is False and res[i + 1] is True)}
