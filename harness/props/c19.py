"""C19 - every document FRAME produces is accepted back and says the same thing.

Producers (one case family each):
  die        Die.write_yaml                      -> parse_yaml_die / Die(...)
  alloc      Allocation.write_yaml               -> Allocation(...)
  netgen     tools.netgen gen_* + ruamel dump    -> Netlist(...)
  named      dump_yaml_namededges                (state transformer)
  floorset   FloorSetInstance.write_yaml_FPEF / write_yaml_DIEF -> Netlist(...) / Die(...)
  solnet     rect_io.solution_to_netlist         -> Netlist(...)
  allocnet   rect_io.get_netlist(None, alloc)    -> Netlist(...)
  legal      legalfloor Model.get_netlist        -> Netlist(...)   (model built, never solved)

Correspondence: the document tree the model produces against the tree ruamel reads from the text
the real producer wrote, and the model of the reader against the real reader on that text.
Direct oracle (property text only): the reader accepts the document, the loaded design equals the
written one field by field, producing twice gives byte-identical documents, the object is unchanged.

Entry forms: every produced document goes back through every form the readers take (frame/utils/utils.py
read_yaml): the text write_yaml() returned, the file write_yaml(name) wrote (by name and as an open stream)
and the tree; the route read_yaml took (text / file name / stream / tree) is compared with the model
(Yaml/ProducersText.v), the text itself (': ' present, number of line breaks) with text_of of the model's tree."""
from __future__ import annotations

import contextlib
import copy
import inspect
import io
import json
import os
import random
import tempfile
import time
from fractions import Fraction as F

from harness import core, fr
from harness.core import gq, gbool, gstr, glist, gopt, gnat
from harness.props import netlist_common as nc
from harness.props import alloc_common as ac
from harness.props import c01
from harness.props.netlist_common import val, close, gtree, from_py, to_py

HEADER = """From FrameModel Require Import Num.QcTac Geometry.Rect Cases.Cmp Alloc.Alloc Cases.CmpAlloc Yaml.Tree
  Yaml.NetlistRead Yaml.NetlistWrite Cases.CmpC0405 Yaml.Netgen Yaml.DieAlloc Yaml.Producers Cases.CmpC19
  Yaml.ProducersText Cases.CmpC19Free Cases.CmpC19Text.
Open Scope Qc_scope."""

ASSUMPTIONS = [
    "the YAML text layer (ruamel) is exercised on every case but not modelled: models produce / consume document trees; "
    "in the entry-form theorems it is a Section variable with the contract load (dump t) = t and 'the written text shows "
    "': ' and line breaks as text_of t says' (block style) - the second part is compared with the real text on every "
    "document; where only that layout differs the run prints a note, not a violation (the layout is not part of the property)",
    "entry forms: the route read_yaml took is read off the outcome (a file name can only be accepted by opening the file; a "
    "text taken for a file name gives an OSError; a stream that fails unread was refused) and off builtins.open; file names "
    "are plain paths without ': ' and line breaks; the tree form is the tree ruamel loads from the text",
    "documents are compared by what they say: modules, nets, rectangles, cells and the ratios of a cell in order; the "
    "attributes of a module, the areas per region and the top-level keys in any order; die regions per class (blockages, "
    "specialised) in order",
    "inputs are dyadic (k/8 below 2^10) so that binary64 is exact; quotients (centroids, incremental centres, w*alpha, "
    "pin +- 1e-3) are compared within a few roundings; the int/float form of a written number is not compared",
    "the ground regions of a die are derived data (never written): the reloaded die must cover the same ground area; "
    "the fixed/hard tag of an allocation cell is derived from the netlist and is not part of the allocation format",
    "netgen domains judged by the oracle: chain/ring/star n>=1, ring-star n>=2, one-net n>=2, grid rows,cols>=1, "
    "h-tree levels>=1; outside them model and implementation are still compared (both reject / both accept)",
    "FloorSet: strop_decomposition is taken as given (C15); polygons are simple single-trunk orthogons; "
    "the density factor alpha is read back from the instance",
    "string builders (rect_io, legalfloor): module names that YAML reads as null/true/false are outside the model "
    "(direct oracle only); legalfloor models are built with GEKKO(remote=False) and never solved",
]

PRODUCER = {"die": "Die.write_yaml", "alloc": "Allocation.write_yaml", "netgen": "netgen",
            "named": "dump_yaml_namededges", "floorset": "FloorSetInstance", "solnet": "rect_io.solution_to_netlist",
            "allocnet": "rect_io.get_netlist", "legal": "legalfloor.get_netlist"}

# classes of loss that the string builders are known for (open findings)
DROPS = {"net-weight", "terminal", "flip", "aspect-ratio", "region-areas", "rect-region"}
YAML_WORDS = {"null", "Null", "NULL", "true", "True", "TRUE", "false", "False", "FALSE"}
# valid identifiers that are prefixes of each other, look like YAML 1.1 / 1.2 scalars of another type, or like numbers
ODD_NAMES = ["M1", "M10", "M1_0", "M_", "y", "n", "yes", "No", "on", "off", "null", "true", "True", "NULL", "x", "e5",
             "inf", "nan", "_1", "_0x1F", "O0"]

_TMP = {"dir": None}


# --------------------------------------------------------------------------
# small helpers
# --------------------------------------------------------------------------
def yload(text):
    from ruamel.yaml import YAML
    try:
        return from_py(YAML(typ="safe").load(text)), None
    except Exception as e:
        return None, f"{type(e).__name__}: {str(e)[:200]}"


def doc_tree(doc):
    """the tree of a document a producer handed to the reader: parsed by ruamel when it is a text"""
    if isinstance(doc, str):
        return yload(doc)
    try:
        return from_py(doc), None
    except Exception as e:
        return None, f"{type(e).__name__}: {str(e)[:200]}"


def doc_text(doc):
    """for the byte-for-byte comparison of two documents"""
    return doc if isinstance(doc, str) else repr(doc)


# --------------------------------------------------------------------------
# the entry forms of the readers (frame/utils/utils.py read_yaml)
# --------------------------------------------------------------------------
FORMS = ("text", "file", "stream", "tree")
_DOCS = {"dir": None, "n": 0}
_ROUTES = []          # (case, label, [(form expression, observed route)], text abstraction) of the run
_STREAMS = []         # cases in which read_yaml refused the open stream by its assertion


def new_path():
    """a fresh file name without ': ' and without line break (read_yaml must take it for a file name)"""
    d = _DOCS["dir"] or tempfile.gettempdir()
    _DOCS["n"] += 1
    p = os.path.join(d, f"doc_{_DOCS['n']}.yaml")
    assert ": " not in p and "\n" not in p
    return p


def text_abs(s):
    """what read_yaml looks at in a string: contains ': ', number of line breaks"""
    return [": " in s, s.count("\n")]


def gabs(a):
    return f"(mkText {gbool(a[0])} {core.gz(a[1])})"


_LAYOUT = {"on": True}


def layout(tree_expr, text):
    """[text_ok tree text]: the text write_yaml wrote looks (': ', line breaks) as the model's block style says.
    The layout of the text is not part of the property: a mismatch alone is reported as a note (run())."""
    return [f"text_ok {tree_expr} {gtext(text)}"] if _LAYOUT["on"] else []


def gtext(s):
    """the abstraction of a text: computed by the model from the text itself when it is short"""
    if len(s) <= 1500 and all(32 <= ord(c) < 127 or c == "\n" for c in s):
        return '(abs_of_string "' + s.replace('"', '""') + '"%string)'      # line breaks stay as they are
    return gabs(text_abs(s))


def safe_tree(text):
    from ruamel.yaml import YAML
    try:
        return YAML(typ="safe").load(text), None
    except Exception as e:
        return None, f"{type(e).__name__}: {str(e)[:200]}"


def feed(reader, text, path, eps=None, forms=FORMS, tree=None):
    """The written document through every entry form of a reader.  reader(src) -> observation (or raises).
    Returns form -> {"ok", "obs" | "err", "route"}; route is what read_yaml did with the argument: ParseText /
    OpenFile, ReadStream / AssertFails (refused unread), UseTree; None when the outcome does not tell."""
    import builtins
    tree_py = to_py(tree) if tree is not None else safe_tree(text)[0]      # tree: what ruamel loaded from the text
    res = {}
    for form in forms:
        if form == "tree" and not isinstance(tree_py, (list, dict)):
            continue
        reset_eps(eps)
        opened, fh = [], None
        orig = builtins.open
        r = {"ok": False, "err": "OSError: the file could not be opened"}
        try:
            if form == "text":
                src = text
            elif form == "file":
                src = path
            elif form == "stream":
                src = fh = orig(path)
            else:
                src = copy.deepcopy(tree_py)

            def spy(*a, **k):
                if a and isinstance(src, str) and a[0] == src:
                    opened.append(1)
                return orig(*a, **k)
            builtins.open = spy
            try:
                r = {"ok": True, "obs": reader(src)}
            except Exception as e:
                r = {"ok": False, "err": f"{type(e).__name__}: {str(e)[:200]}", "oserror": isinstance(e, OSError)}
        finally:
            builtins.open = orig
            # the route is read off the outcome (and off open() when it went through builtins.open): a file
            # name can only be accepted by opening the file, a text that is taken for a file name gives an
            # OSError; a stream that fails without having been read was refused before reading
            if form == "text":
                r["route"] = "OpenFile" if (opened or r.get("oserror")) else ("ParseText" if r["ok"] else None)
            elif form == "file":
                r["route"] = "OpenFile" if (opened or r["ok"] or r.get("oserror")) else None
            elif form == "stream":
                try:
                    touched = fh is not None and fh.tell() != 0
                except ValueError:          # closed by the reader: it was used
                    touched = True
                r["route"] = "ReadStream" if (touched or r["ok"]) else "AssertFails"
                if fh is not None:
                    fh.close()
            else:
                r["route"] = "UseTree"
        res[form] = r
    reset_eps()
    return res


def forms_summary(res):
    """the other forms against the text form (the observations themselves are kept once)"""
    base = res["text"]
    out = {}
    for f, r in res.items():
        out[f] = {"ok": r["ok"], "err": r.get("err"), "route": r["route"],
                  "same": (r["ok"] == base["ok"]) and (not r["ok"] or repr(r["obs"]) == repr(base["obs"]))}
    return out


def read_file(path):
    try:
        with open(path) as f:
            return f.read()
    except OSError as e:
        return None


def judge_text(text, forms, what):
    """the text form: accepted; a text without ': ' that the reader takes for a file name is the
    open finding on read_yaml"""
    f = forms["text"]
    if f["ok"]:
        return None
    if ": " not in text and f["route"] == "OpenFile":
        return (f"text-without-colon-space: the {what} written by write_yaml() has no ': ' "
                f"({len(text)} characters) and the reader takes it for a file name: {f['err'][:120]}")
    return f"rejected: the written {what} is not accepted back: {f['err']}"


def judge_forms(case, text, ftext, forms, what):
    """the file write_yaml(name) wrote is the document write_yaml() returned; every other entry form is
    accepted and gives what the text form gave.  A stream refused by read_yaml's own assertion is
    recorded aside (open finding on read_yaml), not judged here."""
    if ftext is not None and ftext != text:
        return f"file-differs: write_yaml(file name) wrote another document than write_yaml() returned ({what})"
    for f in ("tree", "file", "stream"):
        r = forms.get(f)
        if r is None:
            continue
        if f == "stream" and not r["ok"] and r["route"] == "AssertFails":
            if case is not None and all(c is not case for c in _STREAMS):
                _STREAMS.append(case)
            continue
        if not r["ok"] and forms["text"]["ok"]:
            return f"form-{f}: the written {what} is accepted as a text but not as a {f}: {r['err']}"
        if not r["same"]:
            return f"form-{f}: the written {what} read as a {f} differs from the same document read as a text"
    return None


def note_routes(entry):
    if _LAYOUT["on"]:          # off during the re-evaluation of run()
        _ROUTES.append(entry)


def groutes(text, path, forms):
    """[(form expression of the model, observed route)]"""
    a = gabs(text_abs(text))
    fe = {"text": f"(FText {a})", "file": f"(FName {gabs(text_abs(path))})", "stream": f"(FStream {a})", "tree": "FTree"}
    return [(f, fe[f], r["route"]) for f, r in forms.items() if r["route"]]


def reset_eps(eps=None):
    from frame.geometry.geometry import Rectangle
    Rectangle.undefine_epsilon()
    if eps is not None:
        Rectangle.set_epsilon(float(eps[0]), float(eps[1]))


def robs(r):
    return {"cx": r.center.x, "cy": r.center.y, "w": r.shape.w, "h": r.shape.h, "fixed": bool(r.fixed),
            "hard": bool(r.hard), "region": r.region, "loc": fr.LOCS[r.location.name]}


def rkey(r):
    return (val(r["cx"]), val(r["cy"]), val(r["w"]), val(r["h"]), r["region"])


def gnl(o):
    """the real reader's verdict on a netlist document as a Gallina nl_observed"""
    if o is None or o.get("verdict") != "ok":
        return "NRejected"
    n = o["n"]
    return ("(NLoaded " + glist([nc.gmodule(m) for m in n["modules"]]) + " "
            + glist([f"(mkNet {glist([gstr(b) for b in e['members']])} {gq(val(e['weight']))})" for e in n["edges"]]) + ")")


def load_netlist(src):
    n, v = nc.load(src)
    if n is not None:
        v = dict(v, n=nc.netlist_obs(n))
    return n, v


# --------------------------------------------------------------------------
# a netlist document back through every entry form of Netlist(...), then reloaded and rewritten
# --------------------------------------------------------------------------
def netlist_back(doc, path=None, rewrite=True, tree=None):
    """doc: the text (or, for the tools that hand a tree to the reader, the tree) of a produced netlist.
    path: the file the producer itself wrote, when it can; otherwise the text is saved as the tools do.
    Returns {"load": verdict of the reader on the document (+ "n": observation), "forms", "ftext", "path",
    "rw": the reloaded netlist written again (w1), read again (n2) and written once more (w2)}"""
    from frame.netlist.netlist import Netlist
    rd = lambda src: nc.netlist_obs(Netlist(src))
    back = {"forms": None, "ftext": None, "path": None, "rw": None}
    if isinstance(doc, str):
        if path is None:
            path = new_path()
            with open(path, "w") as f:
                f.write(doc)
        res = feed(rd, doc, path, tree=tree)
        base = res["text"]
        back.update(forms=forms_summary(res), ftext=read_file(path), path=path)
    else:
        reset_eps()
        try:
            base = {"ok": True, "obs": rd(copy.deepcopy(doc))}
        except Exception as e:
            base = {"ok": False, "err": f"{type(e).__name__}: {str(e)[:200]}"}
    if base["ok"]:
        back["load"] = {"verdict": "ok", "n": base["obs"]}
    else:
        back["load"] = {"verdict": "reject" if base["err"].startswith("AssertionError") else "exception",
                        "msg": base["err"]}
    if rewrite and base["ok"]:
        rw = {"n2": None}
        try:
            reset_eps()
            n1 = Netlist(doc if isinstance(doc, str) else copy.deepcopy(doc))
            rw["w1"] = n1.write_yaml()
            rw["tree"], _ = yload(rw["w1"])
            reset_eps()
            n2 = Netlist(rw["w1"])
            rw["n2"] = nc.netlist_obs(n2)
            rw["w2"] = n2.write_yaml()
        except Exception as e:
            rw["err"] = f"{type(e).__name__}: {str(e)[:200]}"
        back["rw"] = rw
    reset_eps()
    return back


def same_design_ordered(a, b):
    """two loaded netlists say the same thing: modules in order with kinds, areas, centres, aspect ratios and the
    rectangles IN THEIR ORDER (the first one is the trunk) with their regions; nets in order with weights"""
    if [m["name"] for m in a["modules"]] != [m["name"] for m in b["modules"]]:
        return f"modules {[m['name'] for m in a['modules']]} became {[m['name'] for m in b['modules']]}"
    for m, r in zip(a["modules"], b["modules"]):
        nm = m["name"]
        if (m["terminal"], m["hard"], m["fixed"], m["flip"]) != (r["terminal"], r["hard"], r["fixed"], r["flip"]):
            return f"module {nm}: kind (terminal, hard, fixed, flip) changes"
        ra = [(val(x["x"]), val(x["y"]), val(x["w"]), val(x["h"]), x["region"]) for x in m["rects"]]
        rb = [(val(x["x"]), val(x["y"]), val(x["w"]), val(x["h"]), x["region"]) for x in r["rects"]]
        if ra != rb:
            return (f"module {nm}: rectangles {[tuple(float(v) for v in x[:4]) + (x[4],) for x in ra]} became "
                    f"{[tuple(float(v) for v in x[:4]) + (x[4],) for x in rb]}")
        aa, ab = dict((k, val(v)) for k, v in m["area_regions"]), dict((k, val(v)) for k, v in r["area_regions"])
        if set(aa) != set(ab) or any(not close(aa[k], ab[k]) for k in aa):
            return f"module {nm}: areas {m['area_regions']} became {r['area_regions']}"
        for fld in ("center", "ar"):
            if (m[fld] is None) != (r[fld] is None) or (m[fld] is not None and not (
                    close(m[fld][0], r[fld][0]) and close(m[fld][1], r[fld][1]))):
                return f"module {nm}: {fld} {m[fld]} became {r[fld]}"
    ea = [(e["members"], val(e["weight"])) for e in a["edges"]]
    eb = [(e["members"], val(e["weight"])) for e in b["edges"]]
    if ea != eb:
        return "the nets or their weights change"
    return None


def judge_back(case, doc, back, what):
    """every entry form says what the text said; the reloaded netlist is written, read and written again unchanged"""
    if back.get("forms"):
        why = judge_forms(case, doc, back["ftext"], back["forms"], what)
        if why:
            return why
    rw = back.get("rw")
    if rw and back["load"]["verdict"] == "ok":
        if rw["n2"] is None:
            return f"rewrite-rejected: the {what} is accepted, written again and then not accepted: {rw.get('err', '')}"
        why = same_design_ordered(back["load"]["n"], rw["n2"])
        if why:
            return f"rewrite-changes: the {what} reloaded, written and read again is another design: {why}"
    return None


def coq_back(back, label, case, size_limit=400):
    """model side of netlist_back: the text abstraction of the document is compared by the caller; here the routes
    are filed and the model of the reader is run on the rewritten document"""
    parts = []
    rw = back.get("rw")
    if rw and rw.get("n2") is not None and rw.get("tree") is not None and ascii_ok(rw["tree"]) \
            and len(rw["n2"]["modules"]) <= size_limit and any(len(m["rects"]) >= 2 for m in rw["n2"]["modules"]):
        # the trunk of a module with several rectangles is chosen again at every load (create_stog)
        parts.append(f"loaded_ok None {gtree(rw['tree'])} {gnl({'verdict': 'ok', 'n': rw['n2']})}")
        parts += layout(gtree(rw["tree"]), rw["w1"])
    return parts


def file_routes(case, label, doc, back):
    if back.get("forms") and isinstance(doc, str):
        note_routes((case, label, groutes(doc, back["path"], back["forms"]), text_abs(doc)))


def gotree(t):
    return "None" if t is None else f"(Some {gtree(t)})"


def ascii_ok(t):
    return nc.exact_doc(t)


def design_of(nobs):
    """the fields the property names, from an observation of a loaded netlist"""
    mods = []
    for m in nobs["modules"]:
        mods.append({"name": m["name"], "kind": (m["terminal"], m["hard"], m["fixed"]), "flip": m["flip"],
                     "areas": {k: val(v) for k, v in m["area_regions"]}, "ar": m["ar"], "center": m["center"],
                     "rects": sorted((val(r["x"]), val(r["y"]), val(r["w"]), val(r["h"]), r["region"]) for r in m["rects"]),
                     "rects_in_order": [(val(r["x"]), val(r["y"]), val(r["w"]), val(r["h"]), r["region"]) for r in m["rects"]]})
    nets = [(list(e["members"]), val(e["weight"])) for e in nobs["edges"]]
    return mods, nets


# --------------------------------------------------------------------------
# die
# --------------------------------------------------------------------------
def gen_die(rng):
    nx, ny = rng.choice([1, 2, 3, 4, 5]), rng.choice([1, 2, 3, 4, 5])
    q = rng.choice([F(1, 8), F(1, 4), F(1, 2), F(1)])
    xs = c01.lattice_lines(rng, nx, q, 96)
    ys = c01.lattice_lines(rng, ny, q, 96)
    rects = c01.place_regions(rng, nx, ny, rng.randrange(0, 7), "random")
    regions = []
    for (i0, j0, i1, j1) in rects:
        regions.append([(xs[i0] + xs[i1]) / 2, (ys[j0] + ys[j1]) / 2, xs[i1] - xs[i0], ys[j1] - ys[j0],
                        rng.choice(["#", "#", "BRAM", "DSP", "reg1", "_x", "null", "y"])])
    op = None
    r = rng.random()
    if r < 0.45:
        op = ["split", rng.choice([F(3, 2), F(2), F(3), F(4)]), rng.choice([1, 2, 3, 5, 8, 12])]
    elif r < 0.55 and not regions:
        op = ["grid", rng.randrange(1, 4), rng.randrange(2, 4)]
    return {"prod": "die", "W": xs[-1], "H": ys[-1], "regions": regions, "op": op}


def gen_big_die(rng, n, k):
    """a die with many regions on an n x n lattice; integral numbers written as ints; odd region names"""
    q = rng.choice([F(1, 4), F(1, 2), F(1)])
    xs = c01.lattice_lines(rng, n, q, 8 * n)
    ys = c01.lattice_lines(rng, n, q, 8 * n)
    rects = c01.place_regions(rng, n, n, k, "random")
    names = ["#", "#", "BRAM", "DSP"] + ODD_NAMES
    regions = [[(xs[i0] + xs[i1]) / 2, (ys[j0] + ys[j1]) / 2, xs[i1] - xs[i0], ys[j1] - ys[j0], rng.choice(names)]
               for (i0, j0, i1, j1) in rects]
    op = rng.choice([None, None, ["split", rng.choice([F(2), F(3)]), rng.choice([3, 8, 20])]])
    return {"prod": "die", "W": xs[-1], "H": ys[-1], "regions": regions, "op": op, "ints": rng.random() < 0.5}


def big_die_cases(rng, quick):
    sizes = [(8, 20), (12, 40)] if quick else [(8, 20), (12, 40), (10, 30), (14, 60), (16, 90), (12, 0), (9, 25), (20, 120)]
    return [gen_big_die(rng, n, k) for n, k in sizes]


def die_obs(d):
    return {"W": d.width, "H": d.height, "blockages": [robs(r) for r in d.blockages],
            "spec": [robs(r) for r in d.specialized_regions], "ground": [robs(r) for r in d.ground_regions]}


def run_die(case):
    from frame.die.die import Die
    reset_eps()
    num = (lambda v: int(v) if (case.get("ints") and F(v).denominator == 1) else float(v))
    tree = {"width": num(case["W"]), "height": num(case["H"])}
    if case["regions"]:
        tree["regions"] = [[num(v) for v in r[:4]] + [r[4]] for r in case["regions"]]
    pre = None
    try:
        d = Die(tree)
        if case["op"]:
            # the die is written before it is refined in place, too
            pre = {"before": die_obs(d), "t": d.write_yaml()}
        if case["op"] and case["op"][0] == "split":
            d.split_refinable_regions(float(case["op"][1]), case["op"][2])
        elif case["op"] and case["op"][0] == "grid":
            d.initial_grid(case["op"][1], case["op"][2])
    except (AssertionError, IndexError, ZeroDivisionError) as e:     # not a die / nothing to refine (C01, C11)
        return {"built": False, "msg": str(e)[:200]}
    before = die_obs(d)
    t1 = d.write_yaml()
    mid = die_obs(d)
    path = new_path()
    d.write_yaml(path)
    t2 = d.write_yaml()
    after = die_obs(d)
    tree1, err = yload(t1)
    obs = {"built": True, "before": before, "t1": t1, "t2": t2, "unchanged": before == mid == after,
           "tree1": tree1, "tree_err": err, "ftext": read_file(path), "path": path}
    res = feed(lambda src: die_obs(Die(src)), t1, path, tree=tree1)
    obs["loaded"] = res["text"].get("obs")
    obs["msg"] = res["text"].get("err", "")
    obs["forms"] = forms_summary(res)
    obs["t3"] = d.write_yaml()              # once more, after the readers have run
    if pre is not None:
        reset_eps()
        try:
            pre["loaded"] = die_obs(Die(pre["t"]))
        except Exception as e:
            pre["loaded"], pre["msg"] = None, f"{type(e).__name__}: {str(e)[:200]}"
        reset_eps()
        obs["pre"] = pre
    return obs


def gdie(o):
    return (f"(mkDie {gq(val(o['W']))} {gq(val(o['H']))} {glist([fr.grect(r) for r in o['blockages']])} "
            f"{glist([fr.grect(r) for r in o['spec']])})")


def coq_die(case, obs):
    if not obs["built"] or obs["tree1"] is None:
        return "true"
    note_routes((case, "die", groutes(obs["t1"], obs["path"], obs["forms"]), text_abs(obs["t1"])))
    parts = [f"die_ok {gdie(obs['before'])} {gtree(obs['tree1'])} "
             f"{gopt(None if obs['loaded'] is None else gdie(obs['loaded']))}"] + layout(gtree(obs["tree1"]), obs["t1"])
    pre = obs.get("pre")
    if pre:
        ptree, _ = yload(pre["t"])
        if ptree is not None:
            parts.append(f"die_ok {gdie(pre['before'])} {gtree(ptree)} "
                         f"{gopt(None if pre['loaded'] is None else gdie(pre['loaded']))}")
            parts += layout(gtree(ptree), pre["t"])
    return " && ".join(f"({x})" for x in parts)


def cover_area(r, others):
    b = ac.cbox({"rect": r})
    return sum(ac.ovl(b, ac.cbox({"rect": o})) for o in others)


def oracle_die(case, obs):
    if not obs["built"]:
        return None
    why = judge_text(obs["t1"], obs["forms"], "die")
    if why:
        return why
    why = same_die(obs["before"], obs["loaded"])
    if why:
        return why
    if obs.get("pre"):
        if obs["pre"]["loaded"] is None:
            return f"rejected: the die written before its refinement is not accepted back: {obs['pre'].get('msg')}"
        why = same_die(obs["pre"]["before"], obs["pre"]["loaded"])
        if why:
            return why + " (written before the refinement)"
    if obs["t1"] != obs["t2"] or obs["t1"] != obs["t3"]:
        return "rewrite-differs: a later document differs from the first"
    if not obs["unchanged"]:
        return "mutated: writing changed the die"
    return judge_forms(case, obs["t1"], obs["ftext"], obs["forms"], "die")


def same_die(a, b):
    if val(a["W"]) != val(b["W"]) or val(a["H"]) != val(b["H"]):
        return f"size: die {a['W']} x {a['H']} reloaded as {b['W']} x {b['H']}"
    if [rkey(r) for r in a["blockages"]] != [rkey(r) for r in b["blockages"]]:
        return f"blockages: {[rkey(r) for r in a['blockages']]} reloaded as {[rkey(r) for r in b['blockages']]}"
    if [rkey(r) for r in a["spec"]] != [rkey(r) for r in b["spec"]]:
        return f"regions: specialised regions {[rkey(r) for r in a['spec']]} reloaded as {[rkey(r) for r in b['spec']]}"
    ga = sum(val(r["w"]) * val(r["h"]) for r in a["ground"])
    gb = sum(val(r["w"]) * val(r["h"]) for r in b["ground"])
    tol = F(1, 10 ** 9) * val(a["W"]) * val(a["H"])
    if abs(ga - gb) > tol:
        return f"ground: ground area {float(ga)} reloaded as {float(gb)}"
    for r in a["ground"]:
        if abs(cover_area(r, b["ground"]) - val(r["w"]) * val(r["h"])) > tol:
            return f"ground: ground rectangle {rkey(r)} is not ground in the reloaded die"
    return None


# --------------------------------------------------------------------------
# allocation
# --------------------------------------------------------------------------
def _exact_alloc_case(rng):
    """alloc_common also generates decimal cases (oracle-only there); the C19 model comparison needs exact ones."""
    while True:
        c = ac.gen_case(rng)
        if c.get("stream") != "decimal":
            return c


def gen_alloc_case(rng):
    c = _exact_alloc_case(rng)
    for cell in c["cells"]:           # the region of a cell: any identifier the Rectangle class takes
        if rng.random() < 0.15:
            cell["rect"]["region"] = rng.choice(["lut", "null", "y", "R_1"])
    return {"prod": "alloc", "cells": c["cells"], "ops": c["ops"], "eps": c["eps"], "aeps": c["aeps"]}


def grid_alloc_case(rng, n, pattern, ops, lim, order="rows"):
    """an n x n grid of cells (the shape of the initial allocation of a die after initial_grid(n, n)), sparsely
    occupied: pattern = empty (no occupied cell) | last (only the last cell) | first | late (the first occupied cell
    comes after at least 72 empty ones) | sparse | dense"""
    s = rng.choice([F(1, 2), F(1), F(2), F(4)])
    odd = rng.random() < 0.5
    idx = list(range(n * n))
    if pattern == "empty":
        occ = set()
    elif pattern == "last":
        occ = {n * n - 1}
    elif pattern == "first":
        occ = {0}
    elif pattern == "late":
        lo = min(n * n - 1, rng.randrange(72, max(73, n * n)))
        occ = {lo} | {i for i in idx[lo:] if rng.random() < 0.15}
    elif pattern == "sparse":
        occ = {i for i in idx if rng.random() < 0.04} or {rng.randrange(n * n)}
    else:
        occ = {i for i in idx if rng.random() < 0.7}
    cells = []
    for k in idx:
        i, j = k % n, k // n
        r = {"cx": (i + F(1, 2)) * s, "cy": (j + F(1, 2)) * s, "w": s, "h": s, "fixed": False, "hard": False,
             "region": "_", "loc": "NOPOLY"}
        al = []
        if k in occ:
            names = rng.sample(ODD_NAMES if odd else ac.MODS, rng.randrange(1, 3))
            al = [[m, rng.choice([F(1, 8), F(1, 4), F(1, 2), F(3, 4), F(1), F(15, 16)])] for m in names]
        if odd and rng.random() < 0.1:
            r["region"] = rng.choice(ODD_NAMES)
        cells.append({"rect": r, "alloc": al, "depth": 0})
    # the order in which the cells are listed: rows bottom-up (initial_grid), top-down, columns, reversed, shuffled;
    # the occupancy pattern refers to the grid index, so 'last' may be listed first
    if order == "topdown":
        cells = [cells[j * n + i] for j in reversed(range(n)) for i in range(n)]
    elif order == "columns":
        cells = [cells[j * n + i] for i in range(n) for j in range(n)]
    elif order == "reversed":
        cells = cells[::-1]
    elif order == "shuffled":
        rng.shuffle(cells)
    return {"prod": "alloc", "cells": cells, "ops": ops, "eps": F(1, 2 ** 20), "aeps": F(1, 2 ** 10), "big": lim,
            "grid": [n, pattern, order]}


def big_alloc_cases(rng, quick):
    """the size / sparsity extremes: the text of a large sparse allocation has its first ': ' far from the start"""
    R = lambda t, l: ["refine", t, l]
    cases = [grid_alloc_case(rng, 3, "empty", [R(F(1, 2), 1)], 400),
             grid_alloc_case(rng, 9, "last", [R(F(1, 4), 1)], 400),
             grid_alloc_case(rng, 14, "empty", [], 400),
             grid_alloc_case(rng, 14, "late", [R(F(1, 4), 1), R(F(1, 2), 1)], 600),
             grid_alloc_case(rng, 12, "first", [R(F(1, 2), 1)], 400, "reversed"),
             grid_alloc_case(rng, 20, "last", [], 600)]
    if quick:
        return cases
    cases += [grid_alloc_case(rng, 14, "last", [R(F(1, 2), 2)], 400),
              grid_alloc_case(rng, 20, "late", [R(F(1, 2), 1)], 600),
              grid_alloc_case(rng, 20, "last", [R(F(1, 2), 2), R(F(3, 4), 2)], 2500),
              grid_alloc_case(rng, 20, "sparse", [R(F(1, 4), 2), R(F(1, 2), 1), ["uniform"]], 2500),
              grid_alloc_case(rng, 20, "dense", [R(F(1), 1)], 2500),
              grid_alloc_case(rng, 24, "late", [R(F(1, 2), 3)], 2500)]
    for _ in range(14):
        n = rng.choice([10, 12, 14, 16, 20])
        ops = [R(rng.choice([F(1, 4), F(1, 2), F(3, 4), F(1)]), rng.choice([1, 1, 2, 3])) for _ in range(rng.randrange(0, 4))]
        if rng.random() < 0.3:
            ops.append([rng.choice(["uniform", "griddify"])])
        cases.append(grid_alloc_case(rng, n, rng.choice(["empty", "last", "first", "late", "late", "sparse", "dense"]),
                                     ops, 1500, rng.choice(["rows", "topdown", "columns", "reversed", "shuffled"])))
    return cases


def write_read_alloc(a, eps):
    from frame.allocation.allocation import Allocation
    before = ac.alloc_obs(a)
    t1 = a.write_yaml()
    mid = ac.alloc_obs(a)
    path = new_path()
    a.write_yaml(path)
    t2 = a.write_yaml()
    after = ac.alloc_obs(a)
    tree1, err = yload(t1)
    st = {"before": before, "t1": t1, "t2": t2, "unchanged": before == mid == after, "tree1": tree1, "tree_err": err,
          "ftext": read_file(path), "path": path}
    res = feed(lambda src: ac.alloc_obs(Allocation(src)), t1, path, eps, tree=tree1)
    st["loaded"] = res["text"].get("obs")
    st["msg"] = res["text"].get("err", "")
    st["forms"] = forms_summary(res)
    reset_eps(eps)
    st["t3"] = a.write_yaml()               # once more, after the readers have run
    return st


# cells beyond which the model of the reader (quadratic: no_overlap) is not evaluated: writer's tree and text only
MODEL_READ_CELLS = 450


def run_alloc(case):
    eps = (case["eps"], case["aeps"])
    big = case.get("big")
    lim = (big or 120)
    reset_eps(eps)
    try:
        try:
            a = ac.build_alloc(case["cells"])
        except (AssertionError, ZeroDivisionError):
            return {"built": False}
        stages = [write_read_alloc(a, eps)]
        for o in case["ops"]:
            if len(a.allocations) > lim // 2:
                break
            try:
                if o[0] == "refine":
                    # at most every cell splits into 2 ** levels
                    if not big and len(a.allocations) * 2 ** o[2] > lim:
                        break
                    b = a.refine(float(o[1]), o[2])
                    if len(b.allocations) > lim:
                        break
                    a = b
                elif o[0] == "uniform":
                    md = max(x.depth for x in a.allocations)
                    if sum(2 ** (md - x.depth) for x in a.allocations) > lim:
                        break
                    a = a.uniform_refinement_depth()
                else:
                    a = a.griddify()
            except (AssertionError, ZeroDivisionError, IndexError):
                break
            stages.append(write_read_alloc(a, eps))
        return {"built": True, "stages": stages}
    finally:
        reset_eps()


def coq_alloc(case, obs):
    if not obs["built"]:
        return "true"
    parts = []
    for k, st in enumerate(obs["stages"]):
        if st["tree1"] is None:
            continue
        note_routes((case, f"allocation stage {k}", groutes(st["t1"], st["path"], st["forms"]), text_abs(st["t1"])))
        if len(st["before"]["cells"]) > MODEL_READ_CELLS:
            parts.append(f"(alloc_write_ok {ac.gcells(st['before']['cells'])} {gtree(st['tree1'])})")
            parts += [f"({x})" for x in layout(gtree(st["tree1"]), st["t1"])]
            continue
        loaded = gopt(None if st["loaded"] is None else ac.gcells(st["loaded"]["cells"]))
        parts.append(f"(alloc_case_ok {gq(case['aeps'])} {ac.gcells(st['before']['cells'])} {gtree(st['tree1'])} {loaded})")
        parts += [f"({x})" for x in layout(gtree(st["tree1"]), st["t1"])]
    return " && ".join(parts) or "true"


def oracle_alloc(case, obs):
    if not obs["built"]:
        return None
    for k, st in enumerate(obs["stages"]):
        where = "initial allocation" if k == 0 else f"allocation after {case['ops'][k - 1][0]}"
        why = judge_text(st["t1"], st["forms"], where)
        if why:
            return why
        a, b = st["before"], st["loaded"]
        if len(a["cells"]) != len(b["cells"]):
            return f"cells: {len(a['cells'])} cells reloaded as {len(b['cells'])} ({where})"
        for x, y in zip(a["cells"], b["cells"]):
            if rkey(x["rect"]) != rkey(y["rect"]):
                return f"cells: cell {rkey(x['rect'])} reloaded as {rkey(y['rect'])} ({where})"
            if [(m, val(q)) for m, q in x["alloc"]] != [(m, val(q)) for m, q in y["alloc"]]:
                return f"ratios: cell {rkey(x['rect'])} ratios {x['alloc']} reloaded as {y['alloc']} ({where})"
            if x["depth"] != y["depth"]:
                return f"depth: cell {rkey(x['rect'])} depth {x['depth']} reloaded as {y['depth']} ({where})"
        for m in a["areas"]:
            if m not in b["areas"] or not close(a["areas"][m], b["areas"][m]):
                return f"ratios: area of {m} {a['areas'][m]} reloaded as {b['areas'].get(m)} ({where})"
        if st["t1"] != st["t2"] or st["t1"] != st["t3"]:
            return f"rewrite-differs: a later document differs from the first ({where})"
        if not st["unchanged"]:
            return f"mutated: writing changed the allocation ({where})"
        why = judge_forms(case, st["t1"], st["ftext"], st["forms"], where)
        if why:
            return why
    return None


# --------------------------------------------------------------------------
# netgen
# --------------------------------------------------------------------------
TOPOS = ["chain", "ring", "star", "ring-star", "one-net"]


def netgen_cases(quick, rng):
    cases = []
    for t in TOPOS:
        for n in range(0, 41):
            cases.append({"prod": "netgen", "topo": t, "size": [n]})
    for r in range(0, 9):
        for c in range(0, 9):
            cases.append({"prod": "netgen", "topo": "grid", "size": [r, c]})
    for lv in range(0, 5):
        cases.append({"prod": "netgen", "topo": "htree", "size": [lv]})
    for _ in range(6 if quick else 40):
        r, c = rng.randrange(1, 6), rng.randrange(1, 6)
        cases.append({"prod": "netgen", "topo": "grid", "size": [r, c],
                      "centers": [F(c * rng.randrange(1, 40), 4), F(r * rng.randrange(1, 40), 4)],
                      "sd": rng.choice([0, 0, 0, F(1, 10)]), "seed": rng.randrange(1000)})
    return cases


def large_netgen_cases(quick):
    """sizes around the places where a text or a name changes shape (two, three, four digits; 255/256; some
    thousands of characters) and large documents"""
    if quick:
        pick = {"chain": [101], "ring": [100], "star": [64], "ring-star": [100], "one-net": [256]}
    else:
        pick = {t: [64, 99, 100, 101, 255, 256, 257, 512, 1000, 1024] for t in TOPOS}
    cases = [{"prod": "netgen", "topo": t, "size": [n]} for t in TOPOS for n in pick[t]]
    grids = [[2, 101]] if quick else [[16, 16], [3, 101], [101, 3], [32, 32], [1, 300], [300, 1]]
    cases += [{"prod": "netgen", "topo": "grid", "size": g} for g in grids]
    cases += [{"prod": "netgen", "topo": "htree", "size": [lv]} for lv in ([] if quick else [5, 6])]
    cases.append({"prod": "netgen", "topo": "grid", "size": [6, 11] if quick else [12, 12], "centers": [F(48), F(24)],
                  "sd": 0, "seed": 1})
    return cases


def call_netgen(case):
    from tools.netgen import netgen
    from frame.geometry.geometry import Shape
    import random
    t, s = case["topo"], case["size"]
    if t == "grid":
        if case.get("centers"):
            random.seed(case.get("seed", 0))
            return netgen.gen_grid(s[0], s[1], 1, True, float(case.get("sd", 0)),
                                   Shape(float(case["centers"][0]), float(case["centers"][1])))
        return netgen.gen_grid(s[0], s[1], 1)
    f = {"chain": netgen.gen_chain, "ring": netgen.gen_ring, "star": netgen.gen_star,
         "ring-star": netgen.gen_ring_star, "one-net": netgen.gen_one_net, "htree": netgen.gen_htree}[t]
    return f(s[0], 1)


def netgen_main(case, path):
    """the tool's own entry point: writes the netlist into a file"""
    from tools.netgen import netgen
    args = ["-o", path, "--type", case["topo"], "--size"] + [str(x) for x in case["size"]]
    if case.get("centers"):
        args += ["--add-centers", "--die", f"{float(case['centers'][0])}x{float(case['centers'][1])}",
                 "--seed", str(case.get("seed", 0))]
        if case.get("sd"):
            args += ["--add-noise", str(float(case["sd"]))]
    try:
        with contextlib.redirect_stdout(io.StringIO()), contextlib.redirect_stderr(io.StringIO()):
            netgen.main("netgen", args)
        return None
    except BaseException as e:
        return f"{type(e).__name__}: {str(e)[:100]}"


def run_netgen(case):
    from ruamel.yaml import YAML
    try:
        data = call_netgen(case)
        data2 = call_netgen(case)
    except AssertionError as e:
        return {"generated": False, "msg": str(e)[:100]}
    texts = []
    for d in (data, data2):
        yaml = YAML()
        yaml.default_flow_style = False
        s = io.StringIO()
        yaml.dump(d, s)
        texts.append(s.getvalue())
    tree1, err = yload(texts[0])
    path = new_path()
    reset_eps()
    main_err = netgen_main(case, path)
    # reload-and-rewrite matters for modules with rectangles (netgen has none): small and large sizes only
    nm = len(data.get("Modules", {}))
    back = netlist_back(texts[0], path, rewrite=nm <= 6 or 64 <= nm <= 300, tree=tree1)
    return {"generated": True, "data": from_py(data), "t1": texts[0], "t2": texts[1], "tree1": tree1, "tree_err": err,
            "load": back["load"], "back": back, "main_err": main_err}


def gmodel_netgen(case):
    t, s = case["topo"], case["size"]
    one = "1"
    if t == "grid":
        cen = "None"
        if case.get("centers"):
            cen = f"(Some ({gq(case['centers'][0])}, {gq(case['centers'][1])}, (fun _ _ => (0, 0))))"
        return f"(Some (gen_grid {gnat(s[0])} {gnat(s[1])} {one} {cen}))"
    if t == "htree":
        return f"(gen_htree {gnat(s[0])} {one})"
    f = {"chain": "gen_chain", "ring": "gen_ring", "star": "gen_star", "ring-star": "gen_ring_star",
         "one-net": "gen_one_net"}[t]
    return f"(Some ({f} {gnat(s[0])} {one}))"


def coq_netgen(case, obs):
    if not obs["generated"]:
        if case.get("sd"):
            return "true"
        return f"match {gmodel_netgen(case)} with None => true | Some _ => false end"
    if obs["tree1"] is None:
        return "false"
    file_routes(case, "netgen netlist", obs["t1"], obs["back"])
    parts = layout(gtree(obs["tree1"]), obs["t1"])
    if not case.get("sd"):          # random noise: direct oracle only
        parts.append(f"producer_ok 4 {gmodel_netgen(case)} {gotree(obs['tree1'])} {gnl(obs['load'])}")
        parts += coq_back(obs["back"], "netgen", case)
    return " && ".join(f"({x})" for x in parts) or "true"


def netgen_in_domain(case):
    t, s = case["topo"], case["size"]
    if t == "grid":
        return s[0] >= 1 and s[1] >= 1
    return s[0] >= (2 if t in ("ring-star", "one-net") else 1)


def oracle_netgen(case, obs):
    if not netgen_in_domain(case):
        return None
    what = f"{case['topo']} {case['size']}"
    if not obs["generated"]:
        return f"rejected: the generator fails on {what}: {obs['msg']}"
    if obs["load"]["verdict"] != "ok":
        return f"rejected: the generated {what} netlist is not accepted by the reader: {obs['load'].get('msg', '')[:200]}"
    data = obs["data"]
    mods, nets = design_of(obs["load"]["n"])
    want = list(data["Modules"].items())
    if [m["name"] for m in mods] != [k for k, _ in want]:
        return f"modules: generated {len(want)} modules, loaded {[m['name'] for m in mods][:8]}... ({what})"
    for m, (k, info) in zip(mods, want):
        if m["kind"] != (False, False, False) or m["areas"] != {"_": val(info["area"])}:
            return f"kinds: module {k} generated as {info} loaded as {m['kind']} {m['areas']} ({what})"
        if "center" in info and (m["center"] is None or [val(x) for x in m["center"]] != [val(x) for x in info["center"]]):
            return f"centers: module {k} centre {info['center']} loaded as {m['center']} ({what})"
    wantn = []
    for e in data["Nets"]:
        if e and nc.is_num(e[-1]):
            wantn.append((e[:-1], val(e[-1])))
        else:
            wantn.append((list(e), F(1)))
    if [x[0] for x in nets] != [x[0] for x in wantn]:
        return f"nets: generated nets differ from the loaded ones ({what})"
    if nets != wantn:
        return f"weights: generated weights differ from the loaded ones ({what})"
    # the topology itself (independent of the generator's data structure)
    n = case["size"][0]
    exp = expected_topology(case)
    if exp is not None:
        got = sorted((tuple(sorted(a)), w) for a, w in nets)
        if got != sorted((tuple(sorted(a)), w) for a, w in exp[1]) or [m["name"] for m in mods] != exp[0]:
            return f"topology: the loaded netlist is not the {what} it should be"
    if obs["t1"] != obs["t2"]:
        return f"rewrite-differs: generating {what} twice gives different documents"
    if obs["main_err"]:
        return f"rejected: netgen's main does not write the {what} netlist: {obs['main_err']}"
    return judge_back(case, obs["t1"], obs["back"], f"{what} netlist")


def expected_topology(case):
    """(module names, nets as (members, weight)) from the definition of the topology"""
    t, s = case["topo"], case["size"]
    M = lambda i: f"M{i}"
    if t == "grid":
        r, c = s
        names = [f"M{i}_{j}" for i in range(r) for j in range(c)]
        nets = [([f"M{i}_{j}", f"M{i}_{j + 1}"], F(1)) for i in range(r) for j in range(c - 1)] + \
               [([f"M{i}_{j}", f"M{i + 1}_{j}"], F(1)) for i in range(r - 1) for j in range(c)]
        return names, nets
    n = s[0]
    names = [M(i) for i in range(n)]
    if t == "chain":
        return names, [([M(i), M(i + 1)], F(1)) for i in range(n - 1)]
    if t == "ring":
        return names, [([M(i), M((i + 1) % n)], F(1)) for i in range(n)]
    if t == "star":
        return names, [([M(0), M(i)], F(1)) for i in range(1, n)]
    if t == "one-net":
        return names, [(names, F(1))]
    if t == "ring-star":
        ring = [([M(i), M(i + 1)], F(1)) for i in range(1, n - 1)] + [([M(n - 1), M(1)], F(1))]
        return names, ring + [([M(0), M(i)], F(1)) for i in range(1, n)]
    if t == "htree":
        # level-l tree rooted at index f: centre, left, right, four sub-trees
        def size(l):
            return 1 if l == 1 else 3 + 4 * size(l - 1)

        def rec(l, w, f):
            if l == 1:
                return []
            e = [([M(f + 1), M(f)], w), ([M(f + 2), M(f)], w)]
            subs = [f + 3 + k * size(l - 1) for k in range(4)]
            for k, sub in enumerate(subs):
                e.append(([M(f), M(sub)], w))
                e += rec(l - 1, 2 * w, sub)
                e.append(([M(f + 1 + k // 2), M(sub)], w))
            return e
        return [M(i) for i in range(size(n))], rec(n, F(1), 0)
    return None


# --------------------------------------------------------------------------
# dump_yaml_namededges
# --------------------------------------------------------------------------
def gen_named(rng):
    names = ["A", "B", "M0", "T1", "null", "x_9"]
    es = []
    for _ in range(rng.randrange(0, 5)):
        es.append([[rng.choice(names) for _ in range(rng.randrange(2, 5))],
                   rng.choice([1, F(1), F(2), F(5, 2), F(1, 4), 3])])
    return {"prod": "named", "edges": es}


def nedges_obs(es):
    return [[list(e.modules), e.weight] for e in es]


def run_named(case):
    from frame.netlist.netlist_types import NamedHyperEdge
    from frame.netlist.yaml_write_netlist import dump_yaml_namededges
    es = [NamedHyperEdge(list(m), float(w) if isinstance(w, F) else w) for m, w in case["edges"]]
    before = nedges_obs(es)
    out1 = copy.deepcopy(dump_yaml_namededges(es))
    mid = nedges_obs(es)
    out2 = copy.deepcopy(dump_yaml_namededges(es))
    return {"before": from_py(before), "out1": from_py(out1), "mid": from_py(mid), "out2": from_py(out2)}


def gnedges(es):
    return glist([f"(mkNEdge {glist([gtree(x) for x in m])} {gq(val(w))})" for m, w in es])


def coq_named(case, obs):
    b = gnedges(obs["before"])
    return (f"list_eqb (ytree_sim 0) (fst (dump_named {b})) {glist([gtree(e) for e in obs['out1']])} && "
            f"list_eqb nedge_eqb (snd (dump_named {b})) {gnedges(obs['mid'])}")


def oracle_named(case, obs):
    for (m, w), o in zip(obs["before"], obs["out1"]):
        want = list(m) + ([] if val(w) == 1 else [w])
        if [x if isinstance(x, str) else val(x) for x in o] != [x if isinstance(x, str) else val(x) for x in want]:
            return f"nets: edge {m} weight {w} written as {o}"
    if obs["mid"] != obs["before"]:
        return f"mutated: dump_yaml_namededges changed its argument: {obs['before']} became {obs['mid']}"
    if obs["out1"] != obs["out2"]:
        return f"rewrite-differs: second document {obs['out2']} differs from the first {obs['out1']}"
    return None


# --------------------------------------------------------------------------
# FloorSet
# --------------------------------------------------------------------------
def outline(cells):
    """closed boundary loop (counter-clockwise vertex list, collinear points merged) of a hole-free set of unit cells"""
    edges = {}
    for (i, j) in cells:
        for a, b, nb in (((i, j), (i + 1, j), (i, j - 1)), ((i + 1, j), (i + 1, j + 1), (i + 1, j)),
                         ((i + 1, j + 1), (i, j + 1), (i, j + 1)), ((i, j + 1), (i, j), (i - 1, j))):
            if nb not in cells:
                if a in edges:
                    return None
                edges[a] = b
    start = min(edges)
    loop, cur = [start], edges[start]
    while cur != start and len(loop) <= len(edges):
        loop.append(cur)
        cur = edges[cur]
    if len(loop) != len(edges):
        return None
    out = []
    for k, p in enumerate(loop):
        a, b = loop[k - 1], loop[(k + 1) % len(loop)]
        if (a[0] == p[0] == b[0]) or (a[1] == p[1] == b[1]):
            continue
        out.append(p)
    return out


def gen_stog_cells(rng):
    tw, th = rng.randrange(2, 6), rng.randrange(2, 6)
    tx, ty = rng.randrange(2, 6), rng.randrange(2, 6)
    boxes = [(tx, ty, tx + tw, ty + th)]
    for side in rng.sample(["N", "S", "E", "W"], rng.randrange(0, 4)):
        d = rng.randrange(1, 3)
        if side in "NS":
            a = rng.randrange(tx, tx + tw)
            b = rng.randrange(a + 1, tx + tw + 1)
            boxes.append((a, ty + th, b, ty + th + d) if side == "N" else (a, ty - d, b, ty))
        else:
            a = rng.randrange(ty, ty + th)
            b = rng.randrange(a + 1, ty + th + 1)
            boxes.append((tx + tw, a, tx + tw + d, b) if side == "E" else (tx - d, a, tx, b))
    cells = {(i, j) for (x0, y0, x1, y1) in boxes for i in range(x0, x1) for j in range(y0, y1)}
    return cells


def gen_floorset(rng):
    unit = rng.choice([F(1), F(1, 2), F(1, 4)])
    nb = rng.randrange(1, 5)
    blocks = []
    for k in range(nb):
        for _ in range(20):
            cells = gen_stog_cells(rng)
            poly = outline(cells)
            if poly:
                break
        ox = 12 * k
        verts = [[(x + ox) * unit, y * unit] for x, y in poly]
        if rng.random() < 0.5:
            verts = verts[::-1]
        verts.append(verts[0])
        kind = rng.choice(["soft", "soft", "hard", "fixed"])
        area = len(cells) * unit * unit if rng.random() < 0.7 else F(rng.randrange(1, 200), 4)
        blocks.append({"verts": verts, "kind": kind, "area": area})
    W, H = F(rng.randrange(16, 64)), F(rng.randrange(8, 64))
    pins = []
    for _ in range(rng.randrange(1, 7)):
        where = rng.choice(["corner", "left", "right", "bottom", "top", "inside", "inside"])
        x, y = F(rng.randrange(1, int(W) * 8), 8), F(rng.randrange(1, int(H) * 8), 8)
        if where == "corner":
            x, y = rng.choice([F(0), W]), rng.choice([F(0), H])
        elif where == "left":
            x = F(0)
        elif where == "right":
            x = W
        elif where == "bottom":
            y = F(0)
        elif where == "top":
            y = H
        pins.append([x, y])
    if rng.random() < 0.8:
        pins.insert(rng.randrange(len(pins) + 1), [W, rng.choice([F(0), H, F(rng.randrange(0, int(H)))])])
        pins.insert(rng.randrange(len(pins) + 1), [rng.choice([F(0), W, F(rng.randrange(0, int(W)))]), H])
    b2b = [[rng.randrange(nb), rng.randrange(nb), rng.choice([F(0), F(1), F(2), F(5, 2), F(1, 4), F(7)])]
           for _ in range(rng.randrange(0, 5))]
    p2b = [[rng.randrange(len(pins)), rng.randrange(nb), rng.choice([F(0), F(1), F(3), F(3, 2)])]
           for _ in range(rng.randrange(0, 5))]
    return {"prod": "floorset", "blocks": blocks, "pins": pins, "b2b": b2b, "p2b": p2b,
            "tam": rng.random() < 0.5, "density": rng.choice([None, None, None, 0.5, 0.25])}


def fs_instance(case):
    import numpy as np
    from tools.floorset_parser.floor_set_manager.manager import FloorSetInstance
    nb = len(case["blocks"])
    mv = max(len(b["verts"]) for b in case["blocks"])
    vb = -np.ones((nb, mv, 2), dtype=float)
    for i, b in enumerate(case["blocks"]):
        for j, (x, y) in enumerate(b["verts"]):
            vb[i, j, 0], vb[i, j, 1] = float(x), float(y)
    pc = np.zeros((nb, 5), dtype=float)
    for i, b in enumerate(case["blocks"]):
        if b["kind"] == "fixed":
            pc[i, 1] = 1
            pc[i, 0] = 1
        elif b["kind"] == "hard":
            pc[i, 0] = 1
    data = {"area_blocks": np.array([float(b["area"]) for b in case["blocks"]]),
            "b2b_connectivity": np.array([[float(v) for v in e] for e in case["b2b"]], dtype=float).reshape(-1, 3),
            "p2b_connectivity": np.array([[float(v) for v in e] for e in case["p2b"]], dtype=float).reshape(-1, 3),
            "pins_pos": np.array([[float(x), float(y)] for x, y in case["pins"]], dtype=float),
            "placement_constraints": pc, "vertex_blocks": vb,
            "metrics": np.array([0, len(case["pins"])], dtype=float)}
    return FloorSetInstance(data, case["density"], case["tam"])


def fs_state(fp):
    return {"modules": from_py(copy.deepcopy(fp.modules)),
            "nets": from_py([[list(e.modules), float(e.weight)] for e in fp.nets])}


def run_floorset(case):
    from frame.die.die import Die
    try:
        fp = fs_instance(case)
    except (AssertionError, ZeroDivisionError) as e:      # density given but no connection at all
        return {"built": False, "msg": str(e)[:200]}
    before = fs_state(fp)
    t1 = fp.write_yaml_FPEF()
    mid = fs_state(fp)
    path, dpath = new_path(), new_path()
    fp.write_yaml_FPEF(path)
    t2 = fp.write_yaml_FPEF()
    after = fs_state(fp)
    d1 = fp.write_yaml_DIEF()
    fp.write_yaml_DIEF(dpath)
    d2 = fp.write_yaml_DIEF()
    tree1, err = yload(t1)
    dtree, _ = yload(d1)
    back = netlist_back(t1, path, tree=tree1)
    obs = {"built": True, "before": before, "mid": mid, "after": after, "t1": t1, "t2": t2, "d1": d1, "d2": d2,
           "tree1": tree1, "tree_err": err, "dtree": dtree, "load": back["load"], "back": back, "alpha": float(fp._alpha),
           "shape": [float(fp.shape[0]), float(fp.shape[1])], "dpath": dpath, "dftext": read_file(dpath)}
    res = feed(lambda src: (lambda d: [d.width, d.height, len(d.blockages) + len(d.specialized_regions)])(Die(src)),
               d1, dpath, tree=dtree)
    obs["die"] = res["text"].get("obs")
    obs["dforms"] = forms_summary(res)
    return obs


def gbox(b):
    return "(" + ", ".join(gq(val(v)) for v in b) + ")"


def coq_floorset(case, obs):
    if not obs["built"] or obs["tree1"] is None:
        return "true" if not obs["built"] else "false"
    blocks = []
    for i, b in enumerate(case["blocks"]):
        rs = obs["before"]["modules"][f"M{i}"]["rectangles"]
        kind = {"fixed": "FsFixed", "hard": "FsHard", "soft": "FsSoft"}[b["kind"]]
        blocks.append(f"(mkFsBlock {glist([gbox(r) for r in rs])} {kind} {gq(b['area'])})")
    pins = glist([f"({gq(x)}, {gq(y)})" for x, y in case["pins"]])
    # the binary64 product w * alpha is formed here (same operation as the code); the model decides on its sign
    al = obs["alpha"]
    b2b = glist([f"({gnat(int(a))}, {gnat(int(b))}, {gq(float(w) * al)})" for a, b, w in case["b2b"]])
    p2b = glist([f"({gnat(int(a))}, {gnat(int(b))}, {gq(float(w) * al)})" for a, b, w in case["p2b"]])
    doc = (f"(fs_netlist_doc (fs_modules {gbool(case['tam'])} {glist(blocks)} {pins}) "
           f"(fs_nets 1 {b2b} {p2b}))")
    file_routes(case, "FloorSet netlist", obs["t1"], obs["back"])
    parts = [f"producer_ok_noloc 8 (Some (fst {doc})) {gotree(obs['tree1'])} {gnl(obs['load'])}",
             f"list_eqb nedge_eqb (snd {doc}) {gnedges(obs['mid']['nets'])}",
             f"list_eqb nedge_eqb (fs_nets 1 {b2b} {p2b}) {gnedges(obs['before']['nets'])}"]
    parts += layout(gtree(obs["tree1"]), obs["t1"])
    if obs["dtree"] is not None:
        note_routes((case, "FloorSet die", groutes(obs["d1"], obs["dpath"], obs["dforms"]), text_abs(obs["d1"])))
        parts += layout(gtree(obs["dtree"]), obs["d1"])
        parts.append(f"ytree_free 0 (fs_die_doc {pins}) {gtree(obs['dtree'])}")
        want = "None" if obs["die"] is None else \
            f"(Some (mkDie {gq(val(obs['die'][0]))} {gq(val(obs['die'][1]))} [] []))"
        parts.append(f"opt_eqb die_eqb (read_die {gtree(obs['dtree'])}) {want}")
    return " && ".join(f"({p})" for p in parts)


def shoelace(verts):
    s = F(0)
    for (x0, y0), (x1, y1) in zip(verts, verts[1:]):
        s += x0 * y1 - x1 * y0
    return abs(s) / 2


def oracle_floorset(case, obs):
    if not obs["built"]:
        return None
    if obs["load"]["verdict"] != "ok":
        return f"rejected: the FloorSet netlist is not accepted by the reader: {obs['load'].get('msg', '')[:200]}"
    mods, nets = design_of(obs["load"]["n"])
    byname = {m["name"]: m for m in mods}
    nb = len(case["blocks"])
    want_names = [f"M{i}" for i in range(nb)] + [f"T{i}" for i in range(len(case["pins"]))]
    if [m["name"] for m in mods] != want_names:
        return f"modules: expected {want_names}, loaded {[m['name'] for m in mods]}"
    for i, b in enumerate(case["blocks"]):
        m = byname[f"M{i}"]
        kind = {"fixed": (False, True, True), "hard": (False, True, False), "soft": (False, False, False)}[b["kind"]]
        if m["kind"] != kind:
            return f"kinds: block {i} is {b['kind']}, loaded (terminal, hard, fixed) = {m['kind']}"
        written = obs["before"]["modules"][f"M{i}"]["rectangles"]
        if sorted(tuple(val(v) for v in r) + ("_",) for r in written) != m["rects"]:
            return f"shapes: block {i} rectangles {written} loaded as {m['rects']}"
        if sum(r[2] * r[3] for r in m["rects"]) != shoelace(b["verts"]):
            return f"shapes: block {i} rectangles do not have the area of its polygon"
        if b["kind"] == "soft" and m["areas"] != {"_": b["area"]}:
            return f"areas: block {i} area {b['area']} loaded as {m['areas']}"
    eps = F(1, 1000)
    for i, (px, py) in enumerate(case["pins"]):
        m = byname[f"T{i}"]
        if case["tam"]:
            if m["kind"] != (False, True, True) or len(m["rects"]) != 1:
                return f"kinds: terminal {i} as module should be one fixed rectangle, loaded {m['kind']} {m['rects']}"
            x, y, w, h, _ = m["rects"][0]
            tol = eps + F(1, 10 ** 9)
            if abs(x - px) > tol or abs(y - py) > tol:
                return (f"terminal-position: pin {i} at ({float(px)}, {float(py)}) is written as a rectangle "
                        f"centred at ({float(x)}, {float(y)})")
        else:
            if m["kind"] != (True, True, False):
                return f"terminal-flag: pin {i} should be a terminal, loaded (terminal, hard, fixed) = {m['kind']}"
            if m["center"] is None or val(m["center"][0]) != px or val(m["center"][1]) != py:
                return f"terminal-position: pin {i} at ({px}, {py}) loaded with centre {m['center']}"
    alpha = val(obs["alpha"])
    wantn = []
    for a, b, w in case["b2b"]:
        wantn.append(([f"M{int(a)}", f"M{int(b)}"], w * alpha if w * alpha > 0 else F(1)))
    for a, b, w in case["p2b"]:
        wantn.append(([f"T{int(a)}", f"M{int(b)}"], w * alpha if w * alpha > 0 else F(1)))
    if [x[0] for x in nets] != [x[0] for x in wantn]:
        return f"nets: expected {[x[0] for x in wantn]}, loaded {[x[0] for x in nets]}"
    for (mem, w), (_, ww) in zip(nets, wantn):
        if not close(w, ww):
            return f"weights: net {mem} weight {float(ww)} loaded as {float(w)}"
    if obs["mid"] != obs["before"] or obs["after"] != obs["before"]:
        return "mutated: writing the FloorSet netlist changed the instance (the nets' module lists)"
    if obs["t1"] != obs["t2"]:
        return "rewrite-differs: the second FPEF document differs from the first"
    if obs["d1"] != obs["d2"]:
        return "rewrite-differs: the second DIEF document differs from the first"
    sx, sy = max(p[0] for p in case["pins"]), max(p[1] for p in case["pins"])
    if sx > 0 and sy > 0:
        if obs["die"] is None:
            return "rejected: the FloorSet die is not accepted by the die reader"
        if val(obs["die"][0]) != sx or val(obs["die"][1]) != sy or obs["die"][2] != 0:
            return f"size: die {sx} x {sy} loaded as {obs['die']}"
        why = judge_forms(case, obs["d1"], obs["dftext"], obs["dforms"], "FloorSet die")
        if why:
            return why
    return judge_back(case, obs["t1"], obs["back"], "FloorSet netlist")


# --------------------------------------------------------------------------
# the string builders: common comparison of two loaded designs
# --------------------------------------------------------------------------
def compare_designs(src, dst, replaced=None, positions_only=False):
    """first difference between the design that was written (src: observation of the netlist the
    producer was given) and the one read back (dst), as 'class: text'; unknown classes first."""
    replaced = replaced or {}
    a_mods, a_nets = design_of(src)
    b_mods, b_nets = design_of(dst)
    if [m["name"] for m in a_mods] != [m["name"] for m in b_mods]:
        return f"modules: names {[m['name'] for m in a_mods]} reloaded as {[m['name'] for m in b_mods]}"
    known = []
    for m, r in zip(a_mods, b_mods):
        nm = m["name"]
        if m["kind"][0]:
            if m["kind"] != r["kind"]:
                known.append(f"terminal: terminal {nm} {m['kind']} reloaded as (terminal, hard, fixed) = {r['kind']}")
            elif (m["center"] is None) != (r["center"] is None) or (m["center"] is not None and not (
                    close(m["center"][0], r["center"][0]) and close(m["center"][1], r["center"][1]))):
                known.append(f"terminal: terminal {nm} at {m['center']} reloaded at {r['center']}")
            continue
        if m["kind"] != r["kind"]:
            if m["kind"] == (False, True, False) and r["kind"] == (False, True, True):
                known.append(f"hard-becomes-fixed: hard module {nm} reloaded as fixed")
            else:
                return f"kinds: module {nm} (terminal, hard, fixed) {m['kind']} reloaded as {r['kind']}"
        want = m["rects"]
        if nm in replaced:
            want = sorted(tuple(val(v) for v in b) + ("_",) for b in replaced[nm])
        if [x[:4] for x in want] != [x[:4] for x in r["rects"]]:
            return f"shapes: module {nm} rectangles {want} reloaded as {r['rects']}"
        if want != r["rects"]:
            known.append(f"rect-region: module {nm} rectangles {want} reloaded as {r['rects']}")
        elif nm not in replaced and m["rects_in_order"] != r["rects_in_order"]:
            # the order is part of the shape: the first rectangle is the trunk, the others its branches
            return (f"rect-order: module {nm} rectangles {[tuple(float(v) for v in x[:4]) for x in m['rects_in_order']]} "
                    f"reloaded in another order {[tuple(float(v) for v in x[:4]) for x in r['rects_in_order']]}")
        if not close(sum(m["areas"].values()), sum(r["areas"].values())):
            return f"areas: module {nm} area {m['areas']} reloaded as {r['areas']}"
        if set(m["areas"]) != set(r["areas"]) or any(not close(m["areas"][k], r["areas"][k]) for k in m["areas"]):
            known.append(f"region-areas: module {nm} areas {m['areas']} reloaded as {r['areas']}")
        if m["flip"] != r["flip"]:
            known.append(f"flip: module {nm} flip={m['flip']} reloaded as flip={r['flip']}")
        if (m["ar"] is None) != (r["ar"] is None) or (m["ar"] and not (close(m["ar"][0], r["ar"][0]) and close(m["ar"][1], r["ar"][1]))):
            known.append(f"aspect-ratio: module {nm} aspect ratio {m['ar']} reloaded as {r['ar']}")
        if not want and m["center"] is not None:
            if r["center"] is None or not (close(m["center"][0], r["center"][0]) and close(m["center"][1], r["center"][1])):
                return f"centers: module {nm} centre {m['center']} reloaded as {r['center']}"
    if [x[0] for x in a_nets] != [x[0] for x in b_nets]:
        return f"nets: {[x[0] for x in a_nets]} reloaded as {[x[0] for x in b_nets]}"
    if a_nets != b_nets:
        known.append(f"net-weight: nets {[(m, float(w)) for m, w in a_nets]} reloaded as {[(m, float(w)) for m, w in b_nets]}")
    return known[0] if known else None


def special_names(nobs):
    return [m["name"] for m in nobs["modules"] if m["name"] in YAML_WORDS]


def judge_builder(obs, src, replaced=None, case=None):
    """oracle shared by solnet / legal: obs has s1, s2, load (verdict of the reader on s1), unchanged"""
    if obs["load"]["verdict"] != "ok":
        if special_names(src):
            return f"unquoted-name: module named {special_names(src)} is written unquoted and read as null/true/false"
        if any(m["terminal"] for m in src["modules"]):
            return f"terminal: a design with a terminal is written as a document the reader rejects: {obs['load'].get('msg', '')[:120]}"
        return f"rejected: the written netlist is not accepted back: {obs['load'].get('msg', '')[:200]}"
    why = compare_designs(src, obs["load"]["n"], replaced)
    if why:
        return why
    if obs["s1"] != obs["s2"]:
        return "rewrite-differs: the second document differs from the first"
    if not obs["unchanged"]:
        return "mutated: producing the document changed the netlist"
    if obs.get("back"):
        return judge_back(case, obs.get("doc1", obs["s1"]), obs["back"], "netlist")
    return None


def twin_boxes(rng, k):
    """two congruent rectangles that share a whole side: equal areas, either can be the trunk (a tie in create_stog)"""
    w, h = F(rng.randrange(1, 17), rng.choice([1, 2, 4])), F(rng.randrange(1, 17), rng.choice([1, 2, 4]))
    x0, y0 = F(500 + 40 * k), F(rng.randrange(2, 60))
    a = [x0 + w / 2, y0 + h / 2, w, h]
    b = [x0 + w + w / 2, y0 + h / 2, w, h] if rng.random() < 0.5 else [x0 + w / 2, y0 + h + h / 2, w, h]
    return [b, a] if rng.random() < 0.5 else [a, b]


def twin_module(rng, k):
    a, b = twin_boxes(rng, k)
    area = 2 * a[2] * a[3]
    kind = rng.choice(["hard", "hard", "flip", "fixed", "soft", "soft-regions"])
    if kind in ("soft", "soft-regions") and rng.random() < 0.5:
        a = a + [rng.choice(["dsp", "lut"])]         # the two halves in different regions: swapping them shows
    if kind == "soft-regions" and len(a) == 5:
        m = {"area": {"_": area / 2, a[4]: area / 2}, "rectangles": [a, b]}
    elif kind in ("soft", "soft-regions"):
        m = {"area": rng.choice([area, area + F(3, 2)]), "rectangles": [a, b]}
    elif kind == "fixed":
        m = {"fixed": True, "rectangles": [a, b]}
    else:
        m = {"hard": True, "rectangles": [a, b]}
        if kind == "flip":
            m["flip"] = True
    return m


def gen_design(rng, need_rects=False):
    """a netlist document the reader accepts (tried on the real reader)"""
    for _ in range(60):
        doc = nc.gen_doc(rng, quirks=False)
        if not isinstance(doc.get("Modules"), dict) or not nc.exact_doc(doc):
            continue
        if rng.random() < 0.3:
            for k in range(rng.choice([1, 1, 2])):
                name = f"TW{k}"
                if name not in doc["Modules"]:
                    doc["Modules"][name] = twin_module(rng, k)
                    if doc.get("Nets") and rng.random() < 0.5:
                        doc["Nets"][0] = [name] + list(doc["Nets"][0])
        if need_rects:
            if rng.random() < 0.7:       # no terminal, every module with rectangles: a model can be built
                for k, info in list(doc["Modules"].items()):
                    if "terminal" in info:
                        del doc["Modules"][k]
                        doc["Nets"] = [n for n in doc.get("Nets", []) if k not in n]
                    elif "rectangles" not in info:
                        info["rectangles"] = [[F(rng.randrange(2, 40)), F(rng.randrange(2, 40)), F(2), F(3, 2)]]
            if not doc["Modules"]:
                continue
        n, v = nc.load(to_py(doc))
        if n is not None:
            return doc
    return {"Modules": {"A": {"area": 4, "center": [F(1), F(1)]}, "B": {"area": 2, "center": [F(3), F(1)]}},
            "Nets": [["A", "B"]]}


# --------------------------------------------------------------------------
# boundary values of the attributes in the netlists the builders are fed with
# --------------------------------------------------------------------------
# the ends of what a module may have (Module: 0 <= min_wh <= 1 <= max_wh)
AR_BOUNDARY = [[0, F(3)], [F(0), F(3)], [F(0), 1], [0, F(5, 2)], [F(0), F(16)], [1, 1], [F(1), F(1)], [F(1, 4), 1],
               [F(1), F(4)], [0, 4], [F(0), F(1)]]
AR_NEUTRAL = [F(1, 2), F(2)]


def boundary_ratios(rng, case):
    """Some soft modules get an aspect-ratio interval at the ends of the legal range ([0, x], [1, 1], [x, 1], [1, x]).
    The module receives it through its public setter after the netlist is loaded (the producers are fed with the
    OBJECT; that the reader takes such an interval is C04's business), the model reads it from the document."""
    mods = case["doc"]["Modules"]
    soft = [k for k, i in mods.items() if isinstance(i, dict) and "area" in i and not nc.doc_hard_true(i)]
    if not soft:
        return case
    picked = rng.sample(soft, min(len(soft), rng.choice([1, 1, 2, 3])))
    doc = copy.deepcopy(case["doc"])
    sets = {}
    for k in picked:
        ar = list(rng.choice(AR_BOUNDARY[:5] if not sets else AR_BOUNDARY))       # the first one with a lower end of 0
        doc["Modules"][k]["aspect_ratio"] = ar
        sets[k] = ar
    return dict(case, doc=doc, ar_set=sets)


def load_design(case):
    """the netlist object a builder is fed with: Netlist(document), then the intervals of case['ar_set'] through
    Module.aspect_ratio's setter (the document handed to the reader has a plain interval in their place)"""
    sets = case.get("ar_set") or {}
    doc = case["doc"]
    if sets:
        doc = copy.deepcopy(doc)
        for k in sets:
            if k in doc.get("Modules", {}):
                doc["Modules"][k]["aspect_ratio"] = list(AR_NEUTRAL)
    n, v = nc.load(to_py(doc))
    if n is not None and sets:
        from frame.geometry.geometry import AspectRatio
        for k, ar in sets.items():
            if k in doc.get("Modules", {}):
                n.get_module(k).aspect_ratio = AspectRatio(float(ar[0]), float(ar[1]))
    return n, v


def gen_boundary(rng, prod):
    for _ in range(40):
        case = boundary_ratios(rng, gen_solnet(rng) if prod == "solnet" else gen_legal(rng))
        if case.get("ar_set"):
            return case
    return case


# --------------------------------------------------------------------------
# rect_io.solution_to_netlist
# --------------------------------------------------------------------------
def gen_solnet(rng):
    doc = gen_design(rng)
    result = {}
    for k, info in doc["Modules"].items():
        if isinstance(info, dict) and "area" in info and rng.random() < 0.6:
            bs = []
            for j in range(rng.randrange(1, 4)):
                bs.append([F(rng.randrange(8, 400), 4) + 40 * j, F(rng.randrange(8, 400), 4),
                           F(rng.randrange(1, 24), 4), F(rng.randrange(1, 24), 4)])
            if rng.random() < 0.2:
                bs = twin_boxes(rng, 3)
            result[k] = bs
    return {"prod": "solnet", "doc": doc, "result": result}


def run_solnet(case):
    from tools.rect.rect_io import solution_to_netlist
    n, v = load_design(case)
    if n is None:
        return {"given": False}
    src = nc.netlist_obs(n)
    result = {k: [tuple(float(x) for x in b) for b in bs] for k, bs in case["result"].items()}
    try:
        s1 = solution_to_netlist(n, result)
        s2 = solution_to_netlist(n, result)
    except Exception as e:
        if type(e) is Exception and "I don't know what to do" in str(e):
            return {"given": True, "src": src, "raised": True}
        raise
    after = nc.netlist_obs(n)
    tree1, err = yload(s1)
    back = netlist_back(s1, tree=tree1)
    return {"given": True, "src": src, "raised": False, "s1": s1, "s2": s2, "unchanged": after == src,
            "tree1": tree1, "tree_err": err, "load": back["load"], "back": back}


def coq_builder(case, obs, model, extra=False):
    """model: Gallina expression of type option ytree over the loaded netlist n"""
    if not obs["given"] or not ascii_ok(case["doc"]):
        return "true"
    if obs.get("raised") or obs.get("built") is False:
        return f"with_netlist {gtree(case['doc'])} (fun n => match {model} with None => true | Some _ => false end)"
    if special_names(obs["src"]) and obs["load"]["verdict"] != "ok":
        return "true"       # an unquoted null / true / false: the tree is not a document; the oracle reports it
    if obs["tree1"] is None or not ascii_ok(obs["tree1"]):
        return "false"
    parts = [f"with_netlist {gtree(case['doc'])} (fun n => producer_ok 4 ({model}) {gotree(obs['tree1'])} "
             f"{gnl(obs['load'])})"]
    if extra:
        if isinstance(obs.get("s1"), str) and obs["s1"] and obs["s1"][0] != "{":      # a text, not the repr of a tree
            parts += layout(gtree(obs["tree1"]), obs["s1"])
        parts += coq_back(obs.get("back") or {}, "builder", case)
    return " && ".join(f"({x})" for x in parts)


def gresult(case):
    return glist([f"({gstr(k)}, {glist([gbox(b) for b in bs])})" for k, bs in case["result"].items()])


def coq_solnet(case, obs):
    if obs.get("given") and not obs.get("raised") and obs.get("back"):
        file_routes(case, "solution netlist", obs["s1"], obs["back"])
    return coq_builder(case, obs, f"Some (solution_to_netlist n {gresult(case)})", extra=True)


def coq_solnet_found(case, obs):
    return coq_builder(case, obs, f"solution_to_netlist_found n {gresult(case)}")


def oracle_solnet(case, obs):
    if not obs["given"] or obs.get("raised"):
        return None
    return judge_builder(obs, obs["src"], case["result"], case)


# --------------------------------------------------------------------------
# rect_io.get_netlist(None, allocation)
# --------------------------------------------------------------------------
class Spy:
    """captures the text handed to Netlist(...) inside a tool module"""

    def __init__(self, module):
        self.module, self.texts = module, []

    def __enter__(self):
        self.orig = self.module.Netlist
        spy = self

        def netlist(src):
            spy.texts.append(src if isinstance(src, str) else copy.deepcopy(src))
            return spy.orig(src)
        self.module.Netlist = netlist
        return self

    def __exit__(self, *a):
        self.module.Netlist = self.orig


def gen_allocnet(rng):
    c = _exact_alloc_case(rng)
    return {"prod": "allocnet", "cells": c["cells"], "eps": c["eps"], "aeps": c["aeps"]}


def run_allocnet(case):
    import tools.rect.rect_io as rio
    eps = (case["eps"], case["aeps"])
    reset_eps(eps)
    try:
        try:
            a = ac.build_alloc(case["cells"])
        except (AssertionError, ZeroDivisionError):
            return {"built": False}
        aobs = ac.alloc_obs(a)
        tree = [[[c["rect"][k] for k in ("cx", "cy", "w", "h")] + [c["rect"]["region"]],
                 {m: q for m, q in c["alloc"]}] for c in aobs["cells"]]
        # the allocation reaches the tool as a tree, as the text Allocation.write_yaml() returns and as the
        # file Allocation.write_yaml(name) writes (the tool's command line)
        atext = a.write_yaml()
        apath = new_path()
        a.write_yaml(apath)
        calls = []
        with Spy(rio) as spy:
            for form, src in (("tree", to_py(tree)), ("tree", to_py(tree)), ("text", atext), ("file", apath)):
                k = len(spy.texts)
                reset_eps(eps)
                err = None
                try:
                    rio.get_netlist(None, src)
                except Exception as e:
                    err = f"{type(e).__name__}: {str(e)[:160]}"
                doc = spy.texts[k] if len(spy.texts) > k else None
                calls.append({"form": form, "err": err, "doc": None if doc is None else doc_text(doc)})
        obs = {"built": True, "alloc": aobs, "calls": calls, "atext": atext, "tree1": None, "load": {"verdict": "none"}}
        if calls[0]["doc"] is None:
            return obs
        doc = spy.texts[0]
        obs["tree1"], obs["tree_err"] = doc_tree(doc)
        obs["doc1"] = doc if isinstance(doc, str) else None
        back = netlist_back(doc, tree=obs["tree1"] if isinstance(doc, str) else None)
        obs["back"], obs["load"] = back, back["load"]
        return obs
    finally:
        reset_eps()


def coq_allocnet(case, obs):
    if not obs["built"]:
        return "true"
    if obs["tree1"] is None:
        return "false"
    cells = [dict(c, rect=dict(c["rect"], fixed=False, hard=False)) for c in obs["alloc"]["cells"]]
    if obs.get("doc1"):
        file_routes(case, "netlist of an allocation", obs["doc1"], obs["back"])
    parts = [f"producer_ok 64 (Some (alloc_netlist_doc {ac.gcells(cells)})) {gotree(obs['tree1'])} {gnl(obs['load'])}"]
    parts += coq_back(obs["back"], "allocnet", case)
    return " && ".join(f"({x})" for x in parts)


def oracle_allocnet(case, obs):
    if not obs["built"]:
        return None
    calls = obs["calls"]
    if calls[0]["doc"] is None:
        return f"rejected: get_netlist did not reach the netlist reader: {calls[0]['err']}"
    for c in calls[1:]:
        if c["doc"] is None:
            if c["form"] == "text" and ": " not in obs["atext"] and c["err"].split(":")[0] in ("FileNotFoundError", "OSError"):
                return (f"text-without-colon-space: the text Allocation.write_yaml() returned has no ': ' and "
                        f"get_netlist takes it for a file name: {c['err'][:100]}")
            return f"rejected: get_netlist does not take the allocation as a {c['form']}: {c['err']}"
    if obs["load"]["verdict"] != "ok":
        return f"rejected: the netlist built from the allocation is not accepted: {obs['load'].get('msg', '')[:200]}"
    mods, nets = design_of(obs["load"]["n"])
    a = obs["alloc"]
    if [m["name"] for m in mods] != list(a["areas"]):
        return f"modules: allocation modules {list(a['areas'])} loaded as {[m['name'] for m in mods]}"
    for m in mods:
        if m["kind"] != (False, False, False) or not close(m["areas"].get("_", 0), a["areas"][m["name"]]):
            return f"areas: module {m['name']} area {a['areas'][m['name']]} loaded as {m['kind']} {m['areas']}"
        c = a["centers"][m["name"]]
        if m["center"] is None or not (close(m["center"][0], c[0]) and close(m["center"][1], c[1])):
            return f"centers: module {m['name']} centre {c} loaded as {m['center']}"
    if nets:
        return "nets: an allocation has no nets"
    if calls[0]["doc"] != calls[1]["doc"]:
        return "rewrite-differs: the second document differs from the first"
    for c in calls[2:]:
        if c["doc"] != calls[0]["doc"]:
            return f"form-{c['form']}: the netlist built from the allocation given as a {c['form']} differs from the one built from the tree"
    return judge_back(case, obs.get("doc1") or "", obs["back"], "netlist of the allocation")


# --------------------------------------------------------------------------
# legalfloor Model.get_netlist
# --------------------------------------------------------------------------
def gen_legal(rng):
    return {"prod": "legal", "doc": gen_design(rng, need_rects=True)}


def run_legal(case):
    import tools.legalfloor.legalfloor as lf
    n, v = load_design(case)
    if n is None:
        return {"given": False}
    src = nc.netlist_obs(n)
    old = tempfile.tempdir
    if _TMP["dir"]:
        tempfile.tempdir = _TMP["dir"]
    try:
        try:
            with contextlib.redirect_stdout(io.StringIO()):
                ml, al, xl, yl, wl, hl, hyper, og = lf.netlist_to_utils(n)
                extra = {"netlist": n} if "netlist" in inspect.signature(lf.Model.__init__).parameters else {}
                m = lf.Model(ml, al, xl, yl, wl, hl, 4096.0, 4096.0, hyper, 3.0, og, 0.9, 0.3, 1.0, **extra)
        except (ZeroDivisionError, AssertionError) as e:
            return {"given": True, "src": src, "built": False, "msg": type(e).__name__}
        texts, v2 = [], {"verdict": "none"}
        with Spy(lf) as spy:
            for _ in range(2):
                try:
                    with contextlib.redirect_stdout(io.StringIO()):
                        m.get_netlist()
                except Exception:
                    pass
            texts = list(spy.texts)
        after = nc.netlist_obs(n)
        if len(texts) != 2:
            return {"given": True, "src": src, "built": True, "s1": None, "s2": None, "tree1": None, "load": v2,
                    "unchanged": after == src}
        tree1, err = doc_tree(texts[0])
        back = netlist_back(texts[0])
        return {"given": True, "src": src, "built": True, "s1": doc_text(texts[0]), "s2": doc_text(texts[1]),
                "unchanged": after == src, "tree1": tree1, "tree_err": err, "load": back["load"], "back": back,
                "doc1": texts[0] if isinstance(texts[0], str) else ""}
    finally:
        tempfile.tempdir = old
        reset_eps()


def coq_legal(case, obs):
    if obs.get("given") and obs.get("built") and obs.get("back") and obs.get("doc1"):
        file_routes(case, "legalised netlist", obs["doc1"], obs["back"])
    return coq_builder(case, obs, "legal_netlist n", extra=True)


def coq_legal_found(case, obs):
    return coq_builder(case, obs, "legal_netlist_found n")


def oracle_legal(case, obs):
    if not obs["given"] or not obs["built"]:
        return None
    if obs["s1"] is None:
        return "rejected: get_netlist did not reach the netlist reader"
    return judge_builder(obs, obs["src"], None, case)


# --------------------------------------------------------------------------
# dispatch
# --------------------------------------------------------------------------
RUN = {"die": run_die, "alloc": run_alloc, "netgen": run_netgen, "named": run_named, "floorset": run_floorset,
       "solnet": run_solnet, "allocnet": run_allocnet, "legal": run_legal}
COQ = {"die": coq_die, "alloc": coq_alloc, "netgen": coq_netgen, "named": coq_named, "floorset": coq_floorset,
       "solnet": coq_solnet, "allocnet": coq_allocnet, "legal": coq_legal}
ORACLE = {"die": oracle_die, "alloc": oracle_alloc, "netgen": oracle_netgen, "named": oracle_named,
          "floorset": oracle_floorset, "solnet": oracle_solnet, "allocnet": oracle_allocnet, "legal": oracle_legal}


# the models of the string builders as they were found (before fixes/C19-solution-to-netlist-writer.diff and
# fixes/C19-legalfloor-get-netlist.diff)
FOUND = {"solnet": coq_solnet_found, "legal": coq_legal_found}


_CLOCK = {"impl": 0.0}


def run_impl(case):
    t0 = time.time()
    try:
        return RUN[case["prod"]](case)
    finally:
        _CLOCK["impl"] += time.time() - t0


_SEEN = {}


def to_coq(case, obs):
    if case["prod"] in FOUND:
        _SEEN[json.dumps(fr.tojson(case), sort_keys=True)] = obs
    return COQ[case["prod"]](case, obs)


def oracle(case, obs):
    return ORACLE[case["prod"]](case, obs)


def failure_key(case, why):
    prod = PRODUCER.get((case or {}).get("prod"), "unknown")
    why = why or ""
    head = why.split(":")[0].strip()
    if why.startswith("implementation raised"):
        head = "raises-" + why.split()[2].rstrip(":")
    elif " " in head or not head:
        head = "disagree"
    if head in ("stream-rejected", "text-without-colon-space"):      # the reader's entry point, whatever the producer
        return f"C19/read_yaml/{head}"
    if prod in ("rect_io.solution_to_netlist", "legalfloor.get_netlist") and head in DROPS:
        head = "drops-attributes"
    return f"C19/{prod}/{head}"


def shrink(case):
    p = case["prod"]
    if p == "die":
        if case["op"]:
            yield dict(case, op=None)
        for i in range(len(case["regions"])):
            yield dict(case, regions=case["regions"][:i] + case["regions"][i + 1:])
    elif p in ("alloc", "allocnet"):
        for c in ac.shrink(dict(case, ops=case.get("ops", []))):
            yield c
    elif p == "netgen":
        if "centers" in case:
            c = dict(case)
            del c["centers"]
            yield c
        for i, s in enumerate(case["size"]):
            for s2 in sorted({s // 2, s - 1}):
                if 0 <= s2 < s:
                    yield dict(case, size=case["size"][:i] + [s2] + case["size"][i + 1:])
    elif p == "named":
        for i in range(len(case["edges"])):
            yield dict(case, edges=case["edges"][:i] + case["edges"][i + 1:])
    elif p == "floorset":
        for key in ("b2b", "p2b"):
            for i in range(len(case[key])):
                yield dict(case, **{key: case[key][:i] + case[key][i + 1:]})
        if len(case["pins"]) > 1:
            for i in range(len(case["pins"])):
                if all(int(e[0]) != i for e in case["p2b"]):
                    ps = case["pins"][:i] + case["pins"][i + 1:]
                    yield dict(case, pins=ps, p2b=[[e[0] - (1 if e[0] > i else 0), e[1], e[2]] for e in case["p2b"]])
        if len(case["blocks"]) > 1 and not case["b2b"] and not case["p2b"]:
            yield dict(case, blocks=case["blocks"][:-1])
        if case["density"] is not None:
            yield dict(case, density=None)
    elif p in ("solnet", "legal"):
        for d in nc.shrink_doc(case["doc"]):
            c = dict(case, doc=d)
            if c.get("ar_set"):
                c["ar_set"] = {k: v for k, v in c["ar_set"].items() if isinstance(d.get("Modules"), dict)
                               and isinstance(d["Modules"].get(k), dict) and d["Modules"][k].get("aspect_ratio") == v}
            if "result" in c:
                c["result"] = {k: v for k, v in c["result"].items() if k in d.get("Modules", {})}
            yield c
        for k in list(case.get("result", {})):
            yield dict(case, result={kk: v for kk, v in case["result"].items() if kk != k})


def nontrivial(case):
    p = case["prod"]
    if p == "die":
        return len(case["regions"]) >= 1 or case["op"] is not None
    if p in ("alloc", "allocnet"):
        return len(case["cells"]) >= 2
    if p == "netgen":
        return netgen_in_domain(case) and max(case["size"]) >= 2
    if p == "named":
        return len(case["edges"]) >= 1
    if p == "floorset":
        return len(case["pins"]) >= 2
    nm, nn, nr = nc.doc_stats(case["doc"])
    return nm >= 2


def dist_key(case):
    p = case["prod"]
    if p == "netgen":
        return "netgen/" + case["topo"]
    if p == "die":
        return "die/" + (case["op"][0] if case["op"] else "plain")
    if p == "floorset":
        return "floorset/" + ("terminals-as-modules" if case["tam"] else "terminals")
    if p == "alloc" and case.get("grid"):
        return "alloc/grid-" + case["grid"][1]
    return p + ("/boundary-ratios" if case.get("ar_set") else "")


def extreme_cases(rng, quick):
    return big_alloc_cases(rng, quick) + large_netgen_cases(quick) + big_die_cases(rng, quick)


def shrink_in_class(case, key, budget=250):
    """greedy shrinking that stays in the failure class (a large sparse allocation refused under a seeded change
    must not shrink into the all-empty allocation of the open finding)"""
    def fails(c):
        try:
            obs = run_impl(c)
        except Exception as e:
            return f"implementation raised {type(e).__name__}: {e}", {"crash": str(e)}
        try:
            return oracle(c, obs), obs
        except Exception:
            return None, obs
    best = None
    improved = True
    while improved and budget > 0:
        improved = False
        for cand in shrink(case):
            budget -= 1
            if budget <= 0:
                break
            w, o = fails(cand)
            if w and failure_key(cand, w) == key:
                case, best, improved = cand, (w, o), True
                break
    return (case,) + best if best else None


def layout_recheck(ctx, out, bad):
    """The layout of a text (where the line breaks and the ': ' are) is not part of the property; the model
    assumes ruamel's block style (contract looks_dump of the entry-form theorems).  A case on which model and
    implementation disagree ONLY about that is taken out of the disagreements and reported as a note."""
    if not bad or not _LAYOUT["on"]:
        return
    _LAYOUT["on"] = False
    try:
        exprs = [COQ[c["prod"]](c, o) for c, o, _, _, _ in bad]
    finally:
        _LAYOUT["on"] = True
    res = core.coq_eval_bools(ctx, HEADER, exprs, shard=50, tag="nolayout")
    only_layout = {json.dumps(fr.tojson(c), sort_keys=True) for (c, _, _, _, _), r in zip(bad, res) if r is True}
    listed = {json.dumps(d["case"], sort_keys=True) for d in out.disagreements}
    out.disagreements = [d for d in out.disagreements if json.dumps(d["case"], sort_keys=True) not in only_layout]
    for (c, o, why, e, r), r2 in zip(bad, res):
        k = json.dumps(fr.tojson(c), sort_keys=True)
        if r2 is not True and k not in listed and len(out.disagreements) < 50:
            out.disagreements.append({"key": failure_key(c, why or "disagree"), "case": fr.tojson(c), "impl": fr.tojson(o),
                                      "explained": bool(why), "oracle": why, "coq_check": e[:3000],
                                      "model_result": "false" if r is False else "coqc failed"})
    if only_layout:
        out.extra["text_layout_differs"] = len(only_layout)
        ctx.notes.append(f"C19: on {len(only_layout)} cases the written text is not laid out as the block style the model "
                         "of write_yaml assumes (line breaks / ': '); the entry-form theorems then speak about these "
                         "documents through the direct oracle only (accepted on every entry form)")


def second_pass(ctx, out):
    """the routes read_yaml took for every entry form of every document, against the model; the streams refused
    by read_yaml's assertion as failures of their own (not through the per-case oracle: they would 'explain'
    every other disagreement of the case)"""
    flat = []
    for case, label, routes, tabs in _ROUTES:
        for form, fe, observed in routes:
            flat.append((case, label, form, tabs, f"route_ok {fe} {observed}", f"route_found_ok {fe} {observed}"))
    res = core.coq_eval_bools(ctx, HEADER, [x[4] for x in flat], shard=1500, tag="routes")
    bad = [x for x, r in zip(flat, res) if r is not True]
    found = core.coq_eval_bools(ctx, HEADER, [x[5] for x in bad], shard=1500, tag="routesfound") if bad else []
    out.extra["entry_forms_compared"] = len(flat)
    out.extra["entry_form_disagreements"] = len(bad)
    count = {}
    for (case, label, form, tabs, e, _), as_found in zip(bad, found):
        key, explained = "C19/read_yaml/disagree", False
        if as_found is True and form == "stream":
            key, explained = "C19/read_yaml/stream-rejected", True
        elif as_found is True and form == "text" and not tabs[0]:
            key, explained = "C19/read_yaml/text-without-colon-space", True
        count[key] = count.get(key, 0) + 1
        if count[key] <= 3:
            out.disagreements.append({"key": key, "case": fr.tojson(case), "explained": explained,
                                      "why": f"read_yaml on the {form} form of the {label}: the model's route differs",
                                      "coq_check": e, "model_result": "false",
                                      "as_found": "the route is the one the model of read_yaml as found predicts"
                                      if as_found is True else None})
    out.extra["streams_refused"] = len(_STREAMS)
    for case in sorted(_STREAMS, key=lambda c: len(json.dumps(fr.tojson(c))))[:2]:
        out.failures.append({"key": "C19/read_yaml/stream-rejected", "case": fr.tojson(case),
                             "why": "stream-rejected: read_yaml refuses the open stream (open(file name)) on the file "
                                    "write_yaml(file name) wrote, by its own assertion, before reading it "
                                    f"({len(_STREAMS)} cases of this run; every stream is refused)"})


def run(ctx, out, replay=None):
    quick = ctx.quick()
    _TMP["dir"] = str(ctx.work / "gekko")
    os.makedirs(_TMP["dir"], exist_ok=True)
    _DOCS["dir"], _DOCS["n"] = str(ctx.work / "docs"), 0
    os.makedirs(_DOCS["dir"], exist_ok=True)
    del _ROUTES[:], _STREAMS[:]
    out.rule = ("per producer: dies (lattice regions, plain / split_refinable_regions / initial_grid; large lattices with "
                "many regions), allocations (guillotine/grid/sparse cells, then refine/uniform/griddify chains; every stage "
                "written and reloaded; n x n grids up to 24 x 24 with no / one last / late / sparse / dense occupied cells, "
                "refined several levels), "
                "netgen: every topology for sizes 0..40, grids 0..8 x 0..8, h-trees 0..4 exhaustively (+ grids with centres, "
                "+ large sizes), "
                "named edges, synthetic FloorSet instances (single-trunk orthogonal polygons, pins on/off the border, both "
                "terminal modes, with/without density), solution_to_netlist on accepted random netlists with synthetic box "
                "results, get_netlist on allocations, legalfloor models built (not solved) from accepted netlists "
                "(with modules of two congruent abutting rectangles; a stream of both with soft modules whose aspect-ratio "
                "interval, set on the loaded object, is at the ends of the legal range: [0, x], [1, 1], [x, 1], [1, x]); each producer is called twice; every document goes "
                "back through the text, the file (by name and as an open stream) and the tree; netlists are reloaded and "
                "rewritten; non-trivial = at least two regions/cells/modules/pins, netgen inside its domain")
    rng = ctx.rng
    rng2 = random.Random(f"C19-forms-{ctx.seed}")
    cases = []
    if replay and "case" in replay:
        cases.append(fr.unjson(replay["case"]))
    cases += fr.load_corpus("C19")
    cases += netgen_cases(quick, rng)
    budget = {"die": 90, "alloc": 60, "named": 30, "floorset": 70, "allocnet": 40, "solnet": 90, "legal": 70} if quick else \
             {"die": 600, "alloc": 350, "named": 200, "floorset": 500, "allocnet": 300, "solnet": 800, "legal": 600}
    gens = {"die": gen_die, "alloc": gen_alloc_case, "named": gen_named, "floorset": gen_floorset,
            "solnet": gen_solnet, "allocnet": gen_allocnet, "legal": gen_legal}
    for p, k in budget.items():
        for _ in range(k):
            cases.append(gens[p](rng))
    # the large cases are spread over the list: the model is evaluated in shards of consecutive cases, in parallel
    head = len(cases) - sum(budget.values()) - len(netgen_cases(quick, random.Random(0)))
    ext = extreme_cases(rng2, quick)
    body = cases[head:]
    step = max(1, len(body) // (len(ext) + 1))
    for k, c in enumerate(ext):
        body.insert(min(len(body), (k + 1) * step + k), c)
    cases = cases[:head] + body
    # boundary values of the attributes in the netlists the builders are fed with (own stream: the cases above do not move)
    rng3 = random.Random(f"C19-boundary-{ctx.seed}")
    for k in range(16 if quick else 160):
        cases.append(gen_boundary(rng3, "solnet" if k % 2 == 0 else "legal"))
    if os.environ.get("C19_ONLY"):      # development aid: a subset of the producers
        cases = [c for c in cases if c["prod"] in os.environ["C19_ONLY"].split(",")]
    _CLOCK["impl"] = 0.0
    t_start = time.time()
    try:
        bad = fr.run_cases(ctx, out, cases, run_impl, to_coq, oracle, failure_key, HEADER, dist_key=dist_key,
                           nontrivial=nontrivial, shard=50, shrink=None)
        layout_recheck(ctx, out, bad)
        out.extra["seconds_implementation"] = round(_CLOCK["impl"], 1)
        out.extra["seconds_model_evaluation"] = round(time.time() - t_start - _CLOCK["impl"], 1)
        second_pass(ctx, out)
        # a minimal input per failure class, staying in the class
        seen, shrunk = set(), []
        for f in out.failures:
            if f["key"] in seen:
                continue
            seen.add(f["key"])
            r = shrink_in_class(fr.unjson(f["case"]), f["key"])
            if r:
                shrunk.append({"key": f["key"], "why": r[1], "case": fr.tojson(r[0]), "impl": fr.tojson(r[2]),
                               "shrunk_from": f["case"]})
        out.failures = shrunk + out.failures
    finally:
        reset_eps()
    for f in out.failures:      # a shrunk input is filed under the failure it shows
        f["key"] = failure_key(fr.unjson(f["case"]), f.get("why"))
    # The models mirror the REPAIRED string builders.  On a tree whose builders are still as found the
    # correspondence disagrees on almost every document (other attribute order, attributes dropped).  Such a
    # disagreement is filed under the open finding of the builder only when the document is exactly the one
    # the model of the code as found predicts (a second evaluation, run only when there are disagreements).
    todo = []
    for d in out.disagreements:
        case = fr.unjson(d["case"])
        obs = _SEEN.get(json.dumps(d["case"], sort_keys=True))
        if case.get("prod") in FOUND and obs is not None and not d.get("explained"):
            todo.append((d, case, obs))
    if todo:
        res = core.coq_eval_bools(ctx, HEADER, [FOUND[c["prod"]](c, o) for _, c, o in todo], shard=60)
        for (d, c, _), r in zip(todo, res):
            if r is True:
                d["key"] = f"C19/{PRODUCER[c['prod']]}/drops-attributes"
                d["as_found"] = "the document is the one the model of the string builder as found predicts"
    _SEEN.clear()
    if os.environ.get("C19_DEBUG"):
        seen = {}
        for f in out.failures + out.disagreements:
            seen.setdefault((f["key"], (f.get("why") or "")[:150]), 0)
            seen[(f["key"], (f.get("why") or "")[:150])] += 1
        for k, v in sorted(seen.items()):
            print("debug:", v, k)
