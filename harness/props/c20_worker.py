"""C20 worker: executes library operations of FRAME in one interpreter and reports plain data.

Run as  `python -m harness.props.c20_worker`  with a JSON request on stdin:
  {"jobs": [{"id": .., "history": [op, ...], "probes": [op, ...], "preset": null | [eps, aeps]}, ...],
   "fork": true}
For every job a child process is forked from the pristine (import-time) state of this interpreter; the child
executes the history operations one after the other (recording the process-wide state after each one), then
forks once per probe so that every probe sees exactly the state the history left behind.  A job with an empty
history therefore runs each probe as the first thing done in a process.  With "fork": false the (single) job is
executed in this very interpreter (a truly fresh interpreter, used to cross-check the forked mode).

Numbers travel as hex floats ({"$f": ...}) so that nothing is rounded on the way.
"""
import contextlib
import hashlib
import io
import json
import os
import sys
import traceback


# ---------------------------------------------------------------- plain data <-> JSON
def tojson(x):
    if isinstance(x, bool) or x is None or isinstance(x, (int, str)):
        return x
    if isinstance(x, float):
        return {"$f": x.hex()}
    if isinstance(x, dict):
        return {str(k): tojson(v) for k, v in x.items()}
    if isinstance(x, (list, tuple)):
        return [tojson(v) for v in x]
    return {"$repr": repr(x)}


def unjson(x):
    if isinstance(x, dict):
        if set(x) == {"$f"}:
            return float.fromhex(x["$f"])
        if set(x) == {"$q"}:
            from fractions import Fraction
            return float(Fraction(x["$q"]))
        return {k: unjson(v) for k, v in x.items()}
    if isinstance(x, list):
        return [unjson(v) for v in x]
    return x


def digest(obs) -> str:
    return hashlib.sha1(json.dumps(tojson(obs), sort_keys=True).encode()).hexdigest()


# ---------------------------------------------------------------- observers
def rect_obs(r):
    return [r.center.x, r.center.y, r.shape.w, r.shape.h, bool(r.fixed), bool(r.hard), r.region, r.location.name]


def mk_rect(d):
    from frame.geometry.geometry import Rectangle, Point, Shape
    return Rectangle(center=Point(d[0], d[1]), shape=Shape(d[2], d[3]), fixed=bool(d[4]), hard=bool(d[5]),
                     region=d[6])


def err(e):
    return {"raised": type(e).__name__, "msg": str(e)[:160]}


EXPECTED = (AssertionError, ZeroDivisionError, IndexError, KeyError, ValueError, TypeError)


def op_netlist(op):
    from frame.netlist.netlist import Netlist
    try:
        n = Netlist(op["text"] if "text" in op else op["doc"])
    except EXPECTED as e:
        return err(e)
    def view():
        mods = []
        for m in n.modules:
            mods.append({"name": m.name, "rects": [rect_obs(r) for r in m.rectangles],
                         "center": None if m.center is None else [m.center.x, m.center.y],
                         "area": m.area(), "hard": bool(m.is_hard), "fixed": bool(m.is_fixed),
                         "terminal": bool(m.is_terminal), "stog": bool(m.has_stog) if m.num_rectangles > 0 else None})
        edges = [[[b.name for b in e.modules], e.weight] for e in n.edges]
        return {"modules": mods, "edges": edges, "rects": [rect_obs(r) for r in n.rectangles],
                "wl": n.wire_length if all(m.center is not None for m in n.modules) else None}
    out = view()
    if op.get("mutate"):
        # the operations that change the loaded design in place
        steps = []
        for st in op["mutate"]:
            try:
                if st == "squares":
                    steps.append([m.name for m in n.create_squares()])
                elif st == "stogs":
                    n.create_stogs()
                    steps.append(bool(n.all_soft_modules_have_stogs()))
                elif st == "recenter":
                    done = []
                    for m in n.modules:
                        if m.is_hard and not m.is_fixed and m.center is not None and m.num_rectangles > 0:
                            m.recenter_rectangles()
                            done.append(m.name)
                    steps.append(done)
                elif st == "fixall":
                    for r in n.rectangles:
                        r.fixed = True
                    steps.append(len(n.rectangles))
                else:
                    raise ValueError(st)
            except EXPECTED as e:
                steps.append({"raised": "rejected"})
        out["mutate"] = steps
        try:
            out["mutated"] = view()
        except EXPECTED:
            out["mutated"] = {"raised": "rejected"}
    return out


def op_die(op):
    from frame.die.die import Die
    from frame.netlist.netlist import Netlist
    try:
        nl = Netlist(op["netlist"]) if op.get("netlist") is not None else None
        d = Die(op["doc"], nl) if nl is not None else Die(op["doc"])
    except EXPECTED as e:
        return err(e)
    out = {"w": d.width, "h": d.height,
           "ground": [rect_obs(r) for r in d.ground_regions], "spec": [rect_obs(r) for r in d.specialized_regions],
           "block": [rect_obs(r) for r in d.blockages], "fixed": [rect_obs(r) for r in d.fixed_regions]}
    if op.get("refine"):
        ar, n = op["refine"]
        try:
            d.split_refinable_regions(ar, n)
            out["refined"] = [rect_obs(r) for r in d.ground_regions]
        except EXPECTED as e:
            out["refined"] = err(e)
    return out


def alloc_obs(a):
    cells = [[rect_obs(x.rect), [[m, q] for m, q in x.alloc.items()], x.depth] for x in a.allocations]
    mods = []
    for x in a.allocations:
        for m in x.alloc:
            if m not in mods:
                mods.append(m)
    return {"cells": cells, "areas": [[m, a.area(m)] for m in mods],
            "centers": [[m, a.center(m).x, a.center(m).y] for m in mods]}


def op_alloc(op):
    from frame.allocation.allocation import Allocation
    try:
        a = Allocation([(mk_rect(c[0]), {m: q for m, q in c[1]}, c[2]) for c in op["cells"]])
    except EXPECTED:
        return {"raised": "rejected"}       # the constructor refuses the cells (whatever the assertion)
    out = {"init": alloc_obs(a), "steps": []}
    for o in op.get("ops", []):
        try:
            if o[0] == "refine":
                a = a.refine(o[1], o[2])
            elif o[0] == "uniform":
                a = a.uniform_refinement_depth()
            elif o[0] == "griddify":
                a = a.griddify()
            elif o[0] == "mbr":
                out["steps"].append(bool(a.must_be_refined(o[1])))
                continue
        except EXPECTED:
            out["steps"].append({"raised": "rejected"})
            break
        out["steps"].append(alloc_obs(a))
    return out


def op_allocflow(op):
    """an allocation READ FROM YAML (text or tree: cells given as lists of numbers) taken through the operations that
    change its rectangles in place or hand them on: initial_allocation with a netlist (cells covered by fixed modules
    are tagged fixed), refine, griddify, uniform depth, write_yaml + read again"""
    from frame.allocation.allocation import Allocation
    from frame.netlist.netlist import Netlist
    try:
        a = Allocation(op["alloc"])
        out = {"init": alloc_obs(a), "steps": []}
    except EXPECTED:
        return {"raised": "rejected"}
    for o in op.get("steps", []):
        try:
            if o[0] == "mbr":
                out["steps"].append(bool(a.must_be_refined(o[1])))
            elif o[0] == "refine":
                a = a.refine(o[1], o[2])
                out["steps"].append(alloc_obs(a))
            elif o[0] == "uniform":
                a = a.uniform_refinement_depth()
                out["steps"].append(alloc_obs(a))
            elif o[0] == "griddify":
                a = a.griddify()
                out["steps"].append(alloc_obs(a))
            elif o[0] == "reread":
                a = Allocation(a.write_yaml())
                out["steps"].append(alloc_obs(a))
            elif o[0] == "initial":
                a2 = a.initial_allocation(Netlist(op["netlist"]), bool(o[1]))
                out["steps"].append({"initial": alloc_obs(a2), "receiver": alloc_obs(a)})
                if o[2]:
                    a = a2
            else:
                raise ValueError(o[0])
        except EXPECTED:
            out["steps"].append({"raised": "rejected"})
            break
    return out


def op_stog(op):
    """orthogon recognition of a design: the rectangles are those of one hard module of a netlist
    (the path by which FRAME itself reaches create_stog)"""
    from frame.netlist.netlist import Netlist
    doc = {"Modules": {"M0": {"rectangles": [list(r[:4]) for r in op["rects"]], "hard": True}}, "Nets": []}
    try:
        n = Netlist(doc)
    except EXPECTED as e:
        return err(e)
    m = n.get_module("M0")
    return {"stog": bool(m.has_stog), "rects": [rect_obs(r) for r in m.rectangles],
            "center": [m.center.x, m.center.y]}


# ---- SAT layer
PRE = "def_"


def build_expr(terms, const):
    from tools.rect.pseudobool import Literal, Term, Expr
    e = Expr()
    for v, s, c in terms:
        e = e + Term(Literal(PRE + v, s), c)
    if const != 0:
        e = e + const
    return e


class canon_nodes:
    """structural name of a node of the store: independent of the position it was given (computed on demand: the
    store may hold millions of nodes of which a probe uses a handful)"""
    def __init__(self, pb):
        self.mem = pb.memory
        self.names = {0: "F", 1: "T"}

    def get(self, i, default="?"):
        if i in self.names:
            return self.names[i]
        try:
            x = self.mem[i]
            if not (isinstance(i, int) and i >= 2 and isinstance(x, tuple) and len(x) == 3 and
                    0 <= x[1] < i and 0 <= x[2] < i):
                return default
        except (IndexError, TypeError):
            return default
        n = hashlib.sha1(f"{x[0]}|{self.get(x[1])}|{self.get(x[2])}".encode()).hexdigest()[:16]
        self.names[i] = n
        return n


BIG_STORE = 600        # above this many nodes the store itself is not reported nor handed to the model (whose
                       # evaluation by vm_compute takes 3 s at 500 nodes, 11 s at 1000, 60 s at 2000)


def user_projection(sm, users):
    """which assignments of the user variables extend to a model of the manager's clauses (PySAT, a solver of our own)"""
    import itertools
    from pysat.solvers import Solver
    tt = {}
    cnf = []
    for c in sm.clauses:
        cnf.append([(1 if l.s else -1) * tt.setdefault(l.v, len(tt) + 1) for l in c])
    ids = [tt.setdefault(PRE + v, len(tt) + 1) for v in users]
    rows = []
    with Solver(bootstrap_with=cnf) as s:
        for bits in itertools.product([False, True], repeat=len(users)):
            rows.append([list(bits), bool(s.solve(assumptions=[i if b else -i for i, b in zip(ids, bits)]))])
    return rows


LAND_MARGIN = 160     # a filler creates at most 6 * 7 = 42 (unit coefficients) / about 100 (coefficients 1..5) nodes


def op_satgrow(op):
    """grow the process-wide diagram store by about op['nodes'] nodes: many small inequalities over fresh variables
    (the cheapest way, see harness/props/c07.py), the first of every 200 codified by a throw-away manager"""
    import random
    from tools.rect import pseudobool as pb
    from tools.rect.pseudobool import Expr, Literal, Term
    from tools.rect.satmanager import SATManager
    r = random.Random(op["pyseed"])
    made, last, k, shrank = 0, len(pb.memory), 0, 0
    tm = None
    upto = op.get("upto")
    if upto is not None:
        # EXACT landing: the store is left with exactly `upto` entries (the two terminals included) - fillers while more
        # than LAND_MARGIN nodes are missing, then conjunctions of m <= 7 fresh variables (x1 + .. + xm >= m: a chain of
        # exactly m nodes).  A tree that evicts nodes from the store may never get there: the work is capped
        budget = max(0, upto - len(pb.memory)) + 8192
    while (made < op["nodes"] and k < op["nodes"]) if upto is None else \
            (upto - len(pb.memory) > LAND_MARGIN and made < budget):
        n = r.choice([6, 8, 8, 10, 12])
        e = Expr()
        if r.random() < 0.7:
            for i in range(n):
                e = e + Literal(f"{op['tag']}{k}_{i}", r.random() < 0.8)
            q = e >= n // 2
        else:
            tot = 0
            for i in range(n):
                c = r.choice([1, 2, 3, 5])
                tot += c
                e = e + Term(Literal(f"{op['tag']}{k}_{i}"), c)
            q = e >= tot // 2
        if k % 200 < 4:
            if k % 200 == 0:
                tm = SATManager()
            tm.pseudoboolencoding(q, r.random() < 0.1)
        else:
            q.getrobdd(r.random() < 0.1)
        now = len(pb.memory)
        if now < last:
            shrank += 1
        else:
            made += now - last
        last = now
        k += 1
    if upto is not None:
        j = 0
        while len(pb.memory) < upto and made < budget and j < 4 * LAND_MARGIN:
            m = min(7, upto - len(pb.memory))
            e = Expr()
            for i in range(m):
                e = e + Literal(f"{op['tag']}z{j}_{i}")
            before = len(pb.memory)
            (e >= m).getrobdd()
            made += max(0, len(pb.memory) - before)
            shrank += 1 if len(pb.memory) < before else 0
            j += 1
        return {"inequalities": k + j, "made": made, "shrank": shrank, "landed": len(pb.memory) == upto}
    return {"inequalities": k, "made": made, "shrank": shrank}


def op_sat(op):
    from tools.rect import pseudobool as pb
    from tools.rect.pseudobool import Literal, Ineq
    from tools.rect.satmanager import SATManager
    opstr = {"GE": ">=", "LE": "<=", "GT": ">", "LT": "<", "EQ": "=", "EQ2": "=="}
    big = len(pb.memory) > BIG_STORE
    mem0 = [] if big else [[str(x[0]), int(x[1]), int(x[2])] for x in pb.memory[2:]]
    memlen0 = len(pb.memory)
    head_ok = list(pb.memory[:2]) == [0, 1]
    sm = SATManager()
    status, norms, memlens = [], [], []
    for p in op["posts"]:
        k = p["k"]
        norm = None
        try:
            if k == "newvar":
                sm.newvar(p["v"])
            elif k == "clause":
                sm.add_clause([Literal(PRE + v, s) for v, s in p["lits"]])
            elif k == "imply":
                sm.imply([Literal(PRE + v, s) for v, s in p["lits"]], Literal(PRE + p["x"][0], p["x"][1]))
            elif k == "amoq":
                sm.quadraticencoding([Literal(PRE + v, s) for v, s in p["lits"]])
            elif k == "amoh":
                sm.heuleencoding([Literal(PRE + v, s) for v, s in p["lits"]], p["kk"])
            elif k == "ineq":
                q = Ineq(build_expr(p["lt"], 0), build_expr(p["rt"], p["b"]), opstr[p["op"]])
                norm = {"t": [[q.lhs.t[v].L.v, bool(q.lhs.t[v].L.s), int(q.lhs.t[v].c)] for v in q.lhs.t],
                        "rhs": int(q.rhs), "op": q.op}
                sm.pseudoboolencoding(q, p["decomp"])
            elif k == "api":
                # the public methods of the manager that post nothing (prioritize, setflipped, isflipped, newaux,
                # printclauses, tocnf, solve, value, evalexpr, newvar with another prefix): histories only
                from harness.props.c07 import do_api
                do_api(sm, p)
            status.append("A")
        except Exception as e:
            if type(e) is Exception and str(e) in ("Not implemented yet.", "k must be at least 3"):
                status.append("R")
            else:
                status.append("X:" + type(e).__name__)
        norms.append(norm)
        memlens.append(len(pb.memory))
    names = canon_nodes(pb)
    import re

    def cn(v):
        m = re.fullmatch(r"robdd_(\d+)", v)
        return "robdd:" + names.get(int(m.group(1)), "?") if m else v
    raw = {"mem0": mem0, "newmem": [[str(x[0]), int(x[1]), int(x[2])] for x in pb.memory[memlen0:]], "big": big,
           "memlen0": memlen0, "memlens": memlens,
           "clauses": [[[l.v, bool(l.s)] for l in c] for c in sm.clauses], "aux": sm.auxcount,
           "codified": [int(i) for i in sm.codified], "vtable": list(sm.vtable[1:]), "status": status,
           "norms": norms, "head_ok": head_ok,
           "mmap_ok": len(pb.mmap) == len(pb.memory) - 2 and
           (big or all(pb.mmap.get(n) == i + 2 for i, n in enumerate(pb.memory[2:])))}
    # what the user of the manager can observe, node ids renamed canonically
    view = {"clauses": [[[cn(l.v), bool(l.s)] for l in c] for c in sm.clauses], "aux": sm.auxcount,
            "vtable": [cn(v) for v in sm.vtable[1:]], "status": status,
            "codified": [names.get(int(i), "?") for i in sm.codified]}
    res = None
    users = sorted({p["v"] for p in op["posts"] if p["k"] == "newvar"})
    # the manager's own rendering of its clauses (integers by order of registration: no diagram-store id in it)
    try:
        view["cnf"] = sm.tocnf()
    except EXPECTED as e:
        view["cnf"] = {"raised": type(e).__name__}
    view["flipped"] = [bool(sm.isflipped(PRE + v)) for v in users]
    if op.get("solve"):
        res = bool(sm.solve())
        view["solve"] = res
        # the model the manager exposes (the solver is deterministic: same clauses, same integers, same model)
        view["values"] = [[sm.value(Literal(PRE + v)), sm.value(Literal(PRE + v, False))] for v in users]
        view["evalsum"] = sm.evalexpr(build_expr([[v, i % 2 == 0, i + 1] for i, v in enumerate(users)], 3))
    if len(users) <= 10:
        # the meaning of the encoding for its user: the projection of the CNF on the registered variables
        view["ext"] = raw["ext"] = user_projection(sm, users)
        raw["users"] = users
    return {"view": view, "_raw": raw}


# ---- legaliser model construction (never solved)
def ser_tree(t, depth=0):
    from tools.legalfloor.expression_tree import NodeType
    if depth > 60:
        return "..."
    if t.type == NodeType.CST:
        return ["c", t.value]
    if t.type == NodeType.VAR:
        return ["v", t.data["name"], t.data["lb"], t.data["ub"], getattr(t.value, "name", None),
                list(t.value.value) if hasattr(t.value.value, "__iter__") else t.value.value]
    if isinstance(t.value, list):
        return [int(t.type), [ser_tree(x, depth + 1) for x in t.value]]
    return [int(t.type), repr(t.value)]


def op_legal(op):
    from frame.netlist.netlist import Netlist
    from tools.legalfloor import legalfloor as lf
    from tools.legalfloor import expression_tree as et
    buf = io.StringIO()
    try:
        with contextlib.redirect_stdout(buf):
            n = Netlist(op["doc"])
            ml, al, xl, yl, wl, hl, hyper, og = lf.netlist_to_utils(n)
            m = lf.Model(ml, al, xl, yl, wl, hl, op["W"], op["H"], hyper, op.get("max_ratio", 3.0), og,
                         op.get("t0", 0.9), op.get("dt", 0.3), op.get("wl_mult", 1.0))
    except EXPECTED as e:
        return err(e)
    groups = []
    for g, eqs in m.gekko.constraints.items():
        groups.append([g, [[e.name, int(e.cmp), bool(e.hard), bool(e.enforce), ser_tree(e.lhs), ser_tree(e.rhs),
                            e.lhs.evaluate(), e.rhs.evaluate(), bool(e.is_equation_met())] for e in eqs]])
    macro = []
    for g, eqs in m.gekko.macro_constraints.items():
        macro.append([g, [[e.name, int(e.cmp), bool(e.hard), bool(e.enforce), e.lhs.evaluate(), e.rhs.evaluate()]
                          for e in eqs]])
    return {"groups": groups, "macro": macro, "vars": [ser_tree(v) for v in m.gekko.variable_list],
            "epsilon": et.get_epsilon(), "tau": m.tau.evaluate(), "objective": m.objective().evaluate(),
            "printed": buf.getvalue()[:2000], "utils": [ml, al, xl, yl, wl, hl, hyper, og],
            "debug_mask": et.debug_print, "named": sorted(et.named_variables)}


# ---- strop
def op_strop(op):
    from tools.floorset_parser.floor_set_manager.strop import Strop
    try:
        if op.get("height") is not None or op.get("width") is not None:
            kw = {}
            if op.get("height") is not None:
                kw["height"] = list(op["height"])
            if op.get("width") is not None:
                kw["width"] = list(op["width"])
            s = Strop(op["matrix"], **kw)
        else:
            s = Strop(op["matrix"])
    except EXPECTED as e:
        return err(e)
    inst = []
    for t in s.instances():
        inst.append([[r.rows.low, r.rows.high, r.columns.low, r.columns.high] for r in t.rectangles()])
    return {"is": bool(s.is_strop), "instances": inst, "height": list(s._height), "width": list(s._width)}


# ---- objects built with default arguments
def op_defaults(op):
    from tools.rect.pseudobool import Ineq, Expr, Literal, Term
    out = []
    for step in op["steps"]:
        k = step[0]
        try:
            if k == "ineq0":
                q = Ineq()
            elif k == "ineq_l":
                q = Ineq(lhs=build_expr(step[1], step[2]))
            elif k == "ineq_r":
                q = Ineq(rhs=build_expr(step[1], step[2]))
            elif k == "ineq_op":
                q = Ineq(op=step[1])
            elif k == "expr0":
                e = Expr()
                out.append(["expr", e.c, [[v, e.t[v].L.v, bool(e.t[v].L.s), e.t[v].c] for v in e.t]])
                if step[1:]:
                    e = e + Term(Literal(step[1]), 3)     # using the object must not change the next default
                    e.c = 7
                continue
            elif k == "use":
                # mutate what a previous call handed out: the object is the caller's
                q = Ineq()
                q.lhs.c = 5
                q.lhs = q.lhs + Literal("leak")
                continue
            else:
                raise ValueError(k)
            out.append(["ineq", [[v, q.lhs.t[v].L.v, bool(q.lhs.t[v].L.s), q.lhs.t[v].c] for v in q.lhs.t],
                        q.lhs.c, q.rhs, q.op, q.clause if q.clause is None else len(q.clause)])
        except EXPECTED as e:
            out.append(err(e))
    return {"steps": out}


OPS = {"netlist": op_netlist, "die": op_die, "alloc": op_alloc, "allocflow": op_allocflow, "stog": op_stog, "sat": op_sat, "satgrow": op_satgrow,
       "legal": op_legal, "strop": op_strop, "defaults": op_defaults}


def state():
    """the process-wide state of the anchored modules, read without changing it"""
    st = {}
    g = sys.modules.get("frame.geometry.geometry")
    if g is not None:
        st["eps"] = [g.Rectangle._distance_epsilon, g.Rectangle._area_epsilon]
    pb = sys.modules.get("tools.rect.pseudobool")
    if pb is not None:
        st["memlen"] = len(pb.memory)
    et = sys.modules.get("tools.legalfloor.expression_tree")
    if et is not None:
        try:
            st["leg_eps"] = et.get_epsilon()
        except Exception:
            st["leg_eps"] = None
        st["debug_mask"] = et.debug_print
        st["named"] = len(et.named_variables)
    return st


def exec_op(op):
    op = unjson(op)
    before = state()
    try:
        with contextlib.redirect_stdout(io.StringIO()):
            obs = OPS[op["k"]](op)
    except Exception as e:      # nothing else is expected to escape
        obs = {"escaped": type(e).__name__, "msg": str(e)[:200], "tb": traceback.format_exc()[-600:]}
    raw = obs.pop("_raw", None) if isinstance(obs, dict) else None
    res = {"digest": digest(obs), "obs": tojson(obs), "before": tojson(before), "after": tojson(state())}
    if raw is not None:
        res["raw"] = tojson(raw)
    return res


def preimport():
    import frame.geometry.geometry
    import frame.netlist.netlist
    import frame.die.die
    import frame.allocation.allocation
    import tools.rect.pseudobool
    import tools.rect.satmanager
    import tools.floorset_parser.floor_set_manager.strop
    with contextlib.redirect_stdout(io.StringIO()):
        import tools.legalfloor.legalfloor


def in_child(fn):
    """run fn() in a forked child, return its JSON-able result"""
    r, w = os.pipe()
    pid = os.fork()
    if pid == 0:
        code = 0
        try:
            os.close(r)
            try:
                data = json.dumps(fn())
            except BaseException as e:
                data = json.dumps({"worker_error": f"{type(e).__name__}: {e}", "tb": traceback.format_exc()[-800:]})
            with os.fdopen(w, "w") as f:
                f.write(data)
        except BaseException:
            code = 3
        finally:
            os._exit(code)
    os.close(w)
    with os.fdopen(r) as f:
        data = f.read()
    os.waitpid(pid, 0)
    try:
        return json.loads(data)
    except Exception:
        return {"worker_error": "child died", "data": data[:300]}


def run_job(job, fork=True):
    if job.get("preset") is not None:
        from frame.geometry.geometry import Rectangle
        e, a = unjson(job["preset"])
        Rectangle.set_epsilon(e, a)
    trace = []
    for op in job.get("history", []):
        r = exec_op(op)
        trace.append({"digest": r["digest"], "after": r["after"], "raised": isinstance(unjson(r["obs"]), dict) and
                      (unjson(r["obs"]).get("raised") or unjson(r["obs"]).get("escaped"))})
    probes = []
    tails = job.get("tails") or [None] * len(job.get("probes", []))

    def with_tail(op, tail):
        # the last operations of the history are executed in the probe's own fork (histories that share all but
        # their last operations are executed once)
        tr = []
        for t in tail or []:
            r = exec_op(t)
            tr.append({"digest": r["digest"], "after": r["after"], "obs": r["obs"]})
        res = exec_op(op)
        if tail:
            res["tail"] = tr
        return res
    for op, tail in zip(job.get("probes", []), tails):
        probes.append(in_child(lambda op=op, tail=tail: with_tail(op, tail)) if fork else with_tail(op, tail))
    return {"id": job.get("id"), "trace": trace, "probes": probes}


def main():
    req = json.loads(sys.stdin.read())
    out = []
    if req.get("fork", True):
        preimport()
        for job in req["jobs"]:
            out.append(in_child(lambda job=job: run_job(job, True)))
    else:
        for job in req["jobs"]:
            out.append(run_job(job, False))
    sys.stdout.write(json.dumps(out))


if __name__ == "__main__":
    main()
