"""Shared by C04 and C05: netlist document generators, the driver of the real
reader/writer (frame.netlist.netlist.Netlist through the real ruamel text layer),
Gallina printers for documents and loaded netlists, defect injection, shrinking.

A *document* is plain data: dict (insertion ordered) / list / str / bool /
int (a YAML int) / Fraction (a YAML float with that exact or decimal value)."""
from __future__ import annotations

import math
import re
from decimal import Decimal, getcontext
from fractions import Fraction as F

from harness import core, fr
from harness.core import gq, gbool, gstr, glist, gopt

getcontext().prec = 60

HEADER = """From FrameModel Require Import Num.QcTac Geometry.Rect Cases.Cmp Yaml.Tree Yaml.NetlistRead
  Yaml.NetlistWrite Yaml.NetlistReadForms Cases.CmpC0405.
Open Scope Qc_scope."""

ASSUMPTIONS = [
    "the YAML text layer (ruamel) is exercised on every case but not modelled: the model starts from the loaded tree",
    "binary64 arithmetic is exact on the dyadic stream (coordinates k/8 below 2^8); quotients (centroids, 1/aspect ratio) "
    "are compared within 4 roundings, epsilons within 64, squared distances within 64 roundings of the largest squared coordinate",
    "math.sqrt is a parameter of the model (sqrt_o); the generated files instantiate it with an integer-square-root "
    "approximation (relative error < 2^-60, exact on squares)",
    "decimal documents (multiples of 0.1) are checked by the direct oracle only",
    "a mapping with a repeated key is not a Python dict (ruamel raises DuplicateKeyError): the model rejects such association lists",
    "strings are handed to the model as their UTF-8 bytes (any str, control characters and non-ASCII included); a mapping key "
    "that is no str (YAML null / true / 12 / 1e3) as the byte 255 followed by its repr - no str encodes to that, so the model "
    "sees what the code can see of it: no identifier, no keyword, different from every other key; None is the tree YNull",
    "input forms: the document written by the real write_yaml, a YAML text spelled by the harness, or the name of a file holding "
    "either is given to Netlist(...) only when the real loader (YAML(typ='safe')) reads exactly the document back from it "
    "(types, key order, sign of zero); otherwise the tree itself is given. The model is run on that document",
    "histories: each load (also those that precede the observed one) starts from an undefined Rectangle epsilon; the model is a "
    "function of the current document, so a stale cache or shared object shows as a disagreement",
    "which assertion rejects a document is not compared (only accepted / rejected); the agreement of the assertion class with "
    "the model's is recorded as a statistic (rejections_same_assertion_as_model)",
    "geometry tolerances are relative to the smallest dimension of the design: boundary-valid documents keep every area / size "
    "at the scale of the coordinates (>= 1/16 for coordinates below 2^8), where x + epsilon is not rounded back to x; the one "
    "document beyond that scale is corpus/C05/flip-stog-small-epsilon.json (finding C05/well-formed-rejected-small-scale, repaired)",
]

CLASSES = ["unknown-module", "nonpositive-weight", "nonpositive-area", "soft-without-area", "hard-with-area",
           "hard-without-rectangles", "hard-overlap", "unknown-attribute", "invalid-name", "one-pin-net",
           "nonpositive-rect-size"]

# assertion message -> admissible model reasons
MSG2REASON = [
    (r"root node is not a dictionary", ["R_root_not_map"]),
    (r"The input must be a YAML tree", ["R_source"]),
    (r"^Unknown key", ["R_root_key"]),
    (r"node for modules is not a dictionary", ["R_modules_not_map"]),
    (r"Invalid module name|Invalid name for module|Incorrect module name", ["R_module_name"]),
    (r"The YAML node for module .* is not a dictionary", ["R_module_not_map"]),
    (r"^Unknown module attribute", ["R_module_attr"]),
    (r"Incorrect format for the center", ["R_center_format"]),
    (r"^Incorrect aspect ratio for module", ["R_ar_value"]),
    (r"Incorrect format for aspect ratio", ["R_ar_format"]),
    (r"Incorrect value for aspect ratio", ["R_ar_range"]),
    (r"Area must be positive", ["R_area_positive"]),
    (r"Invalid area specification", ["R_area_spec"]),
    (r"Invalid region identifier", ["R_area_region"]),
    (r"Invalid value for area", ["R_area_value"]),
    (r"incorrect value for fixed", ["R_fixed_bool"]),
    (r"are mutually exclusive", ["R_hard_fixed_exclusive"]),
    (r"incorrect value for hard", ["R_hard_bool"]),
    (r"incorrect value for flip", ["R_flip_bool"]),
    (r"terminal cannot have area", ["R_terminal_area"]),
    (r"terminal cannot have aspect ratio", ["R_terminal_ar"]),
    (r"terminal cannot have flip", ["R_terminal_flip"]),
    (r"incorrect value for terminal", ["R_terminal_bool"]),
    (r"aspect ratio incompatible with hard", ["R_ar_hard"]),
    (r"fixed terminal must have coordinates", ["R_fixed_terminal_center"]),
    (r"Incorrect specification of rectangles", ["R_rects_spec"]),
    (r"Incorrect format for rectangle", ["R_rect_format"]),
    (r"Incorrect value for rectangle", ["R_rect_value"]),
    # bare asserts: region of a rectangle, create_stog on no rectangle, `assert isinstance(key, str)` of parse_yaml_module
    # (and `assert isinstance(stream, TextIO)` of read_yaml when Netlist(None) is called)
    (r"^$", ["R_rect_region", "R_stog_empty", "R_module_attr", "R_source"]),
    (r"Hard rectangles cannot be assigned", ["R_rect_hard_region"]),
    (r"Incorrect rectangle width", ["R_rect_width"]),
    (r"Incorrect rectangle height", ["R_rect_height"]),
    (r"It should be also hard", ["R_setup_fixed_not_hard"]),
    (r"^Fixed module .* cannot be flipped", ["R_setup_flip_fixed"]),
    (r"^Soft module .* cannot be flipped", ["R_setup_flip_soft"]),
    (r"No area defined for a soft module", ["R_setup_no_area"]),
    (r"^Terminal module .* is not hard", ["R_setup_terminal_not_hard"]),
    (r"cannot specify area", ["R_setup_hard_area"]),
    (r"cannot specify center", ["R_setup_hard_center"]),
    (r"cannot specify aspect ratio", ["R_setup_hard_ar"]),
    (r"must have at least one rectangle", ["R_setup_hard_no_rect"]),
    (r"Incorrect format for the list of edges", ["R_edges_format"]),
    (r"Incorrect specification of edge", ["R_edge_spec"]),
    (r"is hard and has neither center nor rectangles", ["R_cr_no_center"]),
    (r"Cannot calculate square", ["R_square_center"]),
    (r"overlapping rectangles", ["R_hard_overlap"]),
    (r"Not all flip modules have a STOG", ["R_flip_no_stog"]),
    (r"^Unknown module .* in edge", ["R_unknown_module"]),
    (r"Incorrect edge weight", ["R_weight"]),
]


# --------------------------------------------------------------------------
# documents
# --------------------------------------------------------------------------
def is_num(x):
    return isinstance(x, (int, F, float)) and not isinstance(x, bool)


NSKEY = "\x00!"      # a mapping key that is not a str is held in a document as NSKEY + repr(key)


def nskey(k) -> str:
    """the document form of a mapping key that is not a string (None, True, 12, 1000.0: YAML `null:`, `true:` ...)"""
    assert k is None or isinstance(k, (bool, int, float))
    return NSKEY + repr(k)


def unkey(k):
    if isinstance(k, str) and k.startswith(NSKEY):
        import ast
        return ast.literal_eval(k[len(NSKEY):])
    return k


def to_py(d):
    """The Python object FRAME / ruamel sees: Fraction -> float, NSKEY keys -> the key objects."""
    if isinstance(d, F):
        return float(d)
    if isinstance(d, dict):
        return {unkey(k): to_py(v) for k, v in d.items()}
    if isinstance(d, list):
        return [to_py(v) for v in d]
    return d


def from_py(d):
    """A loaded YAML tree as a document (floats become exact Fractions)."""
    if d is None or isinstance(d, bool) or isinstance(d, (int, str)):
        return d
    if isinstance(d, float):
        if d != d or d in (math.inf, -math.inf):
            return d
        return F(*d.as_integer_ratio())
    if isinstance(d, dict):
        return {(k if isinstance(k, str) else nskey(k)): from_py(v) for k, v in d.items()}
    if isinstance(d, (list, tuple)):
        return [from_py(v) for v in d]
    raise TypeError(type(d))


def seen(d):
    """The document with every float replaced by the exact value of the binary64 FRAME receives."""
    return from_py(to_py(d))


HAS_NULL = True      # the tree model has a constructor for None (Yaml/Tree.v: YNull)


def encodable(x: str) -> bool:
    try:
        x.encode("utf-8")
        return True
    except UnicodeEncodeError:
        return False


def key_ok(k) -> bool:
    """a mapping key the model can represent: any str (NSKEY keys included, see gkey)"""
    return isinstance(k, str) and encodable(k)


def exact_doc(d) -> bool:
    """The model can be run on the document: every float is a finite binary64 given exactly (dyadic),
    every string has a UTF-8 encoding, None only if the tree model has it."""
    if isinstance(d, F):
        return F(*float(d).as_integer_ratio()) == d
    if isinstance(d, bool) or isinstance(d, int):
        return True
    if isinstance(d, float):
        return d == d and abs(d) != math.inf
    if isinstance(d, dict):
        return all(key_ok(k) and exact_doc(v) for k, v in d.items())
    if isinstance(d, list):
        return all(exact_doc(v) for v in d)
    if isinstance(d, str):
        return encodable(d)
    if d is None:
        return HAS_NULL
    return False


def gbytes(b: bytes) -> str:
    """A Coq string holding exactly these bytes (printable ASCII as a literal, the rest as "ddd"%char)."""
    if all(32 <= c < 127 for c in b):
        return core.gstr(b.decode("ascii"))
    expr = 'EmptyString'
    i = len(b)
    while i > 0:
        j = i
        while j > 0 and 32 <= b[j - 1] < 127:
            j -= 1
        if j < i:
            lit = b[j:i].decode("ascii").replace('"', '""')
            expr = f'(String.append "{lit}"%string {expr})'
            i = j
        else:
            expr = f'(String "{b[i - 1]:03d}"%char {expr})'
            i -= 1
    return expr


def gs(x: str) -> str:
    """A Python str as the Coq string of its UTF-8 bytes (injective; ASCII identifiers are themselves)."""
    return gbytes(x.encode("utf-8"))


def gkey(k: str) -> str:
    """A mapping key. A key that is not a str (YAML `null:`, `true:`, `1e3:` ...; NSKEY + repr in a document) is
    printed as the byte 255 followed by its repr: no str has such an encoding, so the model sees a key that is no
    identifier, no keyword and equal to no other key - which is all the code can find out about it
    (valid_identifier / `key in [...]` / `isinstance(key, str)` all fail)."""
    if k.startswith(NSKEY):
        return gbytes(b"\xff" + k[len(NSKEY):].encode("ascii"))
    return gs(k)


def gtree(d) -> str:
    if d is None:
        return "YNull"
    if isinstance(d, bool):
        return f"(YBool {gbool(d)})"
    if isinstance(d, int):
        return f"(YNum {gq(F(d))} true)"
    if isinstance(d, F):
        return f"(YNum {gq(d)} false)"
    if isinstance(d, float):
        return f"(YNum {gq(d)} false)"
    if isinstance(d, str):
        return f"(YStr {gs(d)})"
    if isinstance(d, list):
        return f"(YList {glist([gtree(x) for x in d])})"
    if isinstance(d, dict):
        return "(YMap " + glist([f"({gkey(k)}, {gtree(v)})" for k, v in d.items()]) + ")"
    raise TypeError(type(d))


def val(x) -> F:
    """numeric value of a scalar of a document / of an observation (bool counts as 0/1, as in Python)"""
    if isinstance(x, bool):
        return F(int(x))
    if isinstance(x, float):
        if not math.isfinite(x):
            return x      # an infinity of an `extreme` document (oracle only): equal to itself, unequal to every Fraction
        return F(*x.as_integer_ratio())
    return F(x)


# --------------------------------------------------------------------------
# running the real code
# --------------------------------------------------------------------------
def rect_obs(r):
    return {"x": r.center.x, "y": r.center.y, "w": r.shape.w, "h": r.shape.h, "region": r.region,
            "fixed": bool(r.fixed), "hard": bool(r.hard), "loc": fr.LOCS[r.location.name]}


def netlist_obs(n) -> dict:
    from frame.geometry.geometry import Rectangle
    mods = []
    for m in n.modules:
        mods.append({
            "name": m.name,
            "center": None if m.center is None else [m.center.x, m.center.y],
            "ar": None if m.aspect_ratio is None else [m.aspect_ratio.min_wh, m.aspect_ratio.max_wh],
            "terminal": bool(m.is_terminal), "hard": bool(m.is_hard), "fixed": bool(m.is_fixed),
            "flip": bool(m.flip),
            "area_regions": [[k, v] for k, v in m.area_regions.items()],
            "area": m.area(),
            "rects": [rect_obs(r) for r in m.rectangles],
        })
    edges = []
    for e in n.edges:
        try:
            wl = e.wire_length
        except AssertionError:
            wl = None
        edges.append({"members": [b.name for b in e.modules], "weight": e.weight, "wl": wl})
    try:
        twl = n.wire_length
    except AssertionError:
        twl = None
    try:
        de = Rectangle.distance_epsilon()
        ae = Rectangle.area_epsilon()
    except AssertionError:
        # still undefined after the load: a design without any dimension defines no tolerance
        # (the tree before "fix: a netlist without any dimension ..." set it to inf; both are nl_eps = None)
        de = ae = math.inf
    eps = None if (math.isinf(de) or math.isinf(ae)) else [de, ae]
    return {"modules": mods, "edges": edges, "rects": [rect_obs(r) for r in n.rectangles],
            "fixed_rects": [rect_obs(r) for r in n.fixed_rectangles()], "wl": twl, "eps": eps}


def load(src, eps=None):
    """Run Netlist(src) from a fresh epsilon state. Returns (netlist | None, verdict dict)."""
    from frame.netlist.netlist import Netlist
    from frame.geometry.geometry import Rectangle
    Rectangle.undefine_epsilon()
    if eps is not None:
        Rectangle.set_epsilon(float(eps[0]), float(eps[1]))
    try:
        n = Netlist(src)
    except AssertionError as e:
        return None, {"verdict": "reject", "msg": str(e)}
    except Exception as e:  # not an assertion: still not loaded
        return None, {"verdict": "exception", "msg": f"{type(e).__name__}: {e}"}
    return n, {"verdict": "ok"}


def same_tree(a, b) -> bool:
    """equality of loaded trees including the int / float / bool / str types and the key order"""
    if type(a) is not type(b):
        return False
    if isinstance(a, dict):
        return list(a) == list(b) and all(type(x) is type(y) for x, y in zip(a, b)) and \
            all(same_tree(a[k], b[k]) for k in a)
    if isinstance(a, list):
        return len(a) == len(b) and all(same_tree(x, y) for x, y in zip(a, b))
    if isinstance(a, float):
        return a == b and math.copysign(1, a) == math.copysign(1, b)
    return a == b


def text_of(doc, spelled=None):
    """The YAML text handed to Netlist(...): the hand-spelled text of the case if it has one, else the document
    written by the real write_yaml - provided the real loader reads exactly the document back from it (ruamel does
    not round-trip every string, e.g. U+0085) and read_yaml would take it for a text (': ').  None = give the tree."""
    from frame.utils.utils import write_yaml
    from ruamel.yaml import YAML
    for how in ("spelled", "ruamel"):
        try:
            text = spelled if how == "spelled" else write_yaml(doc)
            if isinstance(text, str) and ": " in text and same_tree(YAML(typ="safe").load(text), doc):
                return text, how
        except Exception:
            pass
    return None, "tree"


def run_impl(case):
    """text = write_yaml(document) (real ruamel dump) or the case's own spelling; n1 = Netlist(text);
    text1 = n1.write_yaml(); n2 = Netlist(text1); text2 = n2.write_yaml().
    case["via"]: "tree" = Netlist(document), "file" = Netlist(name of a file holding the text),
    "stream" = Netlist(open text stream holding the text).
    case["history"]: documents loaded (and written) in the same process before, each from an undefined epsilon;
    case["twice"]: the very same source object is loaded twice, the second load is observed."""
    import os
    import tempfile
    from ruamel.yaml import YAML
    doc = to_py(case["doc"])
    eps = case.get("eps")
    for h in case.get("history") or []:
        hd = to_py(h["doc"])
        ht = None if h.get("via") == "tree" else text_of(hd)[0]
        nh, _ = load(hd if ht is None else ht, eps)
        if nh is not None and h.get("write", True):
            nh.write_yaml()
    text, how = (None, "tree") if case.get("via") == "tree" else text_of(doc, case.get("text"))
    src = doc if text is None else text
    tmp = None
    if case.get("via") == "file" and text is not None:
        tmp = tempfile.mkdtemp(prefix="nl")
        src = os.path.join(tmp, "netlist.yaml")
        if ": " in src:
            src = text
        else:
            with open(src, "w", encoding="utf-8", newline="") as f:
                f.write(text)
            try:        # read back the way read_yaml does: the file must hold the document
                with open(src) as f:
                    same = same_tree(YAML(typ="safe").load(f.read()), doc)
            except Exception:
                same = False
            if same:
                how = how + "-file"
            else:
                src = text
    if case.get("via") == "stream" and text is not None:
        import io
        src = io.StringIO(text)
        how = how + "-stream"
    try:
        return _observe(case, src, text, how, eps)
    finally:
        if tmp is not None:
            import shutil
            shutil.rmtree(tmp, ignore_errors=True)


def _observe(case, src, text, how, eps):
    from ruamel.yaml import YAML
    if case.get("twice") and not how.endswith("-stream"):      # (a stream can be read once)
        load(src, eps)
    obs = {"text": text, "via": how}
    n1, v = load(src, eps)
    obs.update(v)
    if n1 is None:
        return obs
    obs["n1"] = netlist_obs(n1)
    text1 = n1.write_yaml()
    obs["text1"] = text1
    obs["text1_again"] = n1.write_yaml()      # the design written a second time ...
    obs["n1_after"] = netlist_obs(n1)         # ... and as it is after having been written
    try:
        obs["tree1"] = from_py(YAML(typ="safe").load(text1))
    except Exception as e:
        obs["tree1"] = None
        obs["tree1_error"] = f"{type(e).__name__}: {e}"
    # the reload keeps the epsilon the first load left behind? No: each load starts afresh,
    # so that the comparison does not depend on process history (C20 covers that)
    n2, v2 = load(text1 if ": " in text1 else to_py(obs["tree1"]), eps)
    obs["reload"] = v2
    if n2 is not None:
        obs["n2"] = netlist_obs(n2)
        obs["text2"] = n2.write_yaml()
    return obs


# --------------------------------------------------------------------------
# Gallina for the observation
# --------------------------------------------------------------------------
def gscalar(x) -> str:
    if isinstance(x, bool):
        return f"(SBool {gbool(x)})"
    if isinstance(x, int):
        return f"(SNum {gq(F(x))} true)"
    return f"(SNum {gq(x)} false)"


def gmrect(r) -> str:
    return (f"(mkMRect {gscalar(r['x'])} {gscalar(r['y'])} {gscalar(r['w'])} {gscalar(r['h'])} "
            f"{gs(r['region'])} {gbool(r['fixed'])} {gbool(r['hard'])} {r['loc']})")


def gqpair(p) -> str:
    return f"({gq(val(p[0]))}, {gq(val(p[1]))})"


def gmodule(m) -> str:
    return (f"(mkModule {gs(m['name'])} {gopt(None if m['center'] is None else gqpair(m['center']))} "
            f"{gopt(None if m['ar'] is None else gqpair(m['ar']))} {gbool(m['terminal'])} {gbool(m['hard'])} "
            f"{gbool(m['fixed'])} {gbool(m['flip'])} "
            f"{glist([f'({gs(k)}, {gq(val(v))})' for k, v in m['area_regions']])} "
            f"{glist([gmrect(r) for r in m['rects']])})")


def sqdists(n1, e):
    """squared distances member centre - mean, exact, from the implementation's own centres"""
    cs = []
    byname = {m["name"]: m for m in n1["modules"]}
    for b in e["members"]:
        c = byname[b]["center"]
        if c is None:
            return None
        cs.append((val(c[0]), val(c[1])))
    mx = sum(c[0] for c in cs) / len(cs)
    my = sum(c[1] for c in cs) / len(cs)
    return [(mx - c[0]) ** 2 + (my - c[1]) ** 2 for c in cs]


def reasons_of(msg: str) -> list[str]:
    for pat, rs in MSG2REASON:
        if re.search(pat, msg):
            return rs
    return []


def gobserved(obs) -> str:
    if obs["verdict"] != "ok":
        rs = reasons_of(obs["msg"]) if obs["verdict"] == "reject" else []
        return f"(ORejected {glist(rs)})"
    n1 = obs["n1"]
    sq = []
    for e in n1["edges"]:
        d = sqdists(n1, e)
        sq.append(gopt(None if d is None else glist([gq(x) for x in d])))
    return ("(OLoaded " + glist([gmodule(m) for m in n1["modules"]]) + " "
            + glist([f"(mkNet {glist([gs(b) for b in e['members']])} {gq(val(e['weight']))})" for e in n1["edges"]]) + " "
            + glist([gmrect(r) for r in n1["rects"]]) + " "
            + gopt(None if n1["eps"] is None else gqpair(n1["eps"])) + " "
            + gtree(obs["tree1"]) + " " + glist(sq) + ")")


def reason_stat(ctx, out, pairs):
    """Statistic (no verdict depends on it): on how many rejected documents the assertion that fired is the one the
    model fires. pairs = [(case, obs)]."""
    exprs = []
    for case, obs in pairs:
        if obs.get("verdict") == "reject" and case.get("exact", True) and exact_doc(case["doc"]) \
                and isinstance(case["doc"], (dict, list)) and reasons_of(obs.get("msg", "")):
            eps = case.get("eps")
            geps = gopt(None if eps is None else f"({gq(eps[0])}, {gq(eps[1])})")
            exprs.append(f"reason_agrees {geps} {gtree(case['doc'])} {gobserved(obs)}")
    res = core.coq_eval_bools(ctx, HEADER, exprs, shard=400, tag="reasons") if exprs else []
    out.extra["rejections_with_known_message"] = len(exprs)
    out.extra["rejections_same_assertion_as_model"] = sum(1 for r in res if r is True)


def to_coq(case, obs):
    if not case.get("exact", True) or not exact_doc(case["doc"]):
        return "true"      # decimal / non-ASCII documents: direct oracle only
    eps = case.get("eps")
    geps = gopt(None if eps is None else f"({gq(eps[0])}, {gq(eps[1])})")
    if not isinstance(case["doc"], (dict, list)) and obs.get("via") == "tree":
        return f"check_other {geps} {gobserved(obs)}"      # Netlist(None), Netlist(3): no tree, no text
    return f"check_case {geps} {gtree(case['doc'])} {gobserved(obs)}"


# --------------------------------------------------------------------------
# generators
# --------------------------------------------------------------------------
NAMES = ["A", "B", "C", "D", "m0", "m1", "M_2", "_x", "_", "__", "null", "y", "n", "true", "False", "NO", "on", "off",
         "Yes", "None", "x9", "Z_z_9", "area", "hard", "a1b2", "E", "F", "G", "k", "q7"]
REGIONS = ["_", "lut", "dsp", "bram", "R_1"]


def num(rng, v: F, allow_int=True):
    """A YAML scalar with value v: an int when integral (sometimes), a float otherwise."""
    if allow_int and v.denominator == 1 and rng.random() < 0.5:
        return int(v)
    return F(v)


def gen_boxes(rng, unit: F, stog: bool, disjoint: bool, k: int):
    """k boxes (x0, y0, x1, y1) in lattice units*unit. stog: a trunk with branches on its sides;
    disjoint: no two overlap. The trunk is not necessarily first."""
    for _ in range(200):
        tw, th = rng.randrange(3, 11), rng.randrange(3, 11)
        tx, ty = rng.randrange(6, 20), rng.randrange(6, 20)
        trunk = (tx, ty, tx + tw, ty + th)
        boxes = [trunk]
        sides = ["N", "S", "E", "W"]
        rng.shuffle(sides)
        while len(boxes) < k:
            mode = "branch" if (stog or rng.random() < 0.7) else rng.choice(["wide", "free", "corner", "gap"])
            side = sides[(len(boxes) - 1) % 4]
            d = rng.randrange(1, 5)
            if side in "NS":
                a = rng.randrange(tx, tx + tw)
                b = rng.randrange(a + 1, tx + tw + 1)
                if mode == "wide":
                    a, b = tx - rng.randrange(1, 3), tx + tw + rng.randrange(0, 3)
                y0, y1 = (ty + th, ty + th + d) if side == "N" else (ty - d, ty)
                if mode == "gap":
                    y0, y1 = y0 + (1 if side == "N" else -1), y1 + (1 if side == "N" else -1)
                bx = (a, y0, b, y1)
            else:
                a = rng.randrange(ty, ty + th)
                b = rng.randrange(a + 1, ty + th + 1)
                if mode == "wide":
                    a, b = ty - rng.randrange(1, 3), ty + th + rng.randrange(0, 3)
                x0, x1 = (tx + tw, tx + tw + d) if side == "E" else (tx - d, tx)
                if mode == "gap":
                    x0, x1 = x0 + (1 if side == "E" else -1), x1 + (1 if side == "E" else -1)
                bx = (x0, a, x1, b)
            if mode == "free":
                x0, y0 = rng.randrange(0, 30), rng.randrange(0, 30)
                bx = (x0, y0, x0 + rng.randrange(1, 8), y0 + rng.randrange(1, 8))
            if mode == "corner":
                bx = (tx + tw, ty + th, tx + tw + d, ty + th + rng.randrange(1, 4))
            # more than one branch on a side: shrink to a free part
            boxes.append(bx)
        ok = len(set(boxes)) == len(boxes)
        if (disjoint or stog) and ok:
            for i in range(len(boxes)):
                for j in range(i + 1, len(boxes)):
                    a, b = boxes[i], boxes[j]
                    if min(a[2], b[2]) > max(a[0], b[0]) and min(a[3], b[3]) > max(a[1], b[1]):
                        ok = False
        if ok:
            rng.shuffle(boxes)
            if rng.random() < 0.4:      # trunk first, the usual way of writing it
                boxes.remove(trunk)
                boxes.insert(0, trunk)
            return [tuple(F(c) * unit for c in b) for b in boxes]
    return [tuple(F(c) * unit for c in (4, 4, 8, 8))]


def rect_entry(rng, box, region=None, bools=False):
    x0, y0, x1, y1 = box
    r = [num(rng, (x0 + x1) / 2), num(rng, (y0 + y1) / 2), num(rng, x1 - x0), num(rng, y1 - y0)]
    if bools:
        for i in range(4):
            if val(r[i]) == 1 and rng.random() < 0.5:
                r[i] = True
    if region is not None:
        r.append(region)
    return r


def shuffled(rng, d: dict, p=0.5) -> dict:
    if rng.random() < p:
        ks = list(d)
        rng.shuffle(ks)
        return {k: d[k] for k in ks}
    return d


def gen_module(rng, unit: F, quirks: bool):
    kind = rng.choice(["soft", "soft", "soft", "softrect", "softrect", "hard", "hard", "flip", "fixed", "fixed",
                       "terminal", "terminal"])
    m: dict = {}
    q = (lambda p=0.04: quirks and rng.random() < p)
    if kind in ("soft", "softrect"):
        if rng.random() < 0.55:
            a = F(rng.randrange(1, 400), rng.choice([1, 1, 2, 4])) * unit * unit * 16
            m["area"] = True if q() else num(rng, a)
        else:
            regs = rng.sample(REGIONS, rng.randrange(1, 4))
            m["area"] = {r: num(rng, F(rng.randrange(1, 200), rng.choice([1, 2, 4])) * unit * unit * 16) for r in regs}
        if rng.random() < 0.5:
            m["center"] = [num(rng, F(rng.randrange(0, 200), 4) * unit * 4), num(rng, F(rng.randrange(0, 200), 4) * unit * 4)]
            if q():
                m["center"] = [True, False]
        if rng.random() < 0.5:
            if rng.random() < 0.5:
                m["aspect_ratio"] = num(rng, rng.choice([F(1), F(2), F(1, 2), F(4), F(1, 4), F(3), F(5, 2), F(3, 8), F(8)]))
            else:
                m["aspect_ratio"] = [num(rng, rng.choice([F(0), F(1, 4), F(1, 2), F(1), F(3, 8)])),
                                     num(rng, rng.choice([F(1), F(2), F(4), F(5, 2), F(16)]))]
        if kind == "softrect":
            k = rng.randrange(1, 5)
            boxes = gen_boxes(rng, unit, stog=rng.random() < 0.5, disjoint=rng.random() < 0.5, k=k)
            rs = [rect_entry(rng, b, rng.choice([None, None, "_", "lut", "dsp", "bram"]), bools=q(0.1)) for b in boxes]
            m["rectangles"] = rs[0] if (len(rs) == 1 and rng.random() < 0.4) else rs
        if rng.random() < 0.1:
            m[rng.choice(["hard", "fixed", "flip"])] = False
    elif kind in ("hard", "flip", "fixed"):
        k = rng.randrange(1, 6)
        boxes = gen_boxes(rng, unit, stog=(kind == "flip" or rng.random() < 0.6), disjoint=True, k=k)
        rs = [rect_entry(rng, b, None, bools=q(0.1)) for b in boxes]
        if kind == "fixed":
            m["fixed"] = True
        elif kind == "hard" and quirks and rng.random() < 0.05:
            m["terminal"] = False        # as written in the code: sets hard = True
        else:
            m["hard"] = True
        if kind == "flip":
            m["flip"] = True
        elif kind == "hard" and "hard" in m and rng.random() < 0.15:
            m["flip"] = False
        m["rectangles"] = rs[0] if (len(rs) == 1 and rng.random() < 0.3) else rs
    else:
        m["terminal"] = True
        has_center = rng.random() < 0.6
        if has_center:
            m["center"] = [num(rng, F(rng.randrange(0, 200), 4) * unit * 4), num(rng, F(rng.randrange(0, 200), 4) * unit * 4)]
        if has_center and rng.random() < 0.3:
            m["fixed"] = True
        elif rng.random() < 0.15:
            m["hard"] = True
        if rng.random() < 0.12:
            boxes = gen_boxes(rng, unit, stog=True, disjoint=True, k=rng.randrange(1, 3))
            m["rectangles"] = [rect_entry(rng, b) for b in boxes]
    return kind, shuffled(rng, m)


def gen_doc(rng, decimal=False, quirks=True):
    unit = F(1, 10) if decimal else rng.choice([F(1), F(1, 2), F(1, 4), F(1, 8)])
    nm = rng.choice([1, 2, 2, 3, 3, 4, 5, 6, 8])
    names = rng.sample(NAMES, nm)
    mods = {}
    for name in names:
        _, mods[name] = gen_module(rng, unit, quirks and not decimal)
    nets = []
    for _ in range(rng.choice([0, 1, 1, 2, 3, 4, 6])):
        ar = rng.choice([2, 2, 3, 3, 4, 5, 6])
        if ar <= nm and rng.random() < 0.85:
            mem = rng.sample(names, ar)
        else:
            mem = [rng.choice(names) for _ in range(ar)]
        w = rng.random()
        if w < 0.4:
            net = list(mem)
        elif w < 0.5:
            net = mem + [rng.choice([1, F(1)])]
        elif w < 0.53 and quirks and not decimal:
            net = mem + [True]
        elif decimal and w < 0.8:
            net = mem + [F(rng.randrange(1, 100), 10)]
        else:
            net = mem + [num(rng, F(rng.randrange(1, 64), rng.choice([1, 2, 4, 8])))]
        nets.append(net)
    doc = {"Modules": mods, "Nets": nets}
    r = rng.random()
    if r < 0.1:
        doc = {"Nets": nets, "Modules": mods}
    elif r < 0.14 and not nets:
        doc = {"Modules": mods}
    return doc


# --------------------------------------------------------------------------
# syntactic reading of a document (used by the oracles and by defect injection);
# follows the format description, not the code
# --------------------------------------------------------------------------
def mods_of(doc):
    m = doc.get("Modules", {}) if isinstance(doc, dict) else {}
    return m if isinstance(m, dict) else {}


def nets_of(doc):
    n = doc.get("Nets", []) if isinstance(doc, dict) else []
    return n if isinstance(n, list) else []


def rects_of(info):
    rs = info.get("rectangles", []) if isinstance(info, dict) else []
    if isinstance(rs, list) and rs and not isinstance(rs[0], list):
        rs = [rs]
    return rs if isinstance(rs, list) else []


def doc_is_hard(info):
    return info.get("hard") is True or info.get("fixed") is True or "terminal" in info


def doc_is_terminal(info):
    return info.get("terminal") is True


def net_members(net):
    if not isinstance(net, list):
        return []
    if net and (is_num(net[-1]) or isinstance(net[-1], bool)):
        return net[:-1]
    return net


def box_of(r):
    x, y, w, h = (val(v) for v in r[:4])
    return (x - w / 2, y - h / 2, x + w / 2, y + h / 2)


def boxes_overlap_area(a, b) -> F:
    w = min(a[2], b[2]) - max(a[0], b[0])
    h = min(a[3], b[3]) - max(a[1], b[1])
    return w * h if (w > 0 and h > 0) else F(0)


IDENT = re.compile(r"[A-Za-z_][A-Za-z0-9_]*")


def is_ident(x) -> bool:
    """the names of the format: an ASCII letter or '_' followed by ASCII letters, digits, '_' - the whole string"""
    return isinstance(x, str) and IDENT.fullmatch(x) is not None


def numlike(x) -> bool:
    """a Python number as the format's readers see it (bool is an int: False is 0, True is 1)"""
    return isinstance(x, (bool, int, F, float)) and x == x


def doc_hard_true(info) -> bool:
    """the module is stated to be hard: hard / fixed / terminal is literally true"""
    return info.get("hard") is True or info.get("fixed") is True or info.get("terminal") is True


def has_defect(doc, cls) -> bool:
    """Does the document (still) contain a defect of the class? Purely syntactic."""
    mods, nets = mods_of(doc), nets_of(doc)
    infos = [i for i in mods.values() if isinstance(i, dict)]
    if cls == "unknown-module":
        return any(isinstance(b, str) and b not in mods for n in nets for b in net_members(n))
    if cls == "nonpositive-weight":
        return any(isinstance(n, list) and n and numlike(n[-1]) and val(n[-1]) <= 0 for n in nets)
    if cls == "nonpositive-area":
        for info in infos:
            a = info.get("area")
            if numlike(a) and val(a) <= 0:
                return True
            if isinstance(a, dict) and any(numlike(v) and val(v) <= 0 for v in a.values()):
                return True
        return False
    if cls == "soft-without-area":
        # no area attribute, or an area mapping without any region (total area zero)
        return any(not doc_hard_true(i) and "terminal" not in i and ("area" not in i or i["area"] == {})
                   and all(i.get(k, False) is False for k in ("hard", "fixed")) for i in infos)
    if cls == "hard-with-area":
        # any area at all, whatever its value - except the empty mapping, which states no area
        return any(doc_hard_true(i) and "area" in i and i["area"] != {} for i in infos)
    if cls == "hard-without-rectangles":
        return any((i.get("hard") is True or i.get("fixed") is True) and "terminal" not in i
                   and ("rectangles" not in i or i["rectangles"] == []) for i in infos)
    if cls == "hard-overlap":
        for i in infos:
            if (i.get("hard") is True or i.get("fixed") is True) and "terminal" not in i:
                rs = [r for r in rects_of(i) if isinstance(r, list) and len(r) >= 4 and all(is_num(v) for v in r[:4])]
                for a in range(len(rs)):
                    for b in range(a + 1, len(rs)):
                        # "overlapping": by a clearly visible amount (1e-3 of the smaller rectangle)
                        ov = boxes_overlap_area(box_of(rs[a]), box_of(rs[b]))
                        small = min(val(rs[a][2]) * val(rs[a][3]), val(rs[b][2]) * val(rs[b][3]))
                        if ov > 0 and ov >= small / 1000:
                            return True
        return False
    if cls == "unknown-attribute":
        known = ["area", "center", "aspect_ratio", "terminal", "hard", "fixed", "flip", "rectangles"]
        return any(not (isinstance(k, str) and k in known) for i in infos for k in i)
    if cls == "invalid-name":
        # module names; region names of an area mapping; region names of rectangles
        if any(not is_ident(k) for k in mods):
            return True
        for i in infos:
            if isinstance(i.get("area"), dict) and any(not is_ident(k) for k in i["area"]):
                return True
            if any(isinstance(r, list) and len(r) == 5 and isinstance(r[4], str) and not is_ident(r[4])
                   for r in rects_of(i)):
                return True
        return False
    if cls == "one-pin-net":
        return any(isinstance(n, list) and len(net_members(n)) == 1 for n in nets)
    if cls == "nonpositive-rect-size":
        return any(isinstance(r, list) and len(r) in (4, 5) and all(numlike(v) for v in r[:4])
                   and (val(r[2]) <= 0 or val(r[3]) <= 0)
                   for i in infos for r in rects_of(i))
    raise KeyError(cls)


def insert_at(rng, d: dict, k, v) -> dict:
    items = list(d.items())
    items.insert(rng.randrange(0, len(items) + 1), (k, v))
    return dict(items)


def deep(d):
    if isinstance(d, dict):
        return {k: deep(v) for k, v in d.items()}
    if isinstance(d, list):
        return [deep(v) for v in d]
    return d


def inject(rng, doc, cls):
    """One defect of the class at a random position of a well-formed document; None if not applicable."""
    doc = deep(doc)
    mods, nets = doc.get("Modules", {}), doc.get("Nets", [])
    names = list(mods)
    soft = [k for k in names if not doc_is_hard(mods[k])]
    hard = [k for k in names if doc_is_hard(mods[k]) and "terminal" not in mods[k]]
    if cls == "unknown-module":
        if not nets:
            return None
        n = rng.choice(nets)
        i = rng.randrange(len(net_members(n)))
        n[i] = rng.choice(["ghost", "A_", names[0] + "x", names[0].swapcase() if names[0].swapcase() not in mods else "zz9"])
        if n[i] in mods:
            return None
    elif cls == "nonpositive-weight":
        if not nets:
            return None
        n = rng.choice(nets)
        w = rng.choice([0, F(0), -1, F(-1, 2), F(-3), -7])
        if len(n) > len(net_members(n)):
            n[-1] = w
        else:
            n.append(w)
    elif cls == "nonpositive-area":
        if not soft:
            return None
        i = mods[rng.choice(soft)]
        bad = rng.choice([0, F(0), -1, F(-5, 2), F(-1, 8)])
        if isinstance(i["area"], dict):
            i["area"][rng.choice(list(i["area"]))] = bad
        else:
            i["area"] = bad
    elif cls == "soft-without-area":
        cands = [k for k in soft if "hard" not in mods[k] and "fixed" not in mods[k]]
        if not cands:
            return None
        del mods[rng.choice(cands)]["area"]
    elif cls == "hard-with-area":
        allhard = [k for k in names if doc_is_hard(mods[k])]
        if not allhard:
            return None
        k = rng.choice(allhard)
        a = rng.choice([4, F(9, 4), {"_": 4}, {"lut": F(3), "dsp": 2}])
        mods[k] = insert_at(rng, mods[k], "area", a)
    elif cls == "hard-without-rectangles":
        cands = [k for k in hard if mods[k].get("hard") is True or mods[k].get("fixed") is True]
        if not cands:
            return None
        del mods[rng.choice(cands)]["rectangles"]
    elif cls == "hard-overlap":
        cands = [k for k in hard if mods[k].get("hard") is True or mods[k].get("fixed") is True]
        if not cands:
            return None
        i = mods[rng.choice(cands)]
        rs = rects_of(i)
        r = rng.choice(rs)
        x, y, w, h = (val(v) for v in r[:4])
        mode = rng.choice(["shift", "inside", "cover", "bridge", "bridge"])
        extra = None
        if mode == "bridge":
            # a long rectangle that overlaps r but whose centre is far from r's, plus a disjoint filler whose
            # centre lies in between (an overlap test that only looks at "neighbouring" rectangles misses it)
            far = max([val(q[1]) + val(q[3]) for q in rs] + [val(q[0]) + val(q[2]) for q in rs]) * 4 + 8
            d = rng.choice(["right", "left", "up", "down"])
            if d == "right" or (d == "left" and x - 6 * w < 0):
                new = [x + w / 4 + 5 * w, y, 10 * w, h / 2]
                extra = [x + 2 * w, far + y, w, h]
            elif d == "left":
                new = [x - w / 4 - 5 * w + 10 * w - 10 * w, y, 10 * w, h / 2]
                new = [x - w / 4 - 5 * w + 0, y, 10 * w, h / 2] if x - w / 4 - 10 * w >= 0 else [x + w / 4 + 5 * w, y, 10 * w, h / 2]
                extra = [max(x - 2 * w, w / 2), far + y, w, h]
            elif d == "up" or y - 6 * h < 0:
                new = [x, y + h / 4 + 5 * h, w / 2, 10 * h]
                extra = [far + x, y + 2 * h, w, h]
            else:
                new = [x, y - h / 4 - 5 * h, w / 2, 10 * h] if y - h / 4 - 10 * h >= 0 else [x, y + h / 4 + 5 * h, w / 2, 10 * h]
                extra = [far + x, max(y - 2 * h, h / 2), w, h]
        elif mode == "shift":
            new = [x + w / 4, y + h / 4, w, h]
        elif mode == "inside":
            new = [x, y, w / 2, h / 2]
        else:
            new = [x, y, w * 2, h * 2] if (x - w >= 0 and y - h >= 0) else [x + w / 2, y, w, h]
        rs = list(rs)
        rs.insert(rng.randrange(0, len(rs) + 1), [F(v) for v in new])
        if extra is not None:
            rs.insert(rng.randrange(0, len(rs) + 1), [F(v) for v in extra])
        i["rectangles"] = rs
    elif cls == "unknown-attribute":
        k = rng.choice(names)
        key = rng.choice(["foo", "Area", "centre", "weight", "Hard", "rectangle", "aspect", "name", "region", "_"])
        v = rng.choice([True, 1, F(3, 2), "x", [1, 2], {"a": 1}])
        mods[k] = insert_at(rng, mods[k], key, v)
    elif cls == "invalid-name":
        k = rng.choice(names)
        bad = rng.choice(["1a", "a-b", "a b", "9", "-x", "a.b", "a+", "x:y", "$m", "a/b", "", " a"])
        if bad == "":
            bad = "0"
        doc["Modules"] = {(bad if kk == k else kk): v for kk, v in mods.items()}
        doc["Nets"] = [[(bad if (b == k and isinstance(b, str)) else b) for b in n] for n in nets]
    elif cls == "one-pin-net":
        a = rng.choice(names)
        net = rng.choice([[a], [a, F(2)], [a, 3], [a, F(1)], [a, F(1, 2)]])
        nets = list(nets)
        nets.insert(rng.randrange(0, len(nets) + 1), net)
        doc["Nets"] = nets
    elif cls == "nonpositive-rect-size":
        cands = [k for k in names if "rectangles" in mods[k]]
        if not cands:
            return None
        i = mods[rng.choice(cands)]
        rs = rects_of(i)
        j = rng.randrange(len(rs))
        rs = [list(r) for r in rs]
        rs[j][rng.choice([2, 3])] = rng.choice([0, F(0)])
        i["rectangles"] = rs
    else:
        raise KeyError(cls)
    if "Modules" in doc and "Nets" not in doc and cls in ("one-pin-net",):
        pass
    return doc if has_defect(doc, cls) else None


# --------------------------------------------------------------------------
# shrinking: drop modules / nets / attributes / rectangles
# --------------------------------------------------------------------------
def shrink_doc(doc):
    if not isinstance(doc, dict):
        return
    mods, nets = mods_of(doc), nets_of(doc)
    for k in list(mods):
        d = deep(doc)
        del d["Modules"][k]
        if "Nets" in d:
            nn = []
            for n in nets:
                mem = [b for b in net_members(n) if b != k]
                rest = n[len(net_members(n)):] if isinstance(n, list) else []
                if len(mem) >= 2:
                    nn.append(mem + rest)
            d["Nets"] = nn
        yield d
    for i in range(len(nets)):
        d = deep(doc)
        del d["Nets"][i]
        yield d
    for k, info in mods.items():
        if not isinstance(info, dict):
            continue
        for a in list(info):
            d = deep(doc)
            del d["Modules"][k][a]
            yield d
        rs = rects_of(info)
        if len(rs) > 1:
            for j in range(len(rs)):
                d = deep(doc)
                d["Modules"][k]["rectangles"] = [r for jj, r in enumerate(rs) if jj != j]
                yield d
        if isinstance(info.get("area"), dict) and len(info["area"]) > 2:
            for r in list(info["area"]):
                d = deep(doc)
                del d["Modules"][k]["area"][r]
                yield d
    for i, n in enumerate(nets):
        mem = net_members(n)
        if isinstance(n, list) and len(mem) > 2:
            for j in range(len(mem)):
                d = deep(doc)
                d["Nets"][i] = [b for jj, b in enumerate(n) if jj != j]
                yield d
        if isinstance(n, list) and len(n) > len(mem):
            d = deep(doc)
            d["Nets"][i] = list(mem)
            yield d


def shrink(case):
    for d in shrink_doc(case["doc"]):
        c = dict(case)
        c["doc"] = d
        yield c


def doc_stats(doc):
    mods = mods_of(doc)
    return len(mods), len(nets_of(doc)), sum(len(rects_of(i)) for i in mods.values() if isinstance(i, dict))


def close(a, b, rel=F(1, 10 ** 9)) -> bool:
    a, b = val(a), val(b)
    if isinstance(a, float) or isinstance(b, float):      # an infinity (NaN): the same one, nothing else is close to it
        return a == b
    return abs(a - b) <= rel * max(abs(a), abs(b), F(1, 10 ** 6))


def dsqrt(x: F) -> Decimal:
    return (Decimal(x.numerator) / Decimal(x.denominator)).sqrt()
