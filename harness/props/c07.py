"""C07 - SAT layer: every posted constraint is encoded exactly
(tools/rect/satmanager.py, Ineq.isclause/getrobdd/constructrobdd in tools/rect/pseudobool.py)."""
import itertools
import re

from harness import core, fr
from harness.core import gz, gnat, gbool, glist
from harness.props import pbdag
from harness.props.pbdag import gstr          # core.gstr, plus non-ASCII names as UTF-8 bytes

HEADER = """From Coq Require Import ZArith List Bool String.
From FrameModel Require Import PB.Expr PB.Cnf PB.Amo PB.Robdd PB.Codify PB.Sat PB.SatBool PB.Dag PB.DagPost
  Cases.CmpC07Set Cases.CmpC07 Cases.CmpC07Dag.
Import ListNotations."""

ASSUMPTIONS = [
    "user variables are created with SATManager.newvar and their names do not look like aux_<n> / robdd_<n> "
    "(the code itself would alias them); the model keeps the three name spaces apart by construction",
    "inequalities reach the manager through Ineq(...) (normal form of C16: positive coefficients); the model is "
    "given the normalised (terms, bound, operator) read from the Ineq object",
    "mmap and memory agree (both are written only by constructrobdd); each case starts from memory == [0, 1], runs "
    "its own earlier history of encodings in another manager of the same process, and the resulting memory is the "
    "initial memory given to the model",
    "Literal.__lt__ returns a truthy Ineq, so list.sort() on a clause reverses it (CPython timsort: one descending run)",
    "PySAT (default solver of pysat.solvers.Solver) is trusted as sound and complete; the model's solver is a Section "
    "variable with that contract",
    "names containing ',' ';' or ' ' (which would alias keys of the per-call memo) are not generated",
    "histories over shared objects (kind dag / dagbig, model PB/DagPost.v): the posted literals and inequalities are "
    "objects bound to names (sm.newvar results, Literal / Term / Expr / Ineq built with the real operators), reused "
    "and derived from each other between the posts; here the model computes every inequality itself from the "
    "history (nothing is read back from the Ineq object) and the value of every object is compared at the end; the "
    "direct oracle evaluates every posted constraint from how the user wrote it",
    "dagbig (33..64 user variables): extendability is checked on the assignments that maximise / minimise each posted "
    "inequality, their one- and two-flip neighbours and random assignments (not all 2^n)",
    "bigstore (the store grown to 7*10^4 .. 2^21 nodes): the inequalities posted to one manager share no variable and "
    "each is satisfiable, so the direct oracle enumerates the assignments of the variables of ONE posted inequality "
    "(the others free): it extends iff it satisfies that inequality; the store is too big for vm_compute, so the model "
    "is run from the EMPTY store on a sample of the checked posts and only the semantic part of c07_check is used "
    "(statuses, predicted set of extending assignments; C07_post_store_independent, C07_post_span)",
]

OPSTR = {"GE": ">=", "LE": "<=", "GT": ">", "LT": "<", "EQ": "=", "EQ2": "=="}
OPBACK = {">=": "GE", "<=": "LE", ">": "GT", "<": "LT", "=": "EQ", "==": "EQ2"}
NAMES = ["a", "b", "c", "d", "e", "f", "g", "h", "i", "j"]
PRE = "def_"
MAXENUM = 10


# --------------------------------------------------------------------------
# generation
# --------------------------------------------------------------------------
def gen_lits(rng, names, n):
    return [[rng.choice(names), rng.random() < 0.6] for _ in range(n)]


def gen_ineq(rng, names):
    n = rng.choice([0, 1, 2, 3, 3, 4, 4, 5, 5, 6, 7, 8])
    pool = names if rng.random() < 0.7 else names[:max(2, len(names) // 2)]
    coefs = list(range(-9, 10)) if rng.random() < 0.5 else [-2, -1, 0, 1, 1, 1, 2, 2, 3]
    lt = [[rng.choice(pool), rng.random() < 0.65, rng.choice(coefs)] for _ in range(n)]
    rt = [[rng.choice(pool), rng.random() < 0.65, rng.choice(coefs)] for _ in range(rng.choice([0, 0, 0, 1, 2]))]
    tot = sum(abs(t[2]) for t in lt + rt)
    lo = -sum(-t[2] for t in lt if t[2] < 0) - sum(t[2] for t in rt if t[2] > 0)
    hi = sum(t[2] for t in lt if t[2] > 0) + sum(-t[2] for t in rt if t[2] < 0)
    mode = rng.random()
    if mode < 0.55 and hi - lo >= 2:
        b = rng.randint(lo + 1, hi - 1)         # neither trivially true nor trivially false
    elif mode < 0.75:
        b = rng.randint(lo - 1, hi + 1)
    elif mode < 0.9:
        b = rng.choice([lo, lo + 1, hi, hi - 1, 0, 1])
    else:
        b = rng.randint(-tot - 3, tot + 3)
    op = rng.choice(["GE", "GE", "GE", "GE", "LE", "LE", "LE", "GE", "LE", "GT", "LT", "GT", "LT", "EQ", "EQ2"])
    return {"k": "ineq", "lt": lt, "rt": rt, "b": b, "op": op, "decomp": rng.random() < 0.4,
            "via": rng.choice(["ctor", "operator"]) if op != "EQ2" else "ctor"}


def gen_post(rng, names):
    kind = rng.choice(["clause", "imply", "amoq", "amoh", "amoh"] + ["ineq"] * 7)
    if kind == "clause":
        return {"k": "clause", "lits": gen_lits(rng, names, rng.choice([0, 1, 2, 2, 2, 3, 3, 4, 4]))}
    if kind == "imply":
        return {"k": "imply", "lits": gen_lits(rng, names, rng.choice([0, 1, 2, 3])), "x": gen_lits(rng, names, 1)[0]}
    if kind == "amoq":
        return {"k": "amoq", "lits": gen_lits(rng, names, rng.randint(0, 12))}
    if kind == "amoh":
        kk = rng.choice([3, 3, 4, 5, 6, 3, 4, rng.choice([0, 1, 2, -1, 7, 20])])
        return {"k": "amoh", "kk": kk, "lits": gen_lits(rng, names, rng.randint(0, 12))}
    return gen_ineq(rng, names)


def gen_cofactor_pair(rng, names):
    """An inequality and, later, one of its cofactors by its heaviest literal (the diagram of the second is an inner
    node of the diagram of the first; the second is not implied by the first)."""
    n = min(len(names), rng.choice([3, 4, 4, 5, 6]))
    vs = rng.sample(names, n)
    cs = sorted([rng.choice([1, 1, 2, 2, 3, 4, 5]) for _ in vs], reverse=True)
    lt = [[v, rng.random() < 0.7, c] for v, c in zip(vs, cs)]
    rest = sum(cs[1:])
    b = rng.randint(2, max(2, rest))
    dec = rng.random() < 0.3
    first = {"k": "ineq", "lt": lt, "rt": [], "b": b, "op": "GE", "decomp": dec, "via": rng.choice(["ctor", "operator"])}
    b2 = b if rng.random() < 0.6 else b - cs[0]
    second = {"k": "ineq", "lt": lt[1:], "rt": [], "b": b2, "op": "GE", "decomp": dec, "via": "ctor"}
    return first, second


WIDE = [15, 16, 17, 31, 32, 33, 40, 64, 65]


def gen_wide_case(rng):
    """Few posts over MANY variables (sizes around 16 / 32 / 64): long clauses, long at-most-one groups (pairwise and
    chained), long inequalities with small coefficients and a bound near an extreme (narrow diagrams).  Extendability
    is checked on the assignments near the boundary of each constraint (see wide_assignments)."""
    nv = rng.choice(WIDE)
    names = [f"w{i}" for i in range(nv)]
    posts = []
    for _ in range(rng.choice([1, 1, 2, 3])):
        kind = rng.choice(["clause", "amoq", "amoh", "amoh", "ineq", "ineq", "ineq"])
        n = rng.choice([nv, nv, nv - 1, max(2, nv // 2), min(nv, 33), min(nv, 17)])
        vs = rng.sample(names, n)
        lits = [[v, rng.random() < 0.7] for v in vs]
        if kind == "clause":
            posts.append({"k": "clause", "lits": lits})
        elif kind == "amoq":
            posts.append({"k": "amoq", "lits": lits[:rng.choice([n, min(n, 20)])]})
        elif kind == "amoh":
            posts.append({"k": "amoh", "kk": rng.choice([3, 3, 4, 5, 8, 16, 17, 32]), "lits": lits})
        else:
            lt = [[v, s, rng.choice([1, 1, 1, 2])] for v, s in lits]
            tot = sum(c for _, _, c in lt)
            up = rng.random() < 0.5
            b = tot - rng.choice([0, 1, 2]) if up else rng.choice([0, 1, 2])
            op = rng.choice(["GE", "GT"]) if up else rng.choice(["LE", "LT"])
            posts.append({"k": "ineq", "lt": lt, "rt": [], "b": b, "op": op, "decomp": rng.random() < 0.3,
                          "via": rng.choice(["ctor", "operator"])})
    order = list(names)
    rng.shuffle(order)
    return {"kind": "wide", "history": [], "posts": [{"k": "newvar", "v": v} for v in order] + posts, "evals": []}


def wide_assignments(case, users):
    """All-false, all-true, every single variable flipped from either, and for every posted constraint the assignments
    making 0 / 1 / 2 / all-but-1 / all of its literals true (plus neighbours), plus random ones."""
    import random
    r = random.Random(len(users) * 7919 + len(case["posts"]))
    out = [dict.fromkeys(users, False), dict.fromkeys(users, True)]
    for v in users:
        out.append(dict(out[0], **{v: True}))
        out.append(dict(out[1], **{v: False}))
    for p in case["posts"]:
        lits = p.get("lits") or [[v, s] for v, s, _ in p.get("lt", [])]
        if not lits:
            continue
        base = {v: r.random() < 0.5 for v in users}
        allfalse = dict(base, **{v: not s for v, s in lits})
        alltrue = dict(base, **{v: s for v, s in lits})
        for start, flip_to in ((allfalse, True), (alltrue, False)):
            out.append(dict(start))
            for _ in range(40):
                a = dict(start)
                for v, s in r.sample(lits, min(len(lits), r.choice([1, 1, 2, 2, 3]))):
                    a[v] = s if flip_to else not s
                out.append(a)
    for _ in range(40):
        pr = r.choice([0.05, 0.5, 0.95])
        out.append({v: r.random() < pr for v in users})
    return [tuple(a[v] for v in users) for a in out]


# --------------------------------------------------------------------------
# LONG inequalities with MEDIUM coefficients (12..24 terms, coefficients 5..40): the diagram is deep (a two-digit number
# of pending terms) AND the residual bounds at its bottom have two digits; the random stream stops at 8+2 terms, the wide
# one uses coefficients 1..2, the huge one 3..6 variables
# --------------------------------------------------------------------------
def gen_mid_ineq(rng, names, vs=None):
    n = len(vs) if vs else rng.choice([12, 12, 13, 14, 15, 16, 17, 18, 20, 22, 24])
    vs = vs or rng.sample(names, min(n, len(names)))
    lo = rng.choice([5, 5, 6, 8, 10])
    hi = rng.choice([12, 16, 20, 20, 30, 40])
    cs = sorted((rng.randint(lo, max(lo, hi)) for _ in vs), reverse=True)
    if rng.random() < 0.3:
        cs[-1] = rng.choice([1, 2, 3, cs[-1]])          # now and then one light term at the very end
    tail = cs[-4:]
    tot = sum(cs)
    mode = rng.random()
    if mode < 0.4:
        head = cs[:max(2, len(cs) - 11)]
        nb = sum(rng.sample(head, rng.choice([1, 1, 2]))) + rng.randint(1, 9)    # a few units above one or two heavy ones
    elif mode < 0.7:
        nb = rng.randint(cs[-1], cs[0] + cs[1] + 10)                             # anywhere up to the two heaviest
    elif mode < 0.78:
        nb = rng.choice(tail) + rng.choice([-1, 0, 0, 1])                        # about one tail coefficient
    elif mode < 0.86:
        i, j = rng.sample(range(len(tail)), 2)
        nb = tail[i] + tail[j] + rng.choice([-1, 0, 0, 1])                       # about a pair of them
    elif mode < 0.93:
        nb = rng.choice(cs) + rng.choice([-1, 0, 1, cs[-1]])                     # any one coefficient (+ the lightest)
    else:
        nb = tot - (rng.choice(tail) + rng.choice([0, rng.choice(tail)])) + rng.choice([-1, 0, 1])   # the other end
    lt = [[v, rng.random() < 0.7, c] for v, c in zip(vs, cs)]
    op = rng.choice(["GE", "GE", "GE", "GE", "LE", "LE", "GT", "LT"])
    b = nb
    # the normal form  sum c*lit >= nb  written the way a user may (see gen_huge_ineq)
    for t in lt:
        if rng.random() < 0.1:
            b -= t[2]
            t[1], t[2] = not t[1], -t[2]
    if op in ("LE", "LT"):
        b = sum(t[2] for t in lt) - b
        lt = [[v, not sg, c] for v, sg, c in lt]
    if op == "GT":
        b -= 1
    if op == "LT":
        b += 1
    if rng.random() < 0.5:
        rng.shuffle(lt)
    return {"k": "ineq", "lt": lt, "rt": [], "b": b, "op": op, "decomp": rng.random() < 0.3,
            "via": rng.choice(["ctor", "operator"])}


def gen_mid_case(rng):
    nv = rng.choice([12, 12, 13, 14, 15, 16, 17, 18, 20, 22, 24])
    names = [f"m{i}" for i in range(nv)]
    posts = [gen_mid_ineq(rng, names, list(names))]
    if rng.random() < 0.25:
        posts.append(gen_mid_ineq(rng, names, rng.sample(names, rng.randint(12, nv))))
    hist = []
    if rng.random() < 0.3:
        h = dict(posts[0])
        h["decomp"] = not h["decomp"] if rng.random() < 0.5 else h["decomp"]
        h["b"] += rng.choice([0, 1, -1])
        hist.append(h)
    order = list(names)
    rng.shuffle(order)
    return {"kind": "wide", "sub": "mid", "history": hist, "posts": [{"k": "newvar", "v": v} for v in order] + posts,
            "evals": []}


def mid_assignments(case, users):
    """For every posted inequality: all assignments with at most two (three, for 12 terms) of its literals true and
    with at most that many of them false (the other variables all false / all true), plus random ones of every density."""
    import random
    r = random.Random(len(users) * 7919 + len(case["posts"]))
    out = []
    for p in case["posts"]:
        if p["k"] != "ineq":
            continue
        lits = [[v, s == (c > 0)] for v, s, c in p["lt"]]
        for fill in (False, True):
            base = {v: fill for v in users}
            for polarity in (False, True):
                start = dict(base, **{v: (s if polarity else not s) for v, s in lits})
                out.append(start)
                for k in ((1, 2, 3) if len(lits) <= 12 else (1, 2)):
                    for sub in itertools.combinations(lits, k):
                        out.append(dict(start, **{v: (not s if polarity else s) for v, s in sub}))
            if len(lits) == len(users):
                break
    for _ in range(60):
        pr = r.choice([0.1, 0.2, 0.3, 0.5, 0.7, 0.9])
        out.append({v: r.random() < pr for v in users})
    seen, res = set(), []
    for a in out:
        t = tuple(a[v] for v in users)
        if t not in seen:
            seen.add(t)
            res.append(t)
    return res


def gen_case(rng):
    nv = rng.choice([2, 3, 3, 4, 4, 5, 5, 6, 6, 7, 8, 10])
    names = NAMES[:nv]
    posts = [gen_post(rng, names) for _ in range(rng.choice([1, 1, 1, 2, 2, 2, 3, 3, 4, 5, 6]))]
    if nv >= 3 and rng.random() < 0.2:
        first, second = gen_cofactor_pair(rng, names)
        i = rng.randrange(len(posts) + 1)
        posts.insert(i, first)
        posts.insert(rng.randint(i + 1, len(posts)), second)
    hist = []
    for _ in range(rng.choice([0, 1, 2, 3, 4, 6])):
        if posts and rng.random() < 0.35:
            cand = [p for p in posts if p["k"] == "ineq"]
            if cand:
                h = dict(rng.choice(cand))
                if rng.random() < 0.5:
                    h["decomp"] = not h["decomp"]
                if rng.random() < 0.3:
                    h["b"] = h["b"] + rng.choice([-1, 1])
                hist.append(h)
                continue
        hist.append(gen_ineq(rng, names))
    order = list(names)
    rng.shuffle(order)
    nvp = [{"k": "newvar", "v": v} for v in order]
    if rng.random() < 0.2:
        nvp.insert(rng.randrange(len(nvp) + 1), {"k": "newvar", "v": rng.choice(names)})
    # now and then a variable is registered late (after it was used in a posted constraint is not allowed:
    # solve() needs every literal's name in ttable), so only before its first use: keep all at the front
    evals = [{"c": rng.randint(-5, 5), "t": [[rng.choice(names), rng.random() < 0.6, rng.randint(-9, 9)]
                                              for _ in range(rng.randint(0, 4))]} for _ in range(2)]
    return {"history": hist, "posts": nvp + posts, "evals": evals}


# --------------------------------------------------------------------------
# HUGE coefficients (Python ints / Z are exact; anything going through binary64 - log2, float division, 1e18 - is not)
# --------------------------------------------------------------------------
def huge_values():
    ks = [31, 32, 33] + list(range(49, 65)) + [100]
    out = [(1 << k) + d for k in ks for d in (-1, 0, 1)]
    out += [10 ** e + d for e in range(15, 20) for d in (-1, 0, 1)]
    out += [(1 << 53) + 2, (1 << 62) - 3, 3 * (1 << 52), (1 << 64) - (1 << 10) - 1]
    return out


HUGE = huge_values()
HUGE_EDGE = [(1 << k) + d for k in list(range(49, 65)) + [100] for d in (-1, 1)]     # where binary64 cannot tell them apart
HUGE_BITS = 320      # the decomposition construction recurses once per set bit position of every coefficient: the total
                     # bit length of a posted inequality stays far below the interpreter's recursion limit


def gen_huge_ineq(rng, names):
    """one to three huge coefficients (2^k-1, 2^k, 2^k+1, 10^e ...) next to small ones that can reach a small bound on
    their own; the bound is small, or sits within a few units of a sum of the huge coefficients"""
    nv = len(names)
    vs = rng.sample(names, rng.randint(2, nv))
    nh = rng.choice([1, 1, 1, 2, 2, 3])
    nh = min(nh, len(vs) - 1) if rng.random() < 0.8 else min(nh, len(vs))
    big = []
    for _ in range(nh):
        c = rng.choice(HUGE_EDGE if rng.random() < 0.5 else HUGE)
        if big and rng.random() < 0.35:
            c = rng.choice([big[0], big[0] + 1, big[0] - 1, 2 * big[0], big[0] // 2])    # ties / neighbours / doubles
        if sum(x.bit_length() for x in big) + c.bit_length() > HUGE_BITS:
            c = rng.choice(HUGE[:9])
        big.append(c)
    small = [rng.choice([1, 1, 1, 2, 2, 3, 5]) for _ in vs[nh:]]
    cs = big + small
    # the constraint in normal form: sum c*lit >= nb with every c > 0 ...
    lt = [[v, rng.random() < 0.75, c] for v, c in zip(vs, cs)]
    ssum = sum(small)
    mode = rng.random()
    if mode < 0.3 and ssum >= 1:
        nb = ssum                                    # TIGHT: reached by the small terms alone, all of them
    elif mode < 0.5:
        drop = [c for c in big if rng.random() < 0.6] or big[:1]
        nb = sum(cs) - sum(drop)                     # TIGHT: everything but some huge terms
    elif mode < 0.6:
        nb = sum(c for c in cs if rng.random() < 0.5) or 1        # a subset sum
    elif mode < 0.7 and ssum >= 1:
        nb = rng.randint(1, ssum)
    elif mode < 0.9:
        sub = sum(c for c in big if rng.random() < 0.6) or big[0]
        nb = sub + rng.choice([-2, -1, 0, 1, 2, ssum, ssum + 1, -ssum])
    else:
        nb = sum(cs) + rng.choice([-ssum - 1, -1, 0, 1])
    op = rng.choice(["GE", "GE", "GE", "GE", "LE", "LE", "LE", "GT", "LT", "EQ"])
    b = nb
    # ... written the way a user may: some terms as -c * (the complement) (c*l = c - c*(not l)), the whole thing as <=
    for t in lt:
        if rng.random() < 0.15:
            b -= t[2]
            t[1], t[2] = not t[1], -t[2]
    if op in ("LE", "LT"):
        # sum c*l >= b  is  sum c*(not l) <= total - b
        b = sum(t[2] for t in lt) - b
        lt = [[v, not sg, c] for v, sg, c in lt]
    rng.shuffle(lt)
    return {"k": "ineq", "lt": lt, "rt": [], "b": b, "op": op, "decomp": rng.random() < 0.6,
            "via": rng.choice(["ctor", "operator"])}


def gen_huge_case(rng):
    nv = rng.choice([3, 3, 4, 4, 5, 6])
    names = NAMES[:nv]
    posts = [gen_huge_ineq(rng, names) for _ in range(rng.choice([1, 1, 1, 2]))]
    if rng.random() < 0.3:
        posts.insert(rng.randrange(len(posts) + 1), gen_post(rng, names))
    hist = []
    for _ in range(rng.choice([0, 0, 1, 2])):
        h = dict(rng.choice(posts)) if rng.random() < 0.5 else gen_huge_ineq(rng, names)
        if h["k"] == "ineq" and rng.random() < 0.5:
            h["decomp"] = not h["decomp"]
        hist.append(h)
    if rng.random() < 0.5:
        # the deprecated / rarely used part of the manager's interface, by the earlier manager, on the same names
        hist.insert(rng.randrange(len(hist) + 1), gen_api_call(rng, names))
    order = list(names)
    rng.shuffle(order)
    ev = [{"c": rng.choice([0, 1, -(1 << 60)]), "t": [[v, rng.random() < 0.6, rng.choice(HUGE)] for v in names[:3]]}]
    return {"history": hist, "posts": [{"k": "newvar", "v": v} for v in order] + posts, "evals": ev}


API_METHODS = ["prioritize", "prioritize", "prioritize", "setflipped", "isflipped", "newaux", "printclauses", "tocnf",
               "solve", "value", "evalexpr", "newvar_pre"]


def gen_api_call(rng, names):
    """a call of one of the public methods of SATManager that post nothing (history only)"""
    m = rng.choice(API_METHODS)
    vs = rng.sample(names, rng.randint(1, min(3, len(names))))
    neg = rng.random() < 0.6
    return {"k": "api", "m": m, "lits": [[v, (not neg) if rng.random() < 0.8 else neg] for v in vs]}


def do_api(sm, p):
    """history only; whatever it raises stays in the history"""
    import contextlib, io
    from tools.rect.pseudobool import Literal, Expr
    lits = [Literal(PRE + v, s) for v, s in p["lits"]]
    m = p["m"]
    with contextlib.redirect_stdout(io.StringIO()):
        if m == "prioritize":
            # negated literals first: the flips are recorded before a positive one makes the deprecated code raise
            sm.prioritize(sorted(lits, key=lambda l: l.s))
        elif m == "setflipped":
            for l in lits:
                sm.setflipped(l.v, True)
            if len(lits) > 1:
                sm.setflipped(lits[-1].v, False)
        elif m == "isflipped":
            [sm.isflipped(l.v) for l in lits]
        elif m == "newaux":
            sm.newaux()
        elif m == "printclauses":
            sm.printclauses()
        elif m == "tocnf":
            sm.tocnf()
        elif m == "solve":
            sm.solve()
        elif m == "value":
            sm.solve()
            [sm.value(l) for l in lits]
        elif m == "evalexpr":
            sm.solve()
            e = Expr()
            for l in lits:
                e = e + l
            sm.evalexpr(e)
        elif m == "newvar_pre":
            for l in lits:
                sm.newvar(l.v[len(PRE):], "")
                sm.newvar(l.v[len(PRE):], "aux")
        else:
            raise ValueError(m)


# --------------------------------------------------------------------------
# running the implementation
# --------------------------------------------------------------------------
def build_expr(terms, const, spell):
    from tools.rect.pseudobool import Literal, Term, Expr
    e = Expr()
    for v, s, c in terms:
        L = Literal(PRE + v, s)
        if c == 1 and spell % 3 == 0:
            e = e + L
        elif spell % 2 == 0:
            e = e + Term(L, c)
        else:
            e = e + c * L
    if const != 0 or spell % 5 == 0:
        e = e + const
    return e


def build_ineq(p):
    from tools.rect.pseudobool import Ineq
    spell = len(p["lt"]) + 3 * len(p["rt"]) + abs(p["b"])
    l = build_expr(p["lt"], 0, spell)
    r = build_expr(p["rt"], p["b"], spell + 1)
    op = p["op"]
    if p.get("via", "ctor") == "ctor" or op == "EQ2":
        return Ineq(l, r, OPSTR[op])
    return {"GE": lambda: l >= r, "LE": lambda: l <= r, "GT": lambda: l > r, "LT": lambda: l < r,
            "EQ": lambda: l == r}[op]()


def ineq_norm(q):
    return {"t": [[q.lhs.t[v].L.v, bool(q.lhs.t[v].L.s), int(q.lhs.t[v].c)] for v in q.lhs.t],
            "keys": [str(v) for v in q.lhs.t], "rhs": int(q.rhs), "op": q.op, "c": int(q.lhs.c)}


def lits_of(sm, lits):
    from tools.rect.pseudobool import Literal
    return [Literal(PRE + v, s) for v, s in lits]


def do_post(sm, p):
    """Returns (status, extra).  status: 'A' accepted, 'R' refused (the documented Exception)."""
    from tools.rect.pseudobool import Literal
    k = p["k"]
    extra = None
    try:
        if k == "newvar":
            sm.newvar(p["v"])
        elif k == "clause":
            sm.add_clause(lits_of(sm, p["lits"]))
        elif k == "imply":
            sm.imply(lits_of(sm, p["lits"]), Literal(PRE + p["x"][0], p["x"][1]))
        elif k == "amoq":
            sm.quadraticencoding(lits_of(sm, p["lits"]))
        elif k == "amoh":
            sm.heuleencoding(lits_of(sm, p["lits"]), p["kk"])
        elif k == "ineq":
            q = build_ineq(p)
            extra = ineq_norm(q)
            sm.pseudoboolencoding(q, p["decomp"])
        elif k == "api":
            do_api(sm, p)
        else:
            raise ValueError(k)
    except Exception as e:
        if is_refusal(e):
            return "R", extra
        raise
    return "A", extra


def is_refusal(e):
    """A posting call that raises refuses the constraint (the property fixes neither the class nor the wording of the
    error).  The exceptions Python itself raises for a programming error are not taken for a refusal."""
    return isinstance(e, Exception) and not isinstance(e, (TypeError, LookupError, AttributeError, NameError,
                                                            RecursionError, ArithmeticError))


def mgr_state(sm):
    from tools.rect import pseudobool as pb
    return {"clauses": [[[l.v, bool(l.s)] for l in c] for c in sm.clauses], "aux": sm.auxcount,
            "codified": [int(k) for k in sm.codified], "vtable": list(sm.vtable[1:]),
            "ttable": dict(sm.ttable), "memlen": len(pb.memory), "nclauses": len(sm.clauses)}


def mem_nodes(lst):
    out = []
    for x in lst:
        if not (isinstance(x, tuple) and len(x) == 3):
            raise ValueError(f"memory entry {x!r} is not a node")
        out.append([str(x[0]), int(x[1]), int(x[2])])
    return out


def run_impl(case):
    from tools.rect import pseudobool as pb
    from tools.rect.pseudobool import Literal, Term, Expr
    from tools.rect.satmanager import SATManager
    if is_dag(case):
        return run_dag(case)
    if is_big(case):
        return run_bigstore(case)
    # process-wide store back to its import-time content, then this case's own earlier history
    del pb.memory[2:]
    pb.memory[0:2] = [0, 1]
    pb.mmap.clear()
    hm = SATManager()
    for v in NAMES:
        hm.newvar(v)
    for h in case.get("history", []):
        try:
            do_post(hm, h)
        except Exception:
            pass
    mem0 = mem_nodes(pb.memory[2:])
    mmap_ok = all(pb.mmap.get(tuple(n)) == i + 2 for i, n in enumerate(pb.memory[2:])) and len(pb.mmap) == len(mem0)
    sm = SATManager()
    status, norms, unchanged, last = [], [], [], []
    for p in case["posts"]:
        before = mgr_state(sm)
        st, extra = do_post(sm, p)
        status.append(st)
        norms.append(extra)
        last.append([l.v for l in sm.clauses[-1]] if len(sm.clauses) > before["nclauses"] else None)
        if st == "R":
            unchanged.append(mgr_state(sm) == before)
    obs = {"mem0": mem0, "mmap_ok": mmap_ok, "newmem": mem_nodes(pb.memory[2 + len(mem0):]), "status": status,
           "norms": norms, "refused_unchanged": unchanged}
    obs["mmap_ok"] = mmap_ok and len(pb.mmap) == len(pb.memory) - 2 and \
        all(pb.mmap.get(n) == i + 2 for i, n in enumerate(pb.memory[2:]))
    obs.update({k: v for k, v in mgr_state(sm).items() if k not in ("ttable", "memlen", "nclauses")})
    obs["clauses_after"] = last
    obs["history_codified"] = len(hm.codified)
    # ---- solve / value / evalexpr, and extendability of every user assignment ----
    users = sorted({p["v"] for p in case["posts"] if p["k"] == "newvar"})
    obs["users"] = users
    res = sm.solve()
    obs["solve"] = bool(res)
    if res:
        obs["model"] = {v: sm.value(Literal(PRE + v)) for v in users}
        obs["model_neg"] = {v: sm.value(Literal(PRE + v, False)) for v in users}
        obs["evals"] = [sm.evalexpr(build_expr(ev["t"], ev["c"], 0)) for ev in case.get("evals", [])]
    # the solver object now holds exactly what solve() fed to it
    tt = sm.ttable
    if len(users) <= MAXENUM:
        assigns = list(itertools.product([False, True], repeat=len(users)))
    elif case.get("sub") == "mid":
        assigns = mid_assignments(case, users)
    elif case.get("kind") == "wide":
        assigns = wide_assignments(case, users)
    else:
        import random
        r = random.Random(len(sm.clauses))
        assigns = [tuple(r.random() < 0.5 for _ in users) for _ in range(512)]
    extendable = []
    for bits in assigns:
        assum = [tt[PRE + v] if b else -tt[PRE + v] for v, b in zip(users, bits)]
        extendable.append([list(bits), bool(sm.solver.solve(assumptions=assum))])
    obs["extendable"] = extendable
    return obs


# --------------------------------------------------------------------------
# Gallina
# --------------------------------------------------------------------------
def gvar(name):
    m = re.fullmatch(r"aux_(\d+)", name)
    if m:
        return f"(Aux {gnat(int(m.group(1)))})"
    m = re.fullmatch(r"robdd_(\d+)", name)
    if m:
        return f"(Node {gnat(int(m.group(1)))})"
    return f"(User {gstr(name)})"


def glit(l):
    return f"({gvar(l[0])}, {gbool(l[1])})"


def gul(l):
    return f"({gstr(PRE + l[0])}, {gbool(l[1])})"


def gterm(t):
    return f"(mkT {gstr(t[0])} {gbool(t[1])} {gz(t[2])})"


def gnode(n):
    return f"({gstr(n[0])}, {gnat(n[1])}, {gnat(n[2])})"


def gpost(p, norm):
    k = p["k"]
    if k == "newvar":
        return f"(PNewVar {gstr(PRE + p['v'])})"
    if k == "clause":
        return f"(PClause {glist([gul(l) for l in p['lits']])})"
    if k == "imply":
        return f"(PImply {glist([gul(l) for l in p['lits']])} {gul(p['x'])})"
    if k == "amoq":
        return f"(PAmoQ {glist([gul(l) for l in p['lits']])})"
    if k == "amoh":
        return f"(PAmoH {gz(p['kk'])} {glist([gul(l) for l in p['lits']])})"
    if k == "ineq":
        return (f"(PIneq (mkI {glist([gterm(t) for t in norm['t']])} {gz(norm['rhs'])} {OPBACK[norm['op']]}) "
                f"{gbool(p['decomp'])})")
    raise ValueError(k)


def gsem(obs, names):
    """The observed extendability of user assignments, for the semantic part of the comparison."""
    ext = obs.get("extendable")
    if ext is None or "users" not in obs:
        return "SemNone"
    users = glist([gstr(n) for n in names])
    rows = [(sum(1 << j for j, b in enumerate(bits) if b), bool(e)) for bits, e in ext]
    n = len(names)
    if n <= MAXENUM and sorted(m for m, _ in rows) == list(range(1 << n)):
        return f"(SemFull {users} {sum(1 << m for m, e in rows if e)}%N)"
    return f"(SemTable {users} {glist([f'({m}%N, {gbool(e)})' for m, e in rows])})"


def to_coq(case, obs):
    if is_dag(case):
        return dag_to_coq(case, obs)
    if is_big(case):
        return big_to_coq(case, obs)
    posts = glist([gpost(p, n) for p, n in zip(case["posts"], obs["norms"])])
    mem0 = glist([gnode(n) for n in obs["mem0"]])
    o = (f"(mkObs {glist([gnode(n) for n in obs['newmem']])} "
         f"{glist([glist([glit(l) for l in c]) for c in obs['clauses']])} {gnat(obs['aux'])} "
         f"{glist([gnat(i) for i in obs['codified']])} {glist([gvar(v) for v in obs['vtable']])} "
         f"{glist(['Accepted' if s == 'A' else 'Refused' for s in obs['status']])})")
    return f"c07_check {mem0} {posts} {o} {gsem(obs, [PRE + v for v in obs.get('users', [])])}"



# --------------------------------------------------------------------------
# histories over shared objects (PB/DagPost.v)
# --------------------------------------------------------------------------
def is_dag(case):
    return case.get("kind") in ("dag", "dagbig")


def gen_lrefs(rng, b, names, n):
    out = []
    lits = b.pool("lit")
    for _ in range(n):
        if lits and rng.random() < 0.7:
            out.append(["ref", rng.choice(lits)])
        else:
            out.append(["new", rng.choice(names), rng.random() < 0.6])
    return out


def linear_range(steps, i, names):
    """(min, max, argmax assignment) of the arithmetic object i, which is an affine function of the variables."""
    zero = dict.fromkeys(names, False)
    f0 = pbdag.direct(steps, zero)[i]
    lo = hi = f0
    best, worst = dict(zero), dict(zero)
    for v in names:
        d = pbdag.direct(steps, dict(zero, **{v: True}))[i] - f0
        if d > 0:
            hi += d
            best[v] = True
        elif d < 0:
            lo += d
            worst[v] = True
    return lo, hi, best, worst


def gen_dag_case(rng, big=False):
    if big:
        nv = rng.choice([33, 34, 36, 40, 48, 64])
        names = [f"{PRE}v{i}" for i in range(nv)]
    else:
        pool = rng.choice([NAMES] * 3 + pbdag.NAME_POOLS[3:] + [["0", "1", "7", "10", "2.5", "x"]])
        nv = min(len(pool), rng.choice([2, 3, 3, 4, 4, 5, 6, 7, 8]))
        names = [PRE + v for v in pool[:nv]]
    b = pbdag.Builder(rng, names)
    order = list(names)
    rng.shuffle(order)
    for v in order:
        b.push(["newvar", v])

    def interesting_ineq():
        """x_e OP k with k inside the range of x_e (neither trivially true nor false), built from a (hot) expression."""
        e = b.pick("expr")
        if e is None:
            return None
        x = b.pick("expr", "term", "int") if rng.random() < 0.35 else None
        steps = b.binds
        if x is not None and b.kinds[x] != "int":
            d = b.push(["sub", e, x]) if rng.random() < 0.5 else None
            tgt = d if d is not None else e
        else:
            tgt = e
        lo, hi, _, _ = linear_range(steps, tgt, names)
        if big:
            k = rng.choice([hi, hi - 1, hi - 2, lo + 1, lo + 2, hi - 3])
        elif hi - lo >= 2 and rng.random() < 0.7:
            k = rng.randint(lo + 1, hi - 1)
        else:
            k = rng.randint(lo - 1, hi + 1)
        op = rng.choice(["GE", "GE", "GE", "LE", "LE", "GT", "LT", "EQ"])
        if big:
            op = rng.choice(["GE", "GT"]) if k >= hi - 3 else rng.choice(["LE", "LT"])
        ki = b.push(["int", k])
        if tgt != e or x is None or b.kinds[x] == "int":
            return b.push(["cmp", tgt, op, ki] if rng.random() < 0.7 else
                          (["ineq", ki, op, tgt] if op in ("LE", "LT") else ["ineq", tgt, op, ki]))
        # e OP x + k written with both sides non-trivial
        r = b.push(["add", x, ki]) if b.kinds[x] in ("lit", "term", "expr") else ki
        return b.push(["cmp", e, op, r])

    def a_post():
        kind = rng.choice(["clause", "imply", "amoq", "amoh"] + ["post"] * 6)
        if kind == "post":
            q = b.pick("ineq")
            if q is None:
                return
            b.push(["post", q, rng.random() < 0.4])
        elif kind == "clause":
            b.push(["clause", gen_lrefs(rng, b, names, rng.choice([1, 2, 2, 3, 3, 4]))])
        elif kind == "imply":
            b.push(["imply", gen_lrefs(rng, b, names, rng.choice([0, 1, 2, 3])), gen_lrefs(rng, b, names, 1)[0]])
        elif kind == "amoq":
            b.push(["amoq", gen_lrefs(rng, b, names, rng.randint(0, 6))])
        else:
            b.push(["amoh", rng.choice([3, 3, 4, 5, rng.choice([1, 2, 7])]), gen_lrefs(rng, b, names, rng.randint(0, 9))])

    if big:
        # two long sums sharing their variables with both polarities (as pbdag.gen_big), unit-ish coefficients
        def side():
            ts = []
            for v in names:
                if rng.random() < 0.95:
                    li = b.push(["lit", v, rng.random() < 0.5]) if rng.random() < 0.7 else \
                        rng.choice([i for i, s in enumerate(b.binds) if s == ["newvar", v]])
                    if li is not None and b.kinds[li] == "lit" and b.binds[li][0] == "newvar" and rng.random() < 0.5:
                        li = b.push(["not", li])
                    ts.append(b.push(["times", li, rng.choice([1, 1, 1, 2])]))
            rng.shuffle(ts)
            return ts
        L = b.push(["sum", side()])
        R = b.push(["sum", side()])
        b.hot = [L, R]
        made = []
        x, y = rng.choice([(L, R), (R, L)])
        d = b.push(["sub", x, y])
        lo, hi, _, _ = linear_range(b.binds, d, names)
        up = rng.random() < 0.5               # all constraints of a case pull the same way: jointly satisfiable
        for _ in range(rng.choice([2, 3, 4])):
            # x - y >= k (k just below the maximum) or x - y <= k (just above the minimum), written as a comparison of
            # the two long expressions - x OP y + k - or the other way round - y + k OP' x
            k = (hi - rng.choice([0, 1, 2, 3])) if up else (lo + rng.choice([0, 1, 2, 3]))
            ki = b.push(["int", k])
            r = b.push(["add", y, ki])
            strict = rng.random() < 0.3 and (k < hi if up else k > lo)
            if rng.random() < 0.5:
                op = ("GT" if strict else "GE") if up else ("LT" if strict else "LE")
                q = b.push(rng.choice([["cmp", x, op, r], ["ineq", x, op, r]]))
            else:
                op = ("LT" if strict else "LE") if up else ("GT" if strict else "GE")
                q = b.push(rng.choice([["cmp", r, op, x], ["ineq", r, op, x]]))
            made.append(q)
            if rng.random() < 0.5:
                b.push(["obs", q])
        rng.shuffle(made)
        for q in made:
            b.push(["post", q, rng.random() < 0.3])
            if rng.random() < 0.3:
                b.push(["clause", gen_lrefs(rng, b, names, 3)])
    else:
        n = rng.choice([8, 12, 16, 22, 30, 40])
        for _ in range(rng.choice([2, 3])):
            b.leaf()
        tries = 0
        while len(b.binds) < nv + n and tries < 30 * n:
            tries += 1
            r = rng.random()
            if r < 0.55:
                i = b.step()
                if i is not None and b.kinds[i] == "expr" and len(b.hot) < 4 and rng.random() < 0.5:
                    b.hot.append(i)
            elif r < 0.75:
                interesting_ineq()
            else:
                a_post()
        # the inequalities built EARLY are posted now, after everything derived from their operands
        qs = b.pool("ineq")
        rng.shuffle(qs)
        for q in qs[:rng.choice([0, 1, 2, 3])]:
            b.push(["post", q, rng.random() < 0.4])
    steps = b.binds
    exprs = [i for i, k in enumerate(b.kinds) if k == "expr" and i not in b.dead]
    hist = [gen_ineq(rng, NAMES[:max(2, min(nv, 10))]) for _ in range(rng.choice([0, 0, 1, 2, 4]))]
    return {"kind": "dagbig" if big else "dag", "history": hist, "ops": steps,
            "evals": rng.sample(exprs, min(len(exprs), 3)), "pyseed": rng.randrange(1 << 30)}


def dag_lits(env, lrefs):
    from tools.rect.pseudobool import Literal
    return [env[l[1]] if l[0] == "ref" else Literal(l[1], l[2]) for l in lrefs]


def dag_assignments(case, users):
    """Assignments of the user variables on which extendability is checked."""
    if len(users) <= MAXENUM:
        return list(itertools.product([False, True], repeat=len(users)))
    import random
    steps = case["ops"]
    r = random.Random(case["pyseed"])
    kinds = pbdag.kinds_of(steps)
    out = []
    for s in steps:
        if s[0] != "post":
            continue
        q = steps[s[1]]
        # q = cmp / ineq (l OP r): extremes of l - r
        zero = dict.fromkeys(users, False)
        m0 = pbdag.direct(steps, zero)
        f0 = m0[q[1]] - m0[q[3]]
        best, worst = dict(zero), dict(zero)
        for v in users:
            m = pbdag.direct(steps, dict(zero, **{v: True}))
            d = (m[q[1]] - m[q[3]]) - f0
            if d > 0:
                best[v] = True
            elif d < 0:
                worst[v] = True
        for base in (best, worst):
            out.append(tuple(base[v] for v in users))
            for _ in range(40):
                a = dict(base)
                for v in r.sample(users, r.choice([1, 1, 2, 2, 3, 4])):
                    a[v] = not a[v]
                out.append(tuple(a[v] for v in users))
    for _ in range(60):
        p = r.choice([0.1, 0.3, 0.5, 0.7, 0.9])
        out.append(tuple(r.random() < p for _ in users))
    return out


def run_dag(case):
    import random
    from tools.rect import pseudobool as pb
    from tools.rect.pseudobool import Literal
    from tools.rect.satmanager import SATManager
    del pb.memory[2:]
    pb.memory[0:2] = [0, 1]
    pb.mmap.clear()
    hm = SATManager()
    for v in NAMES:
        hm.newvar(v)
    for h in case.get("history", []):
        try:
            do_post(hm, h)
        except Exception:
            pass
    mem0 = mem_nodes(pb.memory[2:])
    sm = SATManager()
    rng = random.Random(case["pyseed"])
    env, kinds, status, unchanged, last = [], [], [], [], []
    for s in case["ops"]:
        kd = pbdag.kind_of(s, kinds)
        if kd is None:
            raise ValueError(f"ill-typed step {s}")
        k = s[0]
        if k in ("newvar", "clause", "imply", "amoq", "amoh", "post"):
            before = mgr_state(sm)
            st, obj = "A", None
            try:
                if k == "newvar":
                    assert s[1].startswith(PRE)
                    suf, r = s[1][len(PRE):], rng.random()
                    if r < 0.5:
                        obj = sm.newvar(s[1], "")
                    elif suf.isdigit() and str(int(suf)) == suf:
                        obj = sm.newvar(int(suf))            # newvar(name: int | float | str)
                    elif suf == "2.5":
                        obj = sm.newvar(2.5)
                    else:
                        obj = sm.newvar(suf)
                elif k == "clause":
                    sm.add_clause(dag_lits(env, s[1]))
                elif k == "imply":
                    sm.imply(dag_lits(env, s[1]), dag_lits(env, [s[2]])[0])
                elif k == "amoq":
                    sm.quadraticencoding(dag_lits(env, s[1]))
                elif k == "amoh":
                    sm.heuleencoding(dag_lits(env, s[2]), s[1])
                else:
                    sm.pseudoboolencoding(env[s[1]], s[2])
            except Exception as e:
                if is_refusal(e):
                    st = "R"
                else:
                    raise
            status.append(st)
            last.append([l.v for l in sm.clauses[-1]] if len(sm.clauses) > before["nclauses"] else None)
            if st == "R":
                unchanged.append(mgr_state(sm) == before)
            env.append(obj)
        else:
            env.append(pbdag.exec_bind(env, kinds, s, rng, store=False))
        kinds.append(kd)
    obs = {"mem0": mem0, "newmem": mem_nodes(pb.memory[2 + len(mem0):]), "status": status, "refused_unchanged": unchanged,
           "kinds": kinds}
    obs["mmap_ok"] = len(pb.mmap) == len(pb.memory) - 2 and all(pb.mmap.get(n) == i + 2 for i, n in enumerate(pb.memory[2:]))
    obs.update({k: v for k, v in mgr_state(sm).items() if k not in ("ttable", "memlen", "nclauses")})
    obs["clauses_after"] = last
    users = sorted({s[1] for s in case["ops"] if s[0] == "newvar"})
    obs["users"] = users
    res = sm.solve()
    obs["solve"] = bool(res)
    if res:
        obs["model"] = {v: sm.value(Literal(v)) for v in users}
        obs["model_neg"] = {v: sm.value(Literal(v, False)) for v in users}
        obs["evals"] = [sm.evalexpr(env[i]) for i in case.get("evals", [])]
    tt = sm.ttable
    extendable = []
    for bits in dag_assignments(case, users):
        assum = [tt[v] if b else -tt[v] for v, b in zip(users, bits)]
        extendable.append([list(bits), bool(sm.solver.solve(assumptions=assum))])
    obs["extendable"] = extendable
    # every object, read at the very end (after the posts, the solve and the evaluations)
    obs["snaps"] = [pbdag.snapshot(x, k) for x, k in zip(env, kinds)]
    return obs


def glref(l):
    return f"(LRef {gnat(l[1])})" if l[0] == "ref" else f"(LNew {gstr(l[1])} {gbool(l[2])})"


def gstep(s):
    k = s[0]
    if k == "newvar":
        return f"(HNewVar {gstr(s[1])})"
    if k == "clause":
        return f"(HClause {glist([glref(l) for l in s[1]])})"
    if k == "imply":
        return f"(HImply {glist([glref(l) for l in s[1]])} {glref(s[2])})"
    if k == "amoq":
        return f"(HAmoQ {glist([glref(l) for l in s[1]])})"
    if k == "amoh":
        return f"(HAmoH {gz(s[1])} {glist([glref(l) for l in s[2]])})"
    if k == "post":
        return f"(HIneq {gnat(s[1])} {gbool(s[2])})"
    return f"(HBind {pbdag.gbind(s)})"


def dag_to_coq(case, obs):
    steps = case["ops"]
    mem0 = glist([gnode(n) for n in obs["mem0"]])
    o = (f"(mkObs {glist([gnode(n) for n in obs['newmem']])} "
         f"{glist([glist([glit(l) for l in c]) for c in obs['clauses']])} {gnat(obs['aux'])} "
         f"{glist([gnat(i) for i in obs['codified']])} {glist([gvar(v) for v in obs['vtable']])} "
         f"{glist(['Accepted' if s == 'A' else 'Refused' for s in obs['status']])})")
    vals = pbdag.gobs(obs["snaps"], obs["kinds"], skip=pbdag.consumed(steps))
    chk = f"c07_dag_check {mem0} {glist([gstep(s) for s in steps])} {vals} {o} {gsem(obs, obs['users'])}"
    for c in pbdag.zero_consts(obs["snaps"], obs["kinds"]):
        if c != 0:
            chk += f" && Z.eqb {gz(c)} 0%Z"
    return chk


def dag_describe(steps, i):
    s = steps[i]
    if s[0] == "post":
        q = steps[s[1]]
        return (f"step {i}: post x{s[1]} = {q[0]}(x{q[1]} {OPSTR[q[2]]} x{q[3]})"
                f" ({'coefficient decomposition' if s[2] else 'standard construction'})")
    return f"step {i}: {s}"


def dag_oracle(case, obs):
    steps = case["ops"]
    if not all(obs["refused_unchanged"]):
        return "refused: a refused constraint changed the manager or the diagram store"
    if not obs["mmap_ok"]:
        return "store: mmap and memory disagree (a node is stored twice or under another index)"
    users = obs["users"]
    posts = [i for i, s in enumerate(steps) if s[0] in ("newvar", "clause", "imply", "amoq", "amoh", "post")]
    accepted = [i for i, st in zip(posts, obs["status"]) if st == "A" and steps[i][0] != "newvar"]

    def violated(a):
        m = pbdag.direct(steps, a)

        def lv(l):
            return bool(m[l[1]]) if l[0] == "ref" else (a[l[1]] == l[2])
        for i in accepted:
            s = steps[i]
            k = s[0]
            if k == "clause":
                ok = any(lv(l) for l in s[1])
            elif k == "imply":
                ok = (not all(lv(l) for l in s[1])) or lv(s[2])
            elif k == "amoq":
                ok = sum(1 for l in s[1] if lv(l)) <= 1
            elif k == "amoh":
                ok = sum(1 for l in s[2] if lv(l)) <= 1
            else:
                ok = bool(m[s[1]])
            if not ok:
                return i, m
        return None, m

    def show(a):
        return a if len(a) <= 10 else "{" + ", ".join(v for v, x in a.items() if x) + " true, rest false}"
    anysat = False
    for bits, extd in obs["extendable"]:
        a = dict(zip(users, bits))
        bad, _ = violated(a)
        if bad is None:
            anysat = True
        if extd and bad is not None:
            return (f"extend: assignment {show(a)} extends to a model of the generated CNF but violates the accepted "
                    f"constraint [{dag_describe(steps, bad)}]")
        if not extd and bad is None:
            return (f"extend: assignment {show(a)} satisfies every accepted constraint but does not extend to a model "
                    f"of the generated CNF")
    full = len(users) <= MAXENUM
    if (full and obs["solve"] != anysat) or (anysat and not obs["solve"]):
        return f"solve: solve() returned {obs['solve']} but a satisfying user assignment " \
               f"{'exists' if anysat else 'does not exist'}"
    if obs["solve"]:
        mod = obs["model"]
        if any(mod[v] not in (0, 1) for v in users):
            return f"value: value() returned {mod} after a successful solve()"
        if any(obs["model_neg"][v] != 1 - mod[v] for v in users):
            return "value: value(-x) is not 1 - value(x)"
        a = {v: bool(mod[v]) for v in users}
        bad, m = violated(a)
        if bad is not None:
            return f"solve: the model exposed by value() {show(a)} violates the accepted constraint [{dag_describe(steps, bad)}]"
        for i, got in zip(case.get("evals", []), obs["evals"]):
            if got != m[i]:
                return f"evalexpr: evalexpr gives {got} for the expression object x{i} under the model {show(a)}, direct value {m[i]}"
    return None


def shrink_dag(case):
    if case.get("history"):
        yield dict(case, history=[])
    if case.get("evals"):
        yield dict(case, evals=[])
    for steps in pbdag.shrink_steps(case["ops"], pbdag.refs, pbdag.remap, simpler=dag_simpler):
        if None in pbdag.kinds_of(steps):
            continue
        # newvar steps are never dropped while their name is used by a built-on-the-spot literal
        reg = {s[1] for s in steps if s[0] == "newvar"}
        if not all(nm in reg for nm in dag_names_used(steps)):
            continue
        yield dict(case, ops=steps, evals=[], kind="dag" if len(reg) <= MAXENUM else case["kind"])


def dag_names_used(steps):
    out = set()
    for s in steps:
        if s[0] in ("lit", "str"):
            out.add(s[1])
        for l in (s[1] if s[0] in ("clause", "amoq", "imply") else s[2] if s[0] == "amoh" else []):
            if l[0] == "new":
                out.add(l[1])
        if s[0] == "imply" and s[2][0] == "new":
            out.add(s[2][1])
    return out


def dag_simpler(s):
    yield from pbdag.simpler_bind(s)
    k = s[0]
    if k in ("clause", "amoq"):
        for i in range(len(s[1])):
            yield [k, s[1][:i] + s[1][i + 1:]]
    if k == "amoh":
        for i in range(len(s[2])):
            yield [k, s[1], s[2][:i] + s[2][i + 1:]]
    if k == "imply":
        for i in range(len(s[1])):
            yield [k, s[1][:i] + s[1][i + 1:], s[2]]
    if k == "post" and s[2]:
        yield ["post", s[1], False]

# --------------------------------------------------------------------------
# BIG STORE: the size of the process-wide diagram store (kind bigstore)
# --------------------------------------------------------------------------
# Cheapest way to grow tools.rect.pseudobool.memory / mmap through the public API (measured on the pinned tree, one core
# of a loaded machine): many SMALL inequalities over fresh variables - unit coefficients, 4..12 literals, bound n/2 -
# give 60-70k new nodes per second (6..42 nodes each; the cost of a node is two serialisations of the remaining term
# list, linear in its length); 16 / 24 / 32 literals 50k / 42k / 27k nodes/s; few LARGE ones are far worse (16 random
# coefficients below 10^6: 450 nodes each, 11k nodes/s; 20: 1800 nodes each, 4k nodes/s).  Codifying the diagram in
# a throw-away manager costs another 20 %.  2^10: 20 ms, 2^16: 1 s, 2^20: 16-20 s, 2^21: 35-40 s.
BIG_MARKS = [1 << 10, 10 ** 3, 1 << 12, 10 ** 4, 1 << 15, 1 << 16, 10 ** 5, 1 << 17, 1 << 18, 1 << 19, 10 ** 6,
             1 << 20, 1 << 21, 1 << 22]


BIG_LAND_MARGIN = 160     # a filler creates at most about 100 nodes


def is_big(case):
    return case.get("kind") == "bigstore"


def gen_big_case(rng, target, chunk=None):
    """M1, a long-lived manager, posts non-clause inequalities over fresh variables until its diagrams fill ids
    2 .. 2*chunk; then the store is grown to `target` nodes by throw-away managers, chunk nodes at a time; after every
    chunk M1 posts another non-clause inequality; whenever the store has just passed a mark (powers of two and of ten)
    and after every 16th chunk a FRESH manager posts one as well.  Everything is derived from pyseed."""
    return {"kind": "bigstore", "target": int(target), "chunk": int(chunk or rng.choice([1500, 2000, 2500, 3000])),
            "pyseed": rng.randrange(1 << 30)}


def big_small_ineq(r, tagname):
    """a satisfiable non-clause inequality (>=) over 3..5 fresh variables: positive coefficients, both polarities,
    bound above every coefficient and at most their sum"""
    n = r.choice([3, 3, 4, 4, 5])
    cs = [r.choice([1, 1, 2, 2, 3, 4]) for _ in range(n)]
    if sum(cs) <= max(cs):
        cs = [1] * n
    b = r.randint(max(cs) + 1, sum(cs))
    lt = [[f"{tagname}_{i}", r.random() < 0.7, c] for i, c in enumerate(cs)]
    return {"k": "ineq", "lt": lt, "rt": [], "b": b, "op": "GE", "decomp": r.random() < 0.3, "via": "ctor"}


def big_filler(r, tagname):
    """an inequality that only serves to grow the store: unit or small coefficients over 6..12 fresh variables"""
    from tools.rect.pseudobool import Expr, Literal, Term
    n = r.choice([6, 8, 8, 10, 12])
    e = Expr()
    if r.random() < 0.7:
        for i in range(n):
            e = e + Literal(f"{tagname}_{i}", r.random() < 0.8)
        return e >= n // 2
    tot = 0
    for i in range(n):
        c = r.choice([1, 2, 3, 5])
        tot += c
        e = e + Term(Literal(f"{tagname}_{i}"), c)
    return e >= tot // 2


def big_table(sm, p):
    """extendability (PySAT under assumptions on the manager's own solver, after solve()) of every assignment of the
    variables of one posted inequality"""
    vs = [t[0] for t in p["lt"]]
    tt = sm.ttable
    rows = []
    for bits in itertools.product([False, True], repeat=len(vs)):
        assum = [tt[PRE + v] if b else -tt[PRE + v] for v, b in zip(vs, bits)]
        rows.append([list(bits), bool(sm.solver.solve(assumptions=assum))])
    return rows


def run_bigstore(case):
    import random
    from tools.rect import pseudobool as pb
    from tools.rect.pseudobool import Literal
    from tools.rect.satmanager import SATManager
    del pb.memory[2:]
    pb.memory[0:2] = [0, 1]
    pb.mmap.clear()
    r = random.Random(case["pyseed"])
    target, chunk = case["target"], case["chunk"]
    st = {"made": 0, "last": len(pb.memory), "shrunk": 0, "peak": len(pb.memory)}

    def account():
        n = len(pb.memory)
        if n < st["last"]:
            st["shrunk"] += 1
        else:
            st["made"] += n - st["last"]
        st["last"] = n
        st["peak"] = max(st["peak"], n)

    m1 = SATManager()
    m1_posts, checks, status = [], [], []

    def post(sm, p):
        for t in p["lt"]:
            sm.newvar(t[0])
        s, extra = do_post(sm, p)
        account()
        status.append(s)
        return s, extra

    def check_m1(which, label):
        ok = bool(m1.solve())
        for j in which:
            p, s, extra = m1_posts[j]
            checks.append({"mgr": "M1", "post": j, "at": label, "memlen": len(pb.memory), "p": p, "status": s,
                           "norm": extra, "solve": ok, "ext": big_table(m1, p) if ok else None})
        return ok

    def check_fresh(label, j):
        sm = SATManager()
        p = big_small_ineq(r, f"f{j}")
        s, extra = post(sm, p)
        ok = bool(sm.solve())
        model = {t[0]: sm.value(Literal(PRE + t[0])) for t in p["lt"]} if ok else None
        checks.append({"mgr": "fresh", "post": j, "at": label, "memlen": len(pb.memory), "p": p, "status": s,
                       "norm": extra, "solve": ok, "ext": big_table(sm, p) if ok else None, "model": model})

    # 1. M1 fills the first ids of the store
    j = 0
    while st["made"] < 2 * chunk and j < 4 * chunk:
        p = big_small_ineq(r, f"m{j}")
        s, extra = post(m1, p)
        m1_posts.append((p, s, extra))
        j += 1
    n_first = len(m1_posts)
    check_m1(range(n_first), "first block")
    # 2. growth by throw-away managers; M1 and fresh managers post again on the way
    k = 0
    passed = [m for m in BIG_MARKS if m < len(pb.memory)]
    early = [j for j in range(n_first) if not m1_posts[j][0]["decomp"] and m1_posts[j][1] == "A"]
    landings = []

    def land_exactly(size, tagname):
        """conjunctions of m <= 7 fresh variables (x1 + .. + xm >= m: a chain of exactly m nodes) until the store holds
        exactly `size` entries"""
        from tools.rect.pseudobool import Expr
        jj = 0
        while len(pb.memory) < size and jj < 4 * BIG_LAND_MARGIN:
            m = min(7, size - len(pb.memory))
            e = Expr()
            for ii in range(m):
                e = e + Literal(f"{tagname}z{jj}_{ii}")
            (e >= m).getrobdd()
            account()
            jj += 1
        return len(pb.memory) == size

    def superset_of(p, tagname):
        """p plus one heavier positive literal over a fresh variable, bound raised by its coefficient: p is the cofactor
        'literal true' (the diagram of p, built at the very beginning, hangs below the new root); implies p"""
        c0 = max(t[2] for t in p["lt"]) + 1
        return dict(p, lt=[[tagname, True, c0]] + [list(t) for t in p["lt"]], b=p["b"] + c0, decomp=False)

    while st["made"] < target and k < 100000:
        goal = st["made"] + chunk
        # a mark T within reach of this chunk: the growth stops at EXACTLY T - d entries and the long-lived manager posts
        # four inequalities in a row (nothing else in between), so the store passes T between two of ITS posts: a superset
        # of one of its first inequalities (new root over nodes with the smallest ids), a fresh one, that first inequality
        # again (no new node), a fresh one.  A second manager spans the chunk: it posts another early inequality before
        # the growth and a fresh one after the landing
        nxt = next((m for m in sorted(BIG_MARKS) if m - 2 > len(pb.memory) and m not in case.get("skip", [])), None)
        land = span = None
        if nxt is not None and nxt - len(pb.memory) <= chunk + BIG_LAND_MARGIN and len(landings) + 1 < len(early) // 2:
            land = nxt - [1, 0, 2][len(landings) % 3]
            span = SATManager()
            pe = m1_posts[early[2 * len(landings) + 1]][0]
            s, extra = post(span, pe)
            span_posts = [(pe, s, extra)]
        tm = SATManager()
        i = 0
        while st["made"] < goal and i < 4 * chunk and (land is None or land - len(pb.memory) > BIG_LAND_MARGIN):
            q = big_filler(r, f"t{k}_{i}")
            try:
                if i < 6:
                    tm.pseudoboolencoding(q, r.random() < 0.1)       # codified by the throw-away manager
                else:
                    q.getrobdd(r.random() < 0.1)                     # the diagram only (20 % cheaper)
            except Exception:
                pass
            account()
            i += 1
        if land is not None:
            ok_land = land_exactly(land, f"l{k}")
            pe = m1_posts[early[2 * len(landings)]][0]
            seq = [superset_of(pe, f"s{k}"), big_small_ineq(r, f"m{len(m1_posts)}a"), dict(pe),
                   big_small_ineq(r, f"m{len(m1_posts)}b")]
            sizes = [len(pb.memory)]
            first = len(m1_posts)
            for p in seq:
                s, extra = post(m1, p)
                m1_posts.append((p, s, extra))
                sizes.append(len(pb.memory))
            check_m1(range(first, len(m1_posts)), f"landing {nxt}")
            p = big_small_ineq(r, f"sp{k}")
            s, extra = post(span, p)
            span_posts.append((p, s, extra))
            ok = bool(span.solve())
            for j, (p, s, extra) in enumerate(span_posts):
                checks.append({"mgr": "span", "post": j, "at": f"landing {nxt}", "memlen": len(pb.memory), "p": p,
                               "status": s, "norm": extra, "solve": ok, "ext": big_table(span, p) if ok else None})
            landings.append({"mark": nxt, "landed": ok_land, "sizes": sizes})
        p = big_small_ineq(r, f"m{len(m1_posts)}")
        s, extra = post(m1, p)
        m1_posts.append((p, s, extra))
        now = [m for m in BIG_MARKS if m < st["peak"]]
        if len(now) > len(passed):
            passed = now
            check_m1([len(m1_posts) - 1], f"past {passed[-1]}")
            check_fresh(f"past {passed[-1]}", k)
        elif k % 16 == 0:
            check_fresh(f"chunk {k}", k)
        k += 1
    # 3. at the end: every inequality M1 posted, and one more fresh manager
    ok = check_m1(range(n_first, len(m1_posts)), "end")
    check_fresh("end", k)
    obs = {"status": status, "checks": checks, "solve": ok, "memlen": len(pb.memory), "made": st["made"],
           "peak": st["peak"], "store_shrank": st["shrunk"], "chunks": k, "m1_posts": len(m1_posts),
           "m1_clauses": len(m1.clauses), "m1_codified": len(m1.codified), "refused_unchanged": [],
           "mmap_ok": len(pb.mmap) == len(pb.memory) - 2, "landings": landings}
    if ok:
        obs["m1_model_ok"] = [all(m1.value(Literal(PRE + t[0])) in (0, 1) for t in p["lt"]) and
                              holds(p, {t[0]: bool(m1.value(Literal(PRE + t[0]))) for t in p["lt"]})
                              for p, s, _ in m1_posts if s == "A"]
    # the store goes back to its import-time content (a million tuples are not kept alive for the next case)
    del pb.memory[2:]
    pb.mmap.clear()
    return obs


def big_oracle(case, obs):
    """Each manager's inequalities are over variables of their own and each is satisfiable, so an assignment of the
    variables of ONE posted inequality extends to a model of the manager's CNF iff it satisfies that inequality."""
    if any(s != "A" for s in obs["status"]):
        return "refused: a >= inequality with positive coefficients was refused"
    for c in obs["checks"]:
        p = c["p"]
        who = (f"the long-lived manager (its post #{c['post']})" if c["mgr"] == "M1" else
               f"a manager that spans the growth past a mark (its post #{c['post']})" if c["mgr"] == "span" else
               "a fresh manager") + \
              f" with {c['memlen']} nodes in the process-wide store ({c['at']})"
        if not c["solve"]:
            return f"solve: solve() reports unsatisfiable for {who} although every posted inequality is satisfiable " \
                   f"and they share no variable"
        vs = [t[0] for t in p["lt"]]
        for bits, extd in c["ext"]:
            a = dict(zip(vs, bits))
            h = holds(p, a)
            if extd and not h:
                return (f"extend: assignment {a} extends to a model of the generated CNF but violates the accepted "
                        f"constraint [{describe(p)}] posted by {who}")
            if h and not extd:
                return (f"extend: assignment {a} satisfies every accepted constraint but does not extend to a model of "
                        f"the generated CNF; [{describe(p)}] posted by {who}")
        if c.get("model") is not None:
            m = c["model"]
            if any(m[v] not in (0, 1) for v in vs) or not holds(p, {v: bool(m[v]) for v in vs}):
                return f"solve: the model exposed by value() {m} violates the accepted constraint [{describe(p)}] ({who})"
    if obs["solve"] and not all(obs.get("m1_model_ok", [])):
        return "solve: the model exposed by value() of the long-lived manager violates one of its accepted constraints"
    return None


BIG_MODEL_SAMPLE = 96


def big_to_coq(case, obs):
    """The store is far too big to be handed to vm_compute, so this stream uses the semantic part of the comparison
    only: for a sample of the checked posts, the model run of that post from the EMPTY store must accept it and predict
    exactly the observed set of extendable assignments (C07_post_exact / C07_post_span: the set does not depend on
    the store, nor on what the manager posted before over other variables)."""
    cs = [c for c in obs["checks"] if c["ext"] is not None and c["norm"] is not None]
    marks = [c for c in cs if c["at"].startswith(("past", "landing")) or c["at"] == "end" and c["mgr"] == "fresh"]
    rest = [c for c in cs if c not in marks]
    step = max(1, len(rest) // max(1, BIG_MODEL_SAMPLE - len(marks)))
    parts = []
    for c in marks + rest[::step]:
        p = c["p"]
        names = [PRE + t[0] for t in p["lt"]]
        posts = glist([f"(PNewVar {gstr(n)})" for n in names] + [gpost(p, c["norm"])])
        o = f"(mkObs [] [] 0 [] [] {glist(['Accepted'] * (len(names) + 1))})"
        sem = gsem({"extendable": c["ext"], "users": names}, names)
        parts.append(f"c07_check [] {posts} {o} {sem}")
    return " && ".join(f"({x})" for x in parts) if parts else "false"


def shrink_big(case):
    if case["target"] > 4096:
        yield dict(case, target=case["target"] // 2)


# --------------------------------------------------------------------------
# direct oracle: the property as stated, on the implementation's own output
# --------------------------------------------------------------------------
def litv(a, v, s):
    return 1 if a[v] == s else 0


def holds(p, a):
    """The posted constraint evaluated from how it was posted (not from its normal form)."""
    k = p["k"]
    if k == "newvar":
        return True
    if k == "clause":
        return any(litv(a, v, s) for v, s in p["lits"])
    if k == "imply":
        return (not all(litv(a, v, s) for v, s in p["lits"])) or bool(litv(a, p["x"][0], p["x"][1]))
    if k in ("amoq", "amoh"):
        return sum(litv(a, v, s) for v, s in p["lits"]) <= 1
    if k == "ineq":
        l = sum(c * litv(a, v, s) for v, s, c in p["lt"])
        r = sum(c * litv(a, v, s) for v, s, c in p["rt"]) + p["b"]
        return {"GE": l >= r, "LE": l <= r, "GT": l > r, "LT": l < r, "EQ": l == r, "EQ2": l == r}[p["op"]]
    raise ValueError(k)


def describe(p):
    if p["k"] == "ineq":
        def side(ts):
            return " + ".join(f"{c}*{'' if s else '-'}{v}" for v, s, c in ts) or "0"
        return (f"{side(p['lt'])} {OPSTR[p['op']]} {side(p['rt'])} + {p['b']}"
                f" ({'coefficient decomposition' if p['decomp'] else 'standard construction'})")
    if p["k"] == "amoh":
        return f"heule k={p['kk']} {p['lits']}"
    return f"{p['k']} {p.get('lits', p.get('v'))}" + (f" -> {p['x']}" if p["k"] == "imply" else "")


def oracle(case, obs):
    if is_dag(case):
        return dag_oracle(case, obs)
    if is_big(case):
        return big_oracle(case, obs)
    posts = case["posts"]
    if not all(obs["refused_unchanged"]):
        return "refused: a refused constraint changed the manager or the diagram store"
    if not obs["mmap_ok"]:
        return "store: mmap and memory disagree (a node is stored twice or under another index)"
    users = obs["users"]
    accepted = [p for p, s in zip(posts, obs["status"]) if s == "A"]
    anysat = False
    for bits, extd in obs["extendable"]:
        a = dict(zip(users, bits))
        bad = [p for p in accepted if not holds(p, a)]
        if not bad:
            anysat = True
        if extd and bad:
            return (f"extend: assignment {a} extends to a model of the generated CNF but violates the accepted "
                    f"constraint [{describe(bad[0])}]")
        if not extd and not bad:
            return (f"extend: assignment {a} satisfies every accepted constraint but does not extend to a model "
                    f"of the generated CNF")
    full = len(users) <= MAXENUM
    if full and obs["solve"] != anysat:
        return f"solve: solve() returned {obs['solve']} but a satisfying user assignment " \
               f"{'exists' if anysat else 'does not exist'}"
    if obs["solve"]:
        m = obs["model"]
        if any(m[v] not in (0, 1) for v in users):
            return f"value: value() returned {m} after a successful solve()"
        if any(obs["model_neg"][v] != 1 - m[v] for v in users):
            return "value: value(-x) is not 1 - value(x)"
        a = {v: bool(m[v]) for v in users}
        bad = [p for p in accepted if not holds(p, a)]
        if bad:
            return f"solve: the model exposed by value() {a} violates the accepted constraint [{describe(bad[0])}]"
        for ev, got in zip(case.get("evals", []), obs["evals"]):
            want = ev["c"] + sum(c * litv(a, v, s) for v, s, c in ev["t"])
            if got != want:
                return f"evalexpr: evalexpr gives {got} for {ev} under the model {a}, direct value {want}"
    return None


def failure_key(case, why):
    head = (why or "").split(":")[0]
    return "C07/" + (head if head in ("extend", "refused", "solve", "value", "evalexpr", "store") else "sat-layer")


# --------------------------------------------------------------------------
# shrinking
# --------------------------------------------------------------------------
def used_vars(post):
    k = post["k"]
    if k == "newvar":
        return set()
    vs = {l[0] for l in post.get("lits", [])}
    if k == "imply":
        vs.add(post["x"][0])
    if k == "ineq":
        vs |= {t[0] for t in post["lt"]} | {t[0] for t in post["rt"]}
    return vs


def shrink_post(p):
    k = p["k"]
    if k in ("clause", "imply", "amoq", "amoh"):
        for i in range(len(p["lits"])):
            yield dict(p, lits=p["lits"][:i] + p["lits"][i + 1:])
    if k == "amoh" and p["kk"] > 3:
        yield dict(p, kk=3)
    if k == "ineq":
        for key in ("rt", "lt"):
            for i in range(len(p[key])):
                yield dict(p, **{key: p[key][:i] + p[key][i + 1:]})
        for key in ("lt", "rt"):
            for i, t in enumerate(p[key]):
                if abs(t[2]) > 1:
                    for c in (t[2] // abs(t[2]), t[2] - t[2] // abs(t[2])):
                        yield dict(p, **{key: p[key][:i] + [[t[0], t[1], c]] + p[key][i + 1:]})
                if not t[1]:
                    yield dict(p, **{key: p[key][:i] + [[t[0], True, t[2]]] + p[key][i + 1:]})
        if p["b"] != 0:
            yield dict(p, b=0)
            yield dict(p, b=p["b"] - (1 if p["b"] > 0 else -1))
        if p["decomp"]:
            yield dict(p, decomp=False)
        if p["op"] not in ("GE",):
            pass


def shrink(case):
    if is_dag(case):
        yield from shrink_dag(case)
        return
    if is_big(case):
        yield from shrink_big(case)
        return
    posts, hist = case["posts"], case.get("history", [])
    if hist:
        yield dict(case, history=[])
        for i in range(len(hist)):
            yield dict(case, history=hist[:i] + hist[i + 1:])
    if case.get("evals"):
        yield dict(case, evals=[])
    for i, p in enumerate(posts):
        if p["k"] != "newvar":
            yield dict(case, posts=posts[:i] + posts[i + 1:])
    # unused or repeated registrations
    need = set().union(*[used_vars(p) for p in posts]) if posts else set()
    seen = set()
    for i, p in enumerate(posts):
        if p["k"] == "newvar":
            if p["v"] not in need or p["v"] in seen:
                yield dict(case, posts=posts[:i] + posts[i + 1:])
            seen.add(p["v"])
    for i, p in enumerate(posts):
        for q in shrink_post(p):
            yield dict(case, posts=posts[:i] + [q] + posts[i + 1:])
    for i, h in enumerate(hist):
        for q in shrink_post(h):
            yield dict(case, history=hist[:i] + [q] + hist[i + 1:])


# --------------------------------------------------------------------------
def nontrivial(case):
    if is_big(case):
        return True
    if is_dag(case):
        # an inequality is posted after another object was derived from one of the objects it was built from
        steps = case["ops"]
        for i, s in enumerate(steps):
            if s[0] == "post":
                anc, todo = set(), [s[1]]
                while todo:
                    j = todo.pop()
                    if j not in anc:
                        anc.add(j)
                        todo.extend(pbdag.refs(steps[j]))
                q = s[1]
                if any(k > q and steps[k][0] not in ("post", "obs") and anc & set(pbdag.refs(steps[k]))
                       for k in range(q + 1, i)):
                    return True
        return False
    return any(p["k"] == "ineq" and len(p["lt"]) >= 2 for p in case["posts"]) or \
        any(p["k"] == "amoh" and len(p["lits"]) > max(p["kk"], 3) for p in case["posts"])


def dist_key(case):
    ks = sorted({p["k"] + ("/dec" if p.get("decomp") else "") for p in case["posts"] if p["k"] != "newvar"})
    return "+".join(ks) + ("|hist" if case.get("history") else "")


def run(ctx, out, replay=None):
    n = 5000 if ctx.quick() else 32000
    out.rule = ("random posting sequences (1-6 posts: clauses, implications, at-most-one groups of 0..12 literals "
                "pairwise and chained with k 3..6 (and refused k), inequalities with up to 8+2 literals, coefficients "
                "-9..9 incl. 0, repeated variables, both polarities, six operator spellings, both constructions) over "
                "2..10 user variables, posted to a fresh manager after 0-6 earlier encodings by another manager of the "
                "same process; a fifth of the sequences also post an inequality and later one of its cofactors (whose "
                "diagram is an inner node of the first one's); every user assignment is checked for extendability with "
                "PySAT; non-trivial = an "
                "inequality with >= 2 literals or a chained group longer than k; distinct by hash. "
                "Every third case is a HISTORY over shared objects (PB/DagPost.v): the variables are registered with "
                "newvar (the returned Literal objects are kept), then 8..40 steps interleave bindings of the expression "
                "algebra (each object built from earlier ones, hot objects reused as left and right operands), "
                "inequalities whose bound lies inside the range of their expression, read-only uses, and posts of "
                "clauses / implications / at-most-one groups over the kept Literal objects and of Ineq objects built "
                "EARLIER (posted after other objects were derived from their operands; the same object may be posted "
                "twice); all objects are compared at the end; one case in 400 does this over 33..64 variables with two "
                "long sums compared with each other (subtrahend > 32 terms, shared variables of both polarities); "
                "non-trivial history = an inequality posted after something else was derived from one of its ancestors. "
                "One case in 200 is WIDE: 15..65 variables (around 16 / 32 / 64), one to three long clauses, at-most-one "
                "groups (k up to 32) or unit-coefficient inequalities bounded near an extreme, checked on the "
                "assignments around the boundary of each constraint.  Variable names also come from pools of names that "
                "are prefixes of each other (x, x1, x10, x_1), look like the internal ones (aux, robdd_x, def_), are "
                "digits (registered through newvar(int) / newvar(float)) or non-ASCII. "
                "BIG STORE (quick: 7*10^4 and 2^20+4096 nodes; thorough: 13 sizes up to 2^21): a long-lived manager "
                "first fills ids 2..2*chunk, then throw-away managers grow the store chunk by chunk (1500-3000 nodes; "
                "many small inequalities over fresh variables - the cheapest way, 60k nodes/s); after every chunk the "
                "long-lived manager posts another non-clause inequality, past every power of two / of ten and every "
                "16th chunk a fresh manager posts one; every posted inequality is checked by enumeration; "
                "JUST BELOW every mark T (2^k, 10^k; two more cases with chunks of 300 nodes for 10^3, 2^10, 2^12) the "
                "growth stops at EXACTLY T-1 / T / T-2 entries and the long-lived manager posts four inequalities in a "
                "row, so the store passes T between two of its own posts: one of its first inequalities plus a heavier "
                "literal (new root over the nodes with the smallest ids), a fresh one, that first inequality again (no "
                "new node), a fresh one; a second manager spans the chunk (an early inequality before the growth, a "
                "fresh one after the landing). "
                "HUGE coefficients (200 cases quick, 2000 thorough; 3..6 variables): inequalities with one to three "
                "coefficients from 2^k-1, 2^k, 2^k+1 (k = 31..33, 49..64, 100), 10^15..10^19 (+-1) and a few odd ones "
                "(ties, neighbours, doubles and halves of each other; either sign), next to coefficients 1..5, with a "
                "bound the small terms reach on their own or within a few units of a sum of huge ones, all operators, "
                "both constructions (60% coefficient decomposition), after 0-2 earlier huge encodings and, half of the "
                "time, a call by the EARLIER manager of a public method that posts nothing (prioritize with negated "
                "literals, setflipped, isflipped, newaux, printclauses, tocnf, solve, value, evalexpr, newvar with "
                "another prefix) on the same variable names. "
                "LONG inequalities with MEDIUM coefficients (50 cases quick, 600 thorough): 12..24 terms, every variable "
                "once, coefficients drawn from lo..hi with lo 5..10 and hi 12..40 (now and then one light last term), "
                "the bound a few units above one or two of the heaviest coefficients, anywhere between the lightest "
                "coefficient and the sum of the two heaviest, about one / a pair of the four lightest, or as close to "
                "the total; four operators, negated and complemented spellings, both constructions (30% coefficient "
                "decomposition), sometimes a second inequality over 12+ of the variables or the same inequality encoded "
                "before by another manager; checked on all assignments with at most two (12 terms: three) literals of "
                "the inequality true / false plus 60 random ones")
    cases = []
    if replay and "case" in replay:
        cases.append(fr.unjson(replay["case"]))
    cases += fr.load_corpus("C07")
    while len(cases) < n:
        k = len(cases) % 400
        cases.append(gen_dag_case(ctx.rng, big=True) if k == 11 else
                     gen_wide_case(ctx.rng) if k % 200 == 13 else
                     gen_dag_case(ctx.rng) if k % 3 == 0 else gen_case(ctx.rng))
    # the SIZE of the process-wide store: once per quick run past 2^20 nodes (and once past 2^16); thorough: past
    # 2^21, 2^20, 10^6 and ten smaller ones.  A separate generator: the cases above do not depend on it
    import random
    brng = random.Random(ctx.rng.randrange(1 << 30))
    bt = [70000, (1 << 20) + 4096] if ctx.quick() else \
        [3000, 5000, 12000, 40000, 70000, 70000, 110000, 140000, 270000, 530000, 10 ** 6 + 8192, (1 << 20) + 8192,
         (1 << 21) + 8192]
    cases += [gen_big_case(brng, t) for t in bt]
    # small chunks (first block of 600 nodes): exact landings just below 10^3, 2^10, 2^12 as well
    # (10^3 and 2^10 are too close for both to be landed on in one run: every other case skips 10^3)
    cases += [dict(gen_big_case(brng, t, chunk=300), skip=[1000] if i % 2 else [])
              for i, t in enumerate([6000, 6000] if ctx.quick() else [6000, 6000, 12000, 12000])]
    # HUGE coefficients (a generator of its own as well: the streams above are unchanged)
    hrng = random.Random(ctx.rng.randrange(1 << 30))
    cases += [gen_huge_case(hrng) for _ in range(200 if ctx.quick() else 2000)]
    # LONG inequalities with MEDIUM coefficients (again a generator of its own)
    mrng = random.Random(ctx.rng.randrange(1 << 30))
    cases += [gen_mid_case(mrng) for _ in range(50 if ctx.quick() else 600)]
    stats = {"refused_posts": 0, "cases_building_nodes": 0, "cases_reusing_earlier_nodes": 0, "unsat_instances": 0,
             "max_initial_memory": 0, "max_new_nodes": 0, "nodes_codified": 0,
             "ineq_via_diagram": 0, "ineq_as_clause_or_tautology": 0}

    def run_counted(case):
        obs = run_impl(case)
        if is_big(case):
            stats["bigstore_cases"] = stats.get("bigstore_cases", 0) + 1
            stats["bigstore_max_nodes"] = max(stats.get("bigstore_max_nodes", 0), obs["peak"])
            stats["bigstore_checked_posts"] = stats.get("bigstore_checked_posts", 0) + len(obs["checks"])
            stats["bigstore_store_shrank"] = stats.get("bigstore_store_shrank", 0) + obs["store_shrank"]
            stats["bigstore_landings"] = stats.get("bigstore_landings", []) + \
                [[l["mark"], l["sizes"][0], l["sizes"][-1]] for l in obs.get("landings", []) if l["landed"]]
            return obs
        stats["refused_posts"] += obs["status"].count("R")
        stats["cases_building_nodes"] += 1 if obs["newmem"] else 0
        stats["cases_reusing_earlier_nodes"] += 1 if any(2 <= i < 2 + len(obs["mem0"]) for i in obs["codified"]) else 0
        stats["unsat_instances"] += 0 if obs["solve"] else 1
        stats["max_initial_memory"] = max(stats["max_initial_memory"], len(obs["mem0"]))
        stats["max_new_nodes"] = max(stats["max_new_nodes"], len(obs["newmem"]))
        stats["nodes_codified"] += len(obs["codified"])
        if is_dag(case):
            posted = [{"k": "ineq"} if s[0] == "post" else {"k": s[0]} for s in case["ops"]
                      if s[0] in ("newvar", "clause", "imply", "amoq", "amoh", "post")]
            stats["dag_cases"] = stats.get("dag_cases", 0) + 1
            stats["dag_posted_inequalities"] = stats.get("dag_posted_inequalities", 0) + \
                sum(1 for p in posted if p["k"] == "ineq")
        else:
            posted = case["posts"]
        for p, st, c in zip(posted, obs["status"], obs["clauses_after"]):
            if p["k"] == "ineq" and st == "A":
                stats["ineq_via_diagram" if c and len(c) == 1 and c[0].startswith("robdd_") else "ineq_as_clause_or_tautology"] += 1
        return obs
    fr.run_cases(ctx, out, cases, run_counted, to_coq, oracle, failure_key, HEADER,
                 dist_key=None, nontrivial=nontrivial, shard=125, shrink=shrink)
    out.extra["c07_stats"] = stats
    kinds = {}
    for c in cases:
        if is_big(c):
            kinds["bigstore"] = kinds.get("bigstore", 0) + 1
            continue
        if is_dag(c):
            for st in c["ops"]:
                kk = "dag:" + st[0] + ("/dec" if st[0] == "post" and st[2] else "")
                kinds[kk] = kinds.get(kk, 0) + 1
            continue
        for p in c["posts"]:
            kk = p["k"] + ("/dec" if p.get("decomp") else "") + ("/" + p["op"] if p["k"] == "ineq" else "")
            kinds[kk] = kinds.get(kk, 0) + 1
    out.dist.update(kinds)
