"""C07 - SAT layer: every posted constraint is encoded exactly
(tools/rect/satmanager.py, Ineq.isclause/getrobdd/constructrobdd in tools/rect/pseudobool.py)."""
import itertools
import re

from harness import core, fr
from harness.core import gz, gnat, gbool, gstr, glist

HEADER = """From Coq Require Import ZArith List Bool String.
From FrameModel Require Import PB.Expr PB.Cnf PB.Amo PB.Robdd PB.Codify PB.Sat Cases.CmpC07.
Import ListNotations."""

ASSUMPTIONS = [
    "user variables are created with SATManager.newvar and their names do not look like aux_<n> / robdd_<n> "
    "(the code itself would alias them); the model keeps the three name spaces apart by construction",
    "inequalities reach the manager through Ineq(...) (normal form of C16: positive coefficients); the model is "
    "given the normalised (terms, bound, operator) read from the Ineq object",
    "mmap and memory agree (both are written only by constructrobdd); each case starts from memory == [0, 1], runs "
    "its own earlier history of encodings in another manager of the same process, and the resulting memory is the "
    "initial memory given to the model",
    "Literal.__lt__ returns a truthy Ineq, so list.sort() on a clause reverses it (CPython timsort: one descending run)",
    "PySAT (default solver of pysat.solvers.Solver) is trusted as sound and complete; the model's solver is a Section "
    "variable with that contract",
    "names containing ',' ';' or ' ' (which would alias keys of the per-call memo) are not generated",
]

OPSTR = {"GE": ">=", "LE": "<=", "GT": ">", "LT": "<", "EQ": "=", "EQ2": "=="}
OPBACK = {">=": "GE", "<=": "LE", ">": "GT", "<": "LT", "=": "EQ", "==": "EQ2"}
NAMES = ["a", "b", "c", "d", "e", "f", "g", "h", "i", "j"]
PRE = "def_"
MAXENUM = 10


# --------------------------------------------------------------------------
# generation
# --------------------------------------------------------------------------
def gen_lits(rng, names, n):
    return [[rng.choice(names), rng.random() < 0.6] for _ in range(n)]


def gen_ineq(rng, names):
    n = rng.choice([0, 1, 2, 3, 3, 4, 4, 5, 5, 6, 7, 8])
    pool = names if rng.random() < 0.7 else names[:max(2, len(names) // 2)]
    coefs = list(range(-9, 10)) if rng.random() < 0.5 else [-2, -1, 0, 1, 1, 1, 2, 2, 3]
    lt = [[rng.choice(pool), rng.random() < 0.65, rng.choice(coefs)] for _ in range(n)]
    rt = [[rng.choice(pool), rng.random() < 0.65, rng.choice(coefs)] for _ in range(rng.choice([0, 0, 0, 1, 2]))]
    tot = sum(abs(t[2]) for t in lt + rt)
    lo = -sum(-t[2] for t in lt if t[2] < 0) - sum(t[2] for t in rt if t[2] > 0)
    hi = sum(t[2] for t in lt if t[2] > 0) + sum(-t[2] for t in rt if t[2] < 0)
    mode = rng.random()
    if mode < 0.55 and hi - lo >= 2:
        b = rng.randint(lo + 1, hi - 1)         # neither trivially true nor trivially false
    elif mode < 0.75:
        b = rng.randint(lo - 1, hi + 1)
    elif mode < 0.9:
        b = rng.choice([lo, lo + 1, hi, hi - 1, 0, 1])
    else:
        b = rng.randint(-tot - 3, tot + 3)
    op = rng.choice(["GE", "GE", "GE", "GE", "LE", "LE", "LE", "GE", "LE", "GT", "LT", "GT", "LT", "EQ", "EQ2"])
    return {"k": "ineq", "lt": lt, "rt": rt, "b": b, "op": op, "decomp": rng.random() < 0.4,
            "via": rng.choice(["ctor", "operator"]) if op != "EQ2" else "ctor"}


def gen_post(rng, names):
    kind = rng.choice(["clause", "imply", "amoq", "amoh", "amoh"] + ["ineq"] * 7)
    if kind == "clause":
        return {"k": "clause", "lits": gen_lits(rng, names, rng.choice([0, 1, 2, 2, 2, 3, 3, 4, 4]))}
    if kind == "imply":
        return {"k": "imply", "lits": gen_lits(rng, names, rng.choice([0, 1, 2, 3])), "x": gen_lits(rng, names, 1)[0]}
    if kind == "amoq":
        return {"k": "amoq", "lits": gen_lits(rng, names, rng.randint(0, 12))}
    if kind == "amoh":
        kk = rng.choice([3, 3, 4, 5, 6, 3, 4, rng.choice([0, 1, 2, -1, 7, 20])])
        return {"k": "amoh", "kk": kk, "lits": gen_lits(rng, names, rng.randint(0, 12))}
    return gen_ineq(rng, names)


def gen_case(rng):
    nv = rng.choice([2, 3, 3, 4, 4, 5, 5, 6, 6, 7, 8, 10])
    names = NAMES[:nv]
    posts = [gen_post(rng, names) for _ in range(rng.choice([1, 1, 1, 2, 2, 2, 3, 3, 4, 5, 6]))]
    hist = []
    for _ in range(rng.choice([0, 1, 2, 3, 4, 6])):
        if posts and rng.random() < 0.35:
            cand = [p for p in posts if p["k"] == "ineq"]
            if cand:
                h = dict(rng.choice(cand))
                if rng.random() < 0.5:
                    h["decomp"] = not h["decomp"]
                if rng.random() < 0.3:
                    h["b"] = h["b"] + rng.choice([-1, 1])
                hist.append(h)
                continue
        hist.append(gen_ineq(rng, names))
    order = list(names)
    rng.shuffle(order)
    nvp = [{"k": "newvar", "v": v} for v in order]
    if rng.random() < 0.2:
        nvp.insert(rng.randrange(len(nvp) + 1), {"k": "newvar", "v": rng.choice(names)})
    # now and then a variable is registered late (after it was used in a posted constraint is not allowed:
    # solve() needs every literal's name in ttable), so only before its first use: keep all at the front
    evals = [{"c": rng.randint(-5, 5), "t": [[rng.choice(names), rng.random() < 0.6, rng.randint(-9, 9)]
                                              for _ in range(rng.randint(0, 4))]} for _ in range(2)]
    return {"history": hist, "posts": nvp + posts, "evals": evals}


# --------------------------------------------------------------------------
# running the implementation
# --------------------------------------------------------------------------
def build_expr(terms, const, spell):
    from tools.rect.pseudobool import Literal, Term, Expr
    e = Expr()
    for v, s, c in terms:
        L = Literal(PRE + v, s)
        if c == 1 and spell % 3 == 0:
            e = e + L
        elif spell % 2 == 0:
            e = e + Term(L, c)
        else:
            e = e + c * L
    if const != 0 or spell % 5 == 0:
        e = e + const
    return e


def build_ineq(p):
    from tools.rect.pseudobool import Ineq
    spell = len(p["lt"]) + 3 * len(p["rt"]) + abs(p["b"])
    l = build_expr(p["lt"], 0, spell)
    r = build_expr(p["rt"], p["b"], spell + 1)
    op = p["op"]
    if p.get("via", "ctor") == "ctor" or op == "EQ2":
        return Ineq(l, r, OPSTR[op])
    return {"GE": lambda: l >= r, "LE": lambda: l <= r, "GT": lambda: l > r, "LT": lambda: l < r,
            "EQ": lambda: l == r}[op]()


def ineq_norm(q):
    return {"t": [[q.lhs.t[v].L.v, bool(q.lhs.t[v].L.s), int(q.lhs.t[v].c)] for v in q.lhs.t],
            "keys": [str(v) for v in q.lhs.t], "rhs": int(q.rhs), "op": q.op, "c": int(q.lhs.c)}


def lits_of(sm, lits):
    from tools.rect.pseudobool import Literal
    return [Literal(PRE + v, s) for v, s in lits]


def do_post(sm, p):
    """Returns (status, extra).  status: 'A' accepted, 'R' refused (the documented Exception)."""
    from tools.rect.pseudobool import Literal
    k = p["k"]
    extra = None
    try:
        if k == "newvar":
            sm.newvar(p["v"])
        elif k == "clause":
            sm.add_clause(lits_of(sm, p["lits"]))
        elif k == "imply":
            sm.imply(lits_of(sm, p["lits"]), Literal(PRE + p["x"][0], p["x"][1]))
        elif k == "amoq":
            sm.quadraticencoding(lits_of(sm, p["lits"]))
        elif k == "amoh":
            sm.heuleencoding(lits_of(sm, p["lits"]), p["kk"])
        elif k == "ineq":
            q = build_ineq(p)
            extra = ineq_norm(q)
            sm.pseudoboolencoding(q, p["decomp"])
        else:
            raise ValueError(k)
    except Exception as e:
        if type(e) is Exception and str(e) in ("Not implemented yet.", "k must be at least 3"):
            return "R", extra
        raise
    return "A", extra


def mgr_state(sm):
    from tools.rect import pseudobool as pb
    return {"clauses": [[[l.v, bool(l.s)] for l in c] for c in sm.clauses], "aux": sm.auxcount,
            "codified": [int(k) for k in sm.codified], "vtable": list(sm.vtable[1:]),
            "ttable": dict(sm.ttable), "memlen": len(pb.memory), "nclauses": len(sm.clauses)}


def mem_nodes(lst):
    out = []
    for x in lst:
        if not (isinstance(x, tuple) and len(x) == 3):
            raise ValueError(f"memory entry {x!r} is not a node")
        out.append([str(x[0]), int(x[1]), int(x[2])])
    return out


def run_impl(case):
    from tools.rect import pseudobool as pb
    from tools.rect.pseudobool import Literal, Term, Expr
    from tools.rect.satmanager import SATManager
    # process-wide store back to its import-time content, then this case's own earlier history
    del pb.memory[2:]
    pb.memory[0:2] = [0, 1]
    pb.mmap.clear()
    hm = SATManager()
    for v in NAMES:
        hm.newvar(v)
    for h in case.get("history", []):
        try:
            do_post(hm, h)
        except Exception:
            pass
    mem0 = mem_nodes(pb.memory[2:])
    mmap_ok = all(pb.mmap.get(tuple(n)) == i + 2 for i, n in enumerate(pb.memory[2:])) and len(pb.mmap) == len(mem0)
    sm = SATManager()
    status, norms, unchanged, last = [], [], [], []
    for p in case["posts"]:
        before = mgr_state(sm)
        st, extra = do_post(sm, p)
        status.append(st)
        norms.append(extra)
        last.append([l.v for l in sm.clauses[-1]] if len(sm.clauses) > before["nclauses"] else None)
        if st == "R":
            unchanged.append(mgr_state(sm) == before)
    obs = {"mem0": mem0, "mmap_ok": mmap_ok, "newmem": mem_nodes(pb.memory[2 + len(mem0):]), "status": status,
           "norms": norms, "refused_unchanged": unchanged}
    obs["mmap_ok"] = mmap_ok and len(pb.mmap) == len(pb.memory) - 2 and \
        all(pb.mmap.get(n) == i + 2 for i, n in enumerate(pb.memory[2:]))
    obs.update({k: v for k, v in mgr_state(sm).items() if k not in ("ttable", "memlen", "nclauses")})
    obs["clauses_after"] = last
    obs["history_codified"] = len(hm.codified)
    # ---- solve / value / evalexpr, and extendability of every user assignment ----
    users = sorted({p["v"] for p in case["posts"] if p["k"] == "newvar"})
    obs["users"] = users
    res = sm.solve()
    obs["solve"] = bool(res)
    if res:
        obs["model"] = {v: sm.value(Literal(PRE + v)) for v in users}
        obs["model_neg"] = {v: sm.value(Literal(PRE + v, False)) for v in users}
        obs["evals"] = [sm.evalexpr(build_expr(ev["t"], ev["c"], 0)) for ev in case.get("evals", [])]
    # the solver object now holds exactly what solve() fed to it
    tt = sm.ttable
    if len(users) <= MAXENUM:
        assigns = list(itertools.product([False, True], repeat=len(users)))
    else:
        import random
        r = random.Random(len(sm.clauses))
        assigns = [tuple(r.random() < 0.5 for _ in users) for _ in range(512)]
    extendable = []
    for bits in assigns:
        assum = [tt[PRE + v] if b else -tt[PRE + v] for v, b in zip(users, bits)]
        extendable.append([list(bits), bool(sm.solver.solve(assumptions=assum))])
    obs["extendable"] = extendable
    return obs


# --------------------------------------------------------------------------
# Gallina
# --------------------------------------------------------------------------
def gvar(name):
    m = re.fullmatch(r"aux_(\d+)", name)
    if m:
        return f"(Aux {gnat(int(m.group(1)))})"
    m = re.fullmatch(r"robdd_(\d+)", name)
    if m:
        return f"(Node {gnat(int(m.group(1)))})"
    return f"(User {gstr(name)})"


def glit(l):
    return f"({gvar(l[0])}, {gbool(l[1])})"


def gul(l):
    return f"({gstr(PRE + l[0])}, {gbool(l[1])})"


def gterm(t):
    return f"(mkT {gstr(t[0])} {gbool(t[1])} {gz(t[2])})"


def gnode(n):
    return f"({gstr(n[0])}, {gnat(n[1])}, {gnat(n[2])})"


def gpost(p, norm):
    k = p["k"]
    if k == "newvar":
        return f"(PNewVar {gstr(PRE + p['v'])})"
    if k == "clause":
        return f"(PClause {glist([gul(l) for l in p['lits']])})"
    if k == "imply":
        return f"(PImply {glist([gul(l) for l in p['lits']])} {gul(p['x'])})"
    if k == "amoq":
        return f"(PAmoQ {glist([gul(l) for l in p['lits']])})"
    if k == "amoh":
        return f"(PAmoH {gz(p['kk'])} {glist([gul(l) for l in p['lits']])})"
    if k == "ineq":
        return (f"(PIneq (mkI {glist([gterm(t) for t in norm['t']])} {gz(norm['rhs'])} {OPBACK[norm['op']]}) "
                f"{gbool(p['decomp'])})")
    raise ValueError(k)


def to_coq(case, obs):
    posts = glist([gpost(p, n) for p, n in zip(case["posts"], obs["norms"])])
    mem0 = glist([gnode(n) for n in obs["mem0"]])
    o = (f"(mkObs {glist([gnode(n) for n in obs['newmem']])} "
         f"{glist([glist([glit(l) for l in c]) for c in obs['clauses']])} {gnat(obs['aux'])} "
         f"{glist([gnat(i) for i in obs['codified']])} {glist([gvar(v) for v in obs['vtable']])} "
         f"{glist(['Accepted' if s == 'A' else 'Refused' for s in obs['status']])})")
    return f"c07_check {mem0} {posts} {o}"


# --------------------------------------------------------------------------
# direct oracle: the property as stated, on the implementation's own output
# --------------------------------------------------------------------------
def litv(a, v, s):
    return 1 if a[v] == s else 0


def holds(p, a):
    """The posted constraint evaluated from how it was posted (not from its normal form)."""
    k = p["k"]
    if k == "newvar":
        return True
    if k == "clause":
        return any(litv(a, v, s) for v, s in p["lits"])
    if k == "imply":
        return (not all(litv(a, v, s) for v, s in p["lits"])) or bool(litv(a, p["x"][0], p["x"][1]))
    if k in ("amoq", "amoh"):
        return sum(litv(a, v, s) for v, s in p["lits"]) <= 1
    if k == "ineq":
        l = sum(c * litv(a, v, s) for v, s, c in p["lt"])
        r = sum(c * litv(a, v, s) for v, s, c in p["rt"]) + p["b"]
        return {"GE": l >= r, "LE": l <= r, "GT": l > r, "LT": l < r, "EQ": l == r, "EQ2": l == r}[p["op"]]
    raise ValueError(k)


def describe(p):
    if p["k"] == "ineq":
        def side(ts):
            return " + ".join(f"{c}*{'' if s else '-'}{v}" for v, s, c in ts) or "0"
        return (f"{side(p['lt'])} {OPSTR[p['op']]} {side(p['rt'])} + {p['b']}"
                f" ({'coefficient decomposition' if p['decomp'] else 'standard construction'})")
    if p["k"] == "amoh":
        return f"heule k={p['kk']} {p['lits']}"
    return f"{p['k']} {p.get('lits', p.get('v'))}" + (f" -> {p['x']}" if p["k"] == "imply" else "")


def oracle(case, obs):
    posts = case["posts"]
    if not all(obs["refused_unchanged"]):
        return "refused: a refused constraint changed the manager or the diagram store"
    if not obs["mmap_ok"]:
        return "store: mmap and memory disagree (a node is stored twice or under another index)"
    users = obs["users"]
    accepted = [p for p, s in zip(posts, obs["status"]) if s == "A"]
    anysat = False
    for bits, extd in obs["extendable"]:
        a = dict(zip(users, bits))
        bad = [p for p in accepted if not holds(p, a)]
        if not bad:
            anysat = True
        if extd and bad:
            return (f"extend: assignment {a} extends to a model of the generated CNF but violates the accepted "
                    f"constraint [{describe(bad[0])}]")
        if not extd and not bad:
            return (f"extend: assignment {a} satisfies every accepted constraint but does not extend to a model "
                    f"of the generated CNF")
    full = len(users) <= MAXENUM
    if full and obs["solve"] != anysat:
        return f"solve: solve() returned {obs['solve']} but a satisfying user assignment " \
               f"{'exists' if anysat else 'does not exist'}"
    if obs["solve"]:
        m = obs["model"]
        if any(m[v] not in (0, 1) for v in users):
            return f"value: value() returned {m} after a successful solve()"
        if any(obs["model_neg"][v] != 1 - m[v] for v in users):
            return "value: value(-x) is not 1 - value(x)"
        a = {v: bool(m[v]) for v in users}
        bad = [p for p in accepted if not holds(p, a)]
        if bad:
            return f"solve: the model exposed by value() {a} violates the accepted constraint [{describe(bad[0])}]"
        for ev, got in zip(case.get("evals", []), obs["evals"]):
            want = ev["c"] + sum(c * litv(a, v, s) for v, s, c in ev["t"])
            if got != want:
                return f"evalexpr: evalexpr gives {got} for {ev} under the model {a}, direct value {want}"
    return None


def failure_key(case, why):
    head = (why or "").split(":")[0]
    return "C07/" + (head if head in ("extend", "refused", "solve", "value", "evalexpr", "store") else "sat-layer")


# --------------------------------------------------------------------------
# shrinking
# --------------------------------------------------------------------------
def used_vars(post):
    k = post["k"]
    if k == "newvar":
        return set()
    vs = {l[0] for l in post.get("lits", [])}
    if k == "imply":
        vs.add(post["x"][0])
    if k == "ineq":
        vs |= {t[0] for t in post["lt"]} | {t[0] for t in post["rt"]}
    return vs


def shrink_post(p):
    k = p["k"]
    if k in ("clause", "imply", "amoq", "amoh"):
        for i in range(len(p["lits"])):
            yield dict(p, lits=p["lits"][:i] + p["lits"][i + 1:])
    if k == "amoh" and p["kk"] > 3:
        yield dict(p, kk=3)
    if k == "ineq":
        for key in ("rt", "lt"):
            for i in range(len(p[key])):
                yield dict(p, **{key: p[key][:i] + p[key][i + 1:]})
        for key in ("lt", "rt"):
            for i, t in enumerate(p[key]):
                if abs(t[2]) > 1:
                    for c in (t[2] // abs(t[2]), t[2] - t[2] // abs(t[2])):
                        yield dict(p, **{key: p[key][:i] + [[t[0], t[1], c]] + p[key][i + 1:]})
                if not t[1]:
                    yield dict(p, **{key: p[key][:i] + [[t[0], True, t[2]]] + p[key][i + 1:]})
        if p["b"] != 0:
            yield dict(p, b=0)
            yield dict(p, b=p["b"] - (1 if p["b"] > 0 else -1))
        if p["decomp"]:
            yield dict(p, decomp=False)
        if p["op"] not in ("GE",):
            pass


def shrink(case):
    posts, hist = case["posts"], case.get("history", [])
    if hist:
        yield dict(case, history=[])
        for i in range(len(hist)):
            yield dict(case, history=hist[:i] + hist[i + 1:])
    if case.get("evals"):
        yield dict(case, evals=[])
    for i, p in enumerate(posts):
        if p["k"] != "newvar":
            yield dict(case, posts=posts[:i] + posts[i + 1:])
    # unused or repeated registrations
    need = set().union(*[used_vars(p) for p in posts]) if posts else set()
    seen = set()
    for i, p in enumerate(posts):
        if p["k"] == "newvar":
            if p["v"] not in need or p["v"] in seen:
                yield dict(case, posts=posts[:i] + posts[i + 1:])
            seen.add(p["v"])
    for i, p in enumerate(posts):
        for q in shrink_post(p):
            yield dict(case, posts=posts[:i] + [q] + posts[i + 1:])
    for i, h in enumerate(hist):
        for q in shrink_post(h):
            yield dict(case, history=hist[:i] + [q] + hist[i + 1:])


# --------------------------------------------------------------------------
def nontrivial(case):
    return any(p["k"] == "ineq" and len(p["lt"]) >= 2 for p in case["posts"]) or \
        any(p["k"] == "amoh" and len(p["lits"]) > max(p["kk"], 3) for p in case["posts"])


def dist_key(case):
    ks = sorted({p["k"] + ("/dec" if p.get("decomp") else "") for p in case["posts"] if p["k"] != "newvar"})
    return "+".join(ks) + ("|hist" if case.get("history") else "")


def run(ctx, out, replay=None):
    n = 5000 if ctx.quick() else 40000
    out.rule = ("random posting sequences (1-6 posts: clauses, implications, at-most-one groups of 0..12 literals "
                "pairwise and chained with k 3..6 (and refused k), inequalities with up to 8+2 literals, coefficients "
                "-9..9 incl. 0, repeated variables, both polarities, six operator spellings, both constructions) over "
                "2..10 user variables, posted to a fresh manager after 0-6 earlier encodings by another manager of the "
                "same process; every user assignment is checked for extendability with PySAT; non-trivial = an "
                "inequality with >= 2 literals or a chained group longer than k; distinct by hash")
    cases = []
    if replay and "case" in replay:
        cases.append(fr.unjson(replay["case"]))
    cases += fr.load_corpus("C07")
    while len(cases) < n:
        cases.append(gen_case(ctx.rng))
    stats = {"refused_posts": 0, "cases_building_nodes": 0, "cases_reusing_earlier_nodes": 0, "unsat_instances": 0,
             "max_initial_memory": 0, "max_new_nodes": 0, "nodes_codified": 0,
             "ineq_via_diagram": 0, "ineq_as_clause_or_tautology": 0}

    def run_counted(case):
        obs = run_impl(case)
        stats["refused_posts"] += obs["status"].count("R")
        stats["cases_building_nodes"] += 1 if obs["newmem"] else 0
        stats["cases_reusing_earlier_nodes"] += 1 if any(2 <= i < 2 + len(obs["mem0"]) for i in obs["codified"]) else 0
        stats["unsat_instances"] += 0 if obs["solve"] else 1
        stats["max_initial_memory"] = max(stats["max_initial_memory"], len(obs["mem0"]))
        stats["max_new_nodes"] = max(stats["max_new_nodes"], len(obs["newmem"]))
        stats["nodes_codified"] += len(obs["codified"])
        for p, st, c in zip(case["posts"], obs["status"], obs["clauses_after"]):
            if p["k"] == "ineq" and st == "A":
                stats["ineq_via_diagram" if c and len(c) == 1 and c[0].startswith("robdd_") else "ineq_as_clause_or_tautology"] += 1
        return obs
    fr.run_cases(ctx, out, cases, run_counted, to_coq, oracle, failure_key, HEADER,
                 dist_key=None, nontrivial=nontrivial, shard=125, shrink=shrink)
    out.extra["c07_stats"] = stats
    kinds = {}
    for c in cases:
        for p in c["posts"]:
            kk = p["k"] + ("/dec" if p.get("decomp") else "") + ("/" + p["op"] if p["k"] == "ineq" else "")
            kinds[kk] = kinds.get(kk, 0) + 1
    out.dist.update(kinds)
