"""C16 - pseudo-Boolean expression algebra (tools/rect/pseudobool.py: Literal, Term, Expr, Ineq)."""
import itertools

from harness import core, fr
from harness.core import gz, gbool, gstr, glist
from harness.props import pbdag

HEADER = """From Coq Require Import ZArith List Bool String.
From FrameModel Require Import PB.Expr PB.Dag Cases.CmpC16.
Import ListNotations.
Open Scope Z_scope."""

ASSUMPTIONS = [
    "Python int is unbounded, modelled by Z; OrderedDict insertion order modelled by a list",
    "float multipliers are not generated (the code truncates them with int())",
    "histories with shared objects (kind dag / dagbig): every object stays bound until the end of the history and is "
    "read only then; the old object of a name rebound by an augmented assignment (x += y) is the one exception (the "
    "history gave it up, it is not observed); read-only uses in the middle of a history (tostr, isclause, getrobdd, "
    "a post to a throw-away SATManager) are BObs steps of the model",
    "expressions over more than 6 variables (dagbig: 31..80) are judged by the direct oracle under all-false, "
    "all-true and 40 sampled assignments of varying density; the model comparison is exact for every size",
]

VARS = ["a", "b", "c", "d", "e", "f"]
OPSTR = {"GE": ">=", "LE": "<=", "GT": ">", "LT": "<", "EQ": "=", "EQ2": "=="}


def gen_tree(rng, depth):
    if depth <= 0 or rng.random() < 0.12:
        return ("zero",)
    kind = rng.choice(["addstr", "addlit", "addterm", "addterm", "addint", "adde", "substr", "sublit", "subterm",
                       "subterm", "subint", "sube", "mul"])
    t = gen_tree(rng, depth - 1)
    v = rng.choice(VARS[:rng.choice([2, 3, 6])])
    s = rng.random() < 0.5
    k = rng.choice([0, 1, -1, 2, -2, 3, -3, 5, 7, -4, rng.randrange(-20, 21)])
    if kind in ("addstr", "substr"):
        return (kind, t, v)
    if kind in ("addlit", "sublit"):
        return (kind, t, v, s)
    if kind in ("addterm", "subterm"):
        return (kind, t, v, s, k)
    if kind in ("addint", "subint"):
        return (kind, t, k)
    if kind in ("adde", "sube"):
        return (kind, t, gen_tree(rng, depth - 1 - rng.randrange(0, 2)))
    return ("mul", t, rng.choice([0, 1, -1, 2, -2, 3, -3, k]))


def tree_size(t):
    return 1 + sum(tree_size(x) for x in t[1:] if isinstance(x, tuple))


def gtree(t):
    k = t[0]
    if k == "zero":
        return "TZero"
    if k in ("addstr", "substr"):
        return f"(T{'Add' if k[0] == 'a' else 'Sub'}Str {gtree(t[1])} {gstr(t[2])})"
    if k in ("addlit", "sublit"):
        return f"(T{'Add' if k[0] == 'a' else 'Sub'}Lit {gtree(t[1])} {gstr(t[2])} {gbool(t[3])})"
    if k in ("addterm", "subterm"):
        return f"(T{'Add' if k[0] == 'a' else 'Sub'}Term {gtree(t[1])} {gstr(t[2])} {gbool(t[3])} {gz(t[4])})"
    if k in ("addint", "subint"):
        return f"(T{'Add' if k[0] == 'a' else 'Sub'}Int {gtree(t[1])} {gz(t[2])})"
    if k in ("adde", "sube"):
        return f"(T{'Add' if k[0] == 'a' else 'Sub'}E {gtree(t[1])} {gtree(t[2])})"
    return f"(TMul {gtree(t[1])} {gz(t[2])})"


def teval(t, a):
    k = t[0]
    lit = lambda v, s: 1 if a[v] == s else 0
    if k == "zero":
        return 0
    x = teval(t[1], a)
    sg = 1 if k.startswith("add") else -1
    if k in ("addstr", "substr"):
        return x + sg * lit(t[2], True)
    if k in ("addlit", "sublit"):
        return x + sg * lit(t[2], t[3])
    if k in ("addterm", "subterm"):
        return x + sg * t[4] * lit(t[2], t[3])
    if k in ("addint", "subint"):
        return x + sg * t[2]
    if k in ("adde", "sube"):
        return x + sg * teval(t[2], a)
    return x * t[2]


def py_build(t, rng):
    """Build the expression with the real operators, choosing among equivalent spellings."""
    from tools.rect.pseudobool import Literal, Term, Expr
    k = t[0]
    if k == "zero":
        return Expr()

    def mkterm(v, s, c):
        L = Literal(v, s)
        return rng.choice([lambda: Term(L, c), lambda: L * c, lambda: c * L, lambda: -Term(L, -c),
                           lambda: Term(L, 1) * c, lambda: c * Term(L)])()

    def mklit(v, s):
        return rng.choice([lambda: Literal(v, s), lambda: -Literal(v, not s)])()

    # sugar: Literal/Term on the left of + (goes through __add__/__radd__ of Literal/Term)
    if k.startswith("add") and t[1][0] in ("addlit", "addterm") and t[1][1] == ("zero",) and rng.random() < 0.5:
        inner = t[1]
        left = mklit(inner[2], inner[3]) if inner[0] == "addlit" else mkterm(inner[2], inner[3], inner[4])
        if k == "addstr":
            return left + t[2]
        if k == "addlit":
            return left + mklit(t[2], t[3])
        if k == "addterm":
            return left + mkterm(t[2], t[3], t[4])
        if k == "addint":
            return rng.choice([lambda: left + t[2], lambda: t[2] + left])()
        if k == "adde":
            return left + py_build(t[2], rng)
    e = py_build(t[1], rng)
    if k == "addstr":
        return e + t[2]
    if k == "substr":
        return e - t[2]
    if k == "addlit":
        return e + mklit(t[2], t[3])
    if k == "sublit":
        return e - mklit(t[2], t[3])
    if k == "addterm":
        return e + mkterm(t[2], t[3], t[4])
    if k == "subterm":
        return e - mkterm(t[2], t[3], t[4])
    if k == "addint":
        return e + t[2]
    if k == "subint":
        return e - t[2]
    if k == "adde":
        return e + py_build(t[2], rng)
    if k == "sube":
        return e - py_build(t[2], rng)
    return rng.choice([lambda: e * t[2], lambda: t[2] * e])()


def expr_obs(e):
    return {"c": e.c, "t": [[v, e.t[v].L.v, bool(e.t[v].L.s), e.t[v].c] for v in e.t]}


def gexpr(o):
    return f"(mkE {gz(o['c'])} {glist([f'(mkT {gstr(x[1])} {gbool(x[2])} {gz(x[3])})' for x in o['t']])})"


def gen_dag_case(rng, big=False):
    binds = pbdag.gen_big(rng) if big else pbdag.gen_small(rng)
    return {"kind": "dagbig" if big else "dag", "binds": binds, "pyseed": rng.randrange(1 << 30)}


def is_dag(case):
    return case["kind"] in ("dag", "dagbig")


def run_dag(case):
    env, kinds = pbdag.run_binds(case["binds"], case["pyseed"])
    return {"snaps": [pbdag.snapshot(x, k) for x, k in zip(env, kinds)], "kinds": kinds}


def dag_to_coq(case, obs):
    binds = [b for b in case["binds"]]
    chk = (f"dag_check {glist([pbdag.gbind(b) for b in binds])} "
           f"{pbdag.gobs(obs['snaps'], obs['kinds'], skip=pbdag.consumed(binds))}")
    for c in pbdag.zero_consts(obs["snaps"], obs["kinds"]):
        if c != 0:
            chk += f" && Z.eqb {gz(c)} 0"
    return chk


def dag_oracle(case, obs):
    binds = case["binds"]
    assigns = pbdag.assignments(pbdag.names_of(binds), case["pyseed"])
    return pbdag.end_oracle(binds, obs["snaps"], obs["kinds"], assigns, skip=pbdag.consumed(binds))


def shrink_dag(case):
    for binds in pbdag.shrink_steps(case["binds"], pbdag.refs, pbdag.remap, simpler=pbdag.simpler_bind):
        if None not in pbdag.kinds_of(binds):
            yield dict(case, binds=binds, kind="dag" if len(pbdag.names_of(binds)) <= 6 else case["kind"])


def gen_case(rng):
    import random
    kind = rng.choice(["expr", "expr", "ineq", "dag", "dag", "dag"])
    if kind == "dag":
        return gen_dag_case(rng)
    depth = rng.choice([1, 2, 3, 4, 5, 6, 8])
    c = {"kind": kind, "tree": gen_tree(rng, depth), "pyseed": rng.randrange(1 << 30)}
    if kind == "ineq":
        c["rtree"] = gen_tree(rng, rng.choice([0, 1, 2, 3, 5]))
        c["op"] = rng.choice(list(OPSTR))
        c["via"] = rng.choice(["ctor", "operator"]) if c["op"] != "EQ2" else "ctor"
    return c


def run_impl(case):
    import random
    from tools.rect.pseudobool import Ineq
    if is_dag(case):
        return run_dag(case)
    rng = random.Random(case["pyseed"])
    e = py_build(tuple_tree(case["tree"]), rng)
    snapshot = expr_obs(e)
    if case["kind"] == "expr":
        return {"e": snapshot}
    r = py_build(tuple_tree(case["rtree"]), rng)
    rsnap = expr_obs(r)
    if case["via"] == "ctor":
        q = Ineq(e, r, OPSTR[case["op"]])
    else:
        op = case["op"]
        q = {"GE": lambda: e >= r, "LE": lambda: e <= r, "GT": lambda: e > r, "LT": lambda: e < r,
             "EQ": lambda: e == r}[op]()
    return {"e": snapshot, "r": rsnap, "lhs": expr_obs(q.lhs), "rhs": q.rhs, "op": q.op,
            "e_after": expr_obs(e), "r_after": expr_obs(r)}


def tuple_tree(t):
    return tuple(tuple_tree(x) if isinstance(x, (list, tuple)) else x for x in t)


def to_coq(case, obs):
    if is_dag(case):
        return dag_to_coq(case, obs)
    T = gtree(tuple_tree(case["tree"]))
    chk = f"expr_seteqb (build {T}) {gexpr(obs['e'])}"
    if case["kind"] == "expr":
        return chk
    R = gtree(tuple_tree(case["rtree"]))
    rhs_model = f"(build {R})" if case["via"] == "ctor" else f"(add_expr zero (build {R}))"
    opmap = {">=": "GE", ">": "GT", "=": "EQ", "<=": "LE", "<": "LT", "==": "EQ2"}
    lhs_terms = glist([f"(mkT {gstr(x[1])} {gbool(x[2])} {gz(x[3])})" for x in obs["lhs"]["t"]])
    return (f"{chk} && expr_seteqb (build {R}) {gexpr(obs['r'])} && "
            f"ineq_seteqb (mk_ineq (build {T}) {rhs_model} {case['op']}) (mkI {lhs_terms} {gz(obs['rhs'])} {opmap[obs['op']]})"
            f" && Z.eqb {gz(obs['lhs']['c'])} 0")


def ev_obs(o, a):
    return o["c"] + sum(x[3] * (1 if a[x[1]] == x[2] else 0) for x in o["t"])


def nf_problem(o):
    names = [x[1] for x in o["t"]]
    if len(set(names)) != len(names):
        return "the same variable occurs twice in the normal form"
    if any(x[3] <= 0 for x in o["t"]):
        return "zero or negative coefficient in the normal form"
    if any(x[0] != x[1] for x in o["t"]):
        return "term stored under another variable's key"
    return None


def oracle(case, obs):
    if is_dag(case):
        return dag_oracle(case, obs)
    tree = tuple_tree(case["tree"])
    p = nf_problem(obs["e"])
    if p:
        return p
    for bits in itertools.product([False, True], repeat=len(VARS)):
        a = dict(zip(VARS, bits))
        if ev_obs(obs["e"], a) != teval(tree, a):
            return f"built expression evaluates to {ev_obs(obs['e'], a)} but its construction means {teval(tree, a)} under {a}"
    if case["kind"] == "ineq":
        rtree = tuple_tree(case["rtree"])
        p = nf_problem(obs["lhs"]) or nf_problem(obs["r"])
        if p:
            return "inequality: " + p
        for bits in itertools.product([False, True], repeat=len(VARS)):
            a = dict(zip(VARS, bits))
            if ev_obs(obs["r"], a) != teval(rtree, a):
                return f"built expression evaluates to {ev_obs(obs['r'], a)} but its construction means {teval(rtree, a)} under {a}"
        if obs["e_after"] != obs["e"] or obs["r_after"] != obs["r"]:
            return "building the inequality modified its operands"
        for bits in itertools.product([False, True], repeat=len(VARS)):
            a = dict(zip(VARS, bits))
            l, r = teval(tree, a), teval(rtree, a)
            direct = {"GE": l >= r, "LE": l <= r, "GT": l > r, "LT": l < r, "EQ": l == r, "EQ2": l == r}[case["op"]]
            s = ev_obs(obs["lhs"], a)
            built = {">=": s >= obs["rhs"], ">": s > obs["rhs"], "=": s == obs["rhs"]}.get(obs["op"])
            if built is None:
                return f"inequality operator {obs['op']} not normalised"
            if built != direct:
                return f"inequality holds={built} but direct comparison gives {direct} under {a}"
    return None


def shrink_tree(t):
    """Smaller trees: a child subtree, or the same node over a shrunk child."""
    if t[0] == "zero":
        return
    for x in t[1:]:
        if isinstance(x, tuple):
            yield x
    for i, x in enumerate(t):
        if isinstance(x, tuple) and x[0] != "zero":
            for y in shrink_tree(x):
                yield t[:i] + (y,) + t[i + 1:]
    for i, x in enumerate(t):
        if isinstance(x, int) and not isinstance(x, bool) and abs(x) > 1:
            yield t[:i] + (x // abs(x),) + t[i + 1:]
            yield t[:i] + (2 * x // abs(x),) + t[i + 1:]


def shrink(case):
    if is_dag(case):
        yield from shrink_dag(case)
        return
    t = tuple_tree(case["tree"])
    if case["kind"] == "ineq":
        yield {"kind": "expr", "tree": t, "pyseed": case["pyseed"]}
        r = tuple_tree(case["rtree"])
        for y in shrink_tree(r):
            yield dict(case, rtree=y)
    for y in shrink_tree(t):
        yield dict(case, tree=y)


def failure_key(case, why):
    return "C16/dag" if is_dag(case) else "C16/expr"


def nontrivial(case):
    if is_dag(case):
        # some object is used by at least two later bindings (real sharing)
        uses = {}
        for b in case["binds"]:
            for i in set(pbdag.refs(b)):
                uses[i] = uses.get(i, 0) + 1
        return any(n >= 2 for n in uses.values())
    return tree_size(tuple_tree(case["tree"])) >= 3


def run(ctx, out, replay=None):
    n = 5000 if ctx.quick() else 100000
    out.rule = ("random expression trees (depth <= 8) over 6 variables with both polarities, cancelling terms, zero and "
                "negative multipliers, built with the real overloaded operators (random equivalent spellings); a third are "
                "inequalities over all six operator spellings; non-trivial = tree with at least 3 nodes; distinct by hash. "
                "Half of the cases are HISTORIES over shared objects (PB/Dag.v): 6..40 bindings over 2..6 variables, each "
                "created from earlier Literal / Term / Expr / Ineq / int / str objects (a few 'hot' ones are reused again "
                "and again, left and right operands alike, also x op x) with + - * unary - copies sum() += comparisons and "
                "the Ineq constructor, read-only uses in between; ALL objects are read at the end, after everything "
                "derived from them was built; every 100th case is such a history over 31..80 variables (two long sums "
                "sharing their variables with both polarities, every binary operation and comparison between them in both "
                "orders); non-trivial history = some object used by two or more later bindings")
    cases = []
    if replay and "case" in replay:
        cases.append(fr.unjson(replay["case"]))
    cases += fr.load_corpus("C16")
    while len(cases) < n:
        # (the long histories are capped at 300: their Coq text is two orders of magnitude longer than a small case's)
        cases.append(gen_dag_case(ctx.rng, big=True) if len(cases) % 100 == 7 and len(cases) < 30000
                     else gen_case(ctx.rng))
    fr.run_cases(ctx, out, cases, run_impl, to_coq, oracle, failure_key, HEADER,
                 dist_key=lambda c: c["kind"] + ("/" + c["op"] + "/" + c["via"] if c["kind"] == "ineq" else ""),
                 nontrivial=nontrivial, shard=250, shrink=shrink)
    ops = {}
    for c in cases:
        if is_dag(c):
            for b in c["binds"]:
                key = b[0] + ("/aug" if len(b) > 3 and b[0] in ("add", "sub") else "")
                ops[key] = ops.get(key, 0) + 1
    out.extra["dag_bindings_by_operation"] = ops
