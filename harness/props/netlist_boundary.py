"""Boundary / coincidence instances of the netlist format (C04, C05).

For every defect class of C05 the instances a random injector does not draw: values equal to what the design
would derive anyway (a hard module's area equal to the area of its rectangles, as a number or split over regions),
zeros of every spelling (0, 0.0, -0.0, False), the smallest negative numbers, names that are almost identifiers
(trailing / leading newline, blank, tab, control characters, Unicode letters and digits, the empty string, keys
that are not strings at all: YAML null / true / 1e3), attributes that differ from a known one by case or a
trailing blank, overlaps by a sliver, nets whose only other entry is the weight, rectangles given as `[]`.
`variants(rng, doc, cls)` yields every such instance that applies to the document, each at a random position;
every one still has the listed defect according to the syntactic judge `netlist_common.has_defect`.

`near_misses(rng, doc)` yields deviations that are NOT in the property's list (wrong number of rectangle
entries, numeric strings, null values, non-boolean flags, overlaps just above / below the tolerance ...): the
direct oracle states nothing about their verdict, the model must agree with the code on them.

`decorate(rng, doc)` rewrites a well-formed document into an equally well-formed one that sits on the boundary
from the valid side (names such as null / true / yes / on / _ / area / Modules, tiny positive areas, weights and
sizes, huge weights, ints for floats and floats for ints); `spell(rng, doc)` writes a document as YAML text by
hand, choosing the spelling of every scalar (1e3, 1.5E+1, +2, .5, 5., quoted / plain names, ~ for null)."""
from __future__ import annotations

import json
import math
import re
from fractions import Fraction as F

from harness.props import netlist_common as nc
from harness.props.netlist_common import val, deep, rects_of, mods_of, nets_of, net_members, insert_at

KNOWN = ["area", "center", "aspect_ratio", "terminal", "hard", "fixed", "flip", "rectangles"]
TINY = F(1, 2 ** 50)
DENORM = -5e-324          # the negative float closest to zero

# appended / prepended to a valid identifier: the result is no identifier
SUFFIXES = ["\n", "\r", "\r\n", "\n\n", " ", "\t", "\x00", "\x0b", "\x0c", "\x1c", "\x1f", "\x7f", "\x85", " ",
            " ", " ", "​", "﻿", "́", "é", "ñ", "ß", "ı", "ſ", "K", "²", "¹", "١", "٣", "Ａ",
            "１", "Ω", "я", "中", "\U0001f600", "-", ".", "$", "@", "!", "?", "'", '"', "#", ":", ",", "*", "/", "\\", "+", "=",
            "~", "(", "]", "}", "%", "&", "|", ";", "<", "`", "^"]
PREFIXES = ["\n", " ", "\t", "﻿", "é", "١", "²", "0", "9", "-", ".", "$", "#", "~", "!", "&", "*", "%", "@", "`", "?", ":"]
WHOLE = ["", "0", "1e3", "1E3", "0x1F", "12", "1.5", "-1", "~", "-", ".", "..", "$", "#", "é", "²", "١", "Ω", " ", "\n", "\t",
         "a b", "a-b", "a.b", "a:b", "a,b", "[a]", "{a}", "a\nb", "a\tb", "a\x00b", "true!", "null?", "_\n", "__\n", "\U0001f600"]
NONSTR_KEYS = [nc.nskey(k) for k in (None, True, False, 1000.0, 12, 0, -1, 1.5)]

# valid identifiers that a YAML reader / a careless format check could take for something else
SPECIAL_NAMES = ["null", "Null", "NULL", "true", "True", "TRUE", "false", "False", "FALSE", "yes", "Yes", "YES", "no", "No",
                 "NO", "on", "On", "ON", "off", "Off", "OFF", "y", "Y", "n", "N", "_", "__", "___", "_0", "_1", "_1e3", "e3",
                 "E3", "e", "inf", "Inf", "nan", "NaN", "None", "nil", "x0", "O0", "l1", "area", "center", "aspect_ratio",
                 "terminal", "hard", "fixed", "flip", "rectangles", "Modules", "Nets", "region", "name", "weight",
                 "Area", "AREA", "modules", "nets", "A" * 120, "_" * 40, "z9_" * 30, "a", "Z", "aA0_", "Zz"]
SPECIAL_REGIONS = ["null", "true", "no", "on", "_", "__", "area", "Modules", "rectangles", "e3", "NaN", "y", "R" * 60, "_0"]


def lookalike(name: str) -> str:
    """the name with its first ASCII letter replaced by a Unicode letter that looks the same"""
    table = {"A": "А", "B": "В", "C": "С", "E": "Е", "a": "а", "c": "с", "e": "е",
             "o": "о", "p": "р", "x": "х", "y": "у", "K": "K", "M": "М", "H": "Н"}
    for i, ch in enumerate(name):
        if ch in table:
            return name[:i] + table[ch] + name[i + 1:]
    return name + "а"


def tagname(s: str) -> str:
    return "".join(ch if (ch.isascii() and ch.isalnum()) else f"<{ord(ch):x}>" for ch in s) or "empty"


def almost(rng, k: int | None = None):
    """(tag, f): f(identifier) is almost that identifier but no identifier; all of them, or k drawn at random"""
    out = [("suffix-" + tagname(s), (lambda a, s=s: a + s)) for s in SUFFIXES]
    out += [("prefix-" + tagname(p), (lambda a, p=p: p + a)) for p in PREFIXES]
    out += [("lookalike", lookalike)]
    out += [("whole-" + tagname(w), (lambda a, w=w: w)) for w in WHOLE]
    if k is not None and k < len(out):
        core_tags = ["suffix-<a>", "prefix-<a>", "suffix-<d>", "suffix-<20>", "suffix-<9>", "suffix-<0>", "suffix-<e9>",
                     "suffix-<b2>", "suffix-<661>", "whole-empty", "whole-1e3", "whole-<7e>", "lookalike", "suffix-<85>"]
        keep = [x for x in out if x[0] in core_tags]
        rest = [x for x in out if x[0] not in core_tags]
        out = keep + rng.sample(rest, max(0, k - len(keep)))
    return out


def rename_module(doc, old, new):
    d = deep(doc)
    d["Modules"] = {(new if k == old else k): v for k, v in d["Modules"].items()}
    if "Nets" in d:
        d["Nets"] = [[(new if (isinstance(b, str) and b == old and j < len(net_members(n))) else b)
                      for j, b in enumerate(n)] for n in d["Nets"]]
    return d


def kinds_of(doc):
    """names of the modules of a (well-formed) document by kind"""
    mods = mods_of(doc)
    soft = [k for k, i in mods.items() if not nc.doc_is_hard(i)]
    hard = [k for k, i in mods.items() if (i.get("hard") is True or i.get("fixed") is True) and "terminal" not in i]
    term = [k for k, i in mods.items() if i.get("terminal") is True]
    return soft, hard, term


def rect_total(info) -> F:
    return sum((val(r[2]) * val(r[3]) for r in rects_of(info)), F(0))


def as_entry(rng, v: F):
    """a YAML scalar of value v: int or float when integral"""
    return int(v) if (v.denominator == 1 and rng.random() < 0.5) else F(v)


def set_rects(info, rs, j=None, r=None):
    """the rectangles attribute with entry j replaced by r (keeps the single-rectangle shorthand)"""
    rs = [list(x) for x in rs]
    if j is not None:
        rs[j] = r
    single = isinstance(info.get("rectangles"), list) and info["rectangles"] and not isinstance(info["rectangles"][0], list)
    info["rectangles"] = rs[0] if (single and len(rs) == 1) else rs


# --------------------------------------------------------------------------
# boundary instances of the listed defect classes
# --------------------------------------------------------------------------
def variants(rng, doc, cls, per_kind: int | None = None):
    """Yields (tag, document) - boundary instances of the class on the well-formed document `doc`."""
    mods, nets = mods_of(doc), nets_of(doc)
    names = list(mods)
    soft, hard, term = kinds_of(doc)

    def out(tag, d):
        if nc.has_defect(nc.seen(d), cls):
            yield (tag, d)

    if cls == "unknown-module":
        if not nets:
            return
        for tag, f in [("newline", lambda a: a + "\n"), ("lead-newline", lambda a: "\n" + a), ("blank", lambda a: a + " "),
                       ("lead-blank", lambda a: " " + a), ("tab", lambda a: a + "\t"), ("case", lambda a: a.swapcase()),
                       ("underscore", lambda a: a + "_"), ("prefix", lambda a: a[:-1] if len(a) > 1 else a + a),
                       ("empty", lambda a: ""), ("keyword", lambda a: rng.choice(["Modules", "Nets", "area", "rectangles"])),
                       ("region", lambda a: rng.choice(["lut", "dsp", "bram", "R_1"])), ("lookalike", lookalike),
                       ("null-word", lambda a: rng.choice(["null", "~", "None", "true"])),
                       ("accent", lambda a: a + "́"), ("nul", lambda a: a + "\x00")]:
            d = deep(doc)
            n = rng.choice(d["Nets"])
            j = rng.randrange(len(net_members(n)))
            n[j] = f(n[j])
            if n[j] not in mods:
                yield from out(tag, d)
        # the weight written as a string is one more (unknown) member
        for tag, w in [("weight-string", "2.0"), ("weight-string-int", "1"), ("weight-string-exp", "1e3")]:
            d = deep(doc)
            n = rng.choice(d["Nets"])
            mem = net_members(n)
            d["Nets"][d["Nets"].index(n)] = list(mem) + [w]
            if w not in mods:
                yield from out(tag, d)
    elif cls == "nonpositive-weight":
        if not nets:
            return
        for tag, w in [("zero-int", 0), ("zero-float", F(0)), ("minus-zero", -0.0), ("false", False),
                       ("denormal", DENORM), ("tiny-negative", -TINY), ("minus-one", -1), ("minus-half", F(-1, 2)),
                       ("minus-huge", F(-2 ** 60))]:
            d = deep(doc)
            i = rng.randrange(len(d["Nets"]))
            d["Nets"][i] = list(net_members(d["Nets"][i])) + [w]
            yield from out(tag, d)
    elif cls == "nonpositive-area":
        scal = [k for k in soft if not isinstance(mods[k].get("area"), dict)]
        dic = [k for k in soft if isinstance(mods[k].get("area"), dict)]
        for tag, a in [("zero-int", 0), ("zero-float", F(0)), ("minus-zero", -0.0), ("false", False),
                       ("denormal", DENORM), ("tiny-negative", -TINY), ("minus-one", -1)]:
            if scal or dic:
                d = deep(doc)
                d["Modules"][rng.choice(scal or dic)]["area"] = a
                yield from out(tag, d)
            for k in ([rng.choice(dic)] if dic else []):
                d = deep(doc)
                ar = d["Modules"][k]["area"]
                ar[rng.choice(list(ar))] = a
                yield from out("region-" + tag, d)
        if soft:
            # one bad region among good ones: the total is still positive
            for tag, bad in [("region-negative-total-positive", -1), ("region-zero-total-positive", 0),
                             ("region-false-total-positive", False)]:
                d = deep(doc)
                items = [("lut", as_entry(rng, F(12))), ("dsp", bad), ("_", as_entry(rng, F(5)))]
                rng.shuffle(items)
                d["Modules"][rng.choice(soft)]["area"] = dict(items)
                yield from out(tag, d)
            d = deep(doc)
            d["Modules"][rng.choice(soft)]["area"] = {"_": 0}
            yield from out("ground-zero", d)
        withrect = [k for k in soft if "rectangles" in mods[k]]
        if withrect:
            # zero area although the rectangles would give one
            d = deep(doc)
            d["Modules"][rng.choice(withrect)]["area"] = rng.choice([0, F(0), -0.0])
            yield from out("zero-with-rectangles", d)
    elif cls == "soft-without-area":
        plain = [k for k in soft if "hard" not in mods[k] and "fixed" not in mods[k]]
        withrect = [k for k in plain if "rectangles" in mods[k]]
        for tag, cands in [("deleted", plain), ("deleted-rectangles-give-one", withrect),
                           ("deleted-with-center", [k for k in plain if "center" in mods[k]])]:
            if cands:
                d = deep(doc)
                del d["Modules"][rng.choice(cands)]["area"]
                yield from out(tag, d)
        if plain:
            d = deep(doc)
            d["Modules"][rng.choice(plain)]["area"] = {}
            yield from out("empty-mapping", d)
            d = deep(doc)
            k = rng.choice(plain)
            d["Modules"][k] = {}
            yield from out("no-attribute-at-all", d)
            for flag in ("hard", "fixed", "flip"):
                d = deep(doc)
                k = rng.choice(plain)
                i = {a: v for a, v in d["Modules"][k].items() if a != "area"}
                d["Modules"][k] = insert_at(rng, i, flag, False)
                yield from out(flag + "-false", d)
    elif cls == "hard-with-area":
        def area_variants(info):
            tot, rs = rect_total(info), rects_of(info)
            regions = [("dsp", F(tot) / 4), ("lut", F(tot) * 3 / 4)]
            rng.shuffle(regions)
            return [("equal-rectangles", as_entry(rng, tot)), ("equal-rectangles-float", F(tot)),
                    ("equal-rectangles-ground-mapping", {"_": as_entry(rng, tot)}),
                    ("equal-rectangles-split-regions", dict(regions)),
                    ("equal-rectangles-one-region", {"lut": as_entry(rng, tot)}),
                    ("within-1e-10-above-rectangles", F(tot) * (1 + F(1, 2 ** 34))),
                    ("within-1e-10-below-rectangles", F(tot) * (1 - F(1, 2 ** 34))),
                    ("equal-first-rectangle", as_entry(rng, val(rs[0][2]) * val(rs[0][3]))),
                    ("tiny", TINY), ("true", True), ("number", 4), ("mapping", {"lut": F(3), "dsp": 2})]
        if hard:
            for idx in range(len(area_variants(mods[hard[0]]))):
                kk = rng.choice(hard)
                tag, a = area_variants(mods[kk])[idx]
                d = deep(doc)
                d["Modules"][kk] = insert_at(rng, d["Modules"][kk], "area", a)
                yield from out(tag, d)
        for k in ([rng.choice(term)] if term else []):
            for tag, a in [("terminal-area", as_entry(rng, F(4))), ("terminal-area-tiny", TINY),
                           ("terminal-area-mapping", {"_": 1})]:
                d = deep(doc)
                d["Modules"][k] = insert_at(rng, d["Modules"][k], "area", a)
                yield from out(tag, d)
            if "rectangles" in mods[k]:
                d = deep(doc)
                d["Modules"][k] = insert_at(rng, d["Modules"][k], "area", as_entry(rng, rect_total(mods[k])))
                yield from out("terminal-equal-rectangles", d)
    elif cls == "hard-without-rectangles":
        if hard:
            for tag in ("deleted", "empty-list"):
                d = deep(doc)
                k = rng.choice(hard)
                if tag == "deleted":
                    del d["Modules"][k]["rectangles"]
                else:
                    d["Modules"][k]["rectangles"] = []
                yield from out(tag, d)
            fixed = [k for k in hard if mods[k].get("fixed") is True]
            if fixed:
                d = deep(doc)
                del d["Modules"][rng.choice(fixed)]["rectangles"]
                yield from out("fixed-deleted", d)
            d = deep(doc)
            k = rng.choice(hard)
            d["Modules"][k] = {a: v for a, v in d["Modules"][k].items() if a in ("hard", "fixed")}
            yield from out("only-the-flag", d)
    elif cls == "hard-overlap":
        for k in ([rng.choice(hard)] if hard else []):
            for tag in ("duplicate", "sliver-256", "sliver-900", "corner-sliver", "contained-tiny", "same-centre"):
                kk = rng.choice(hard)
                d = deep(doc)
                i = d["Modules"][kk]
                rs = [list(r) for r in rects_of(i)]
                r = rng.choice(rs)
                x, y, w, h = (val(v) for v in r[:4])
                if tag == "duplicate":
                    new = [r[0], r[1], r[2], r[3]]
                elif tag == "sliver-256":          # abuts on the east side, pushed in by w/256
                    new = [x + w - w / 256, y, w, h]
                elif tag == "sliver-900":          # overlap just above a thousandth of the rectangle
                    new = [x + w - w / 900, y, w, h]
                elif tag == "corner-sliver":       # only the corners overlap: (w/16) x (h/16)
                    new = [x + w - w / 16, y + h - h / 16, w, h]
                elif tag == "contained-tiny":      # a small rectangle inside r
                    new = [x, y, w / 16, h / 16]
                else:                              # same centre, other shape
                    new = [x, y, w / 2, h * 2] if y - h >= 0 else [x, y, w * 2, h / 2] if x - w >= 0 else [x, y, w / 2, h / 2]
                new = [F(v) if not isinstance(v, (int, bool)) else v for v in new]
                rs.insert(rng.randrange(0, len(rs) + 1), new)
                i["rectangles"] = rs
                i.pop("flip", None)
                yield from out(tag, d)
            # an overlap between rectangles that are not neighbours in any sweep order: a long rectangle over r whose
            # centre is far away, and a disjoint filler whose centre lies in between (once per direction)
            for direction in ("right", "left", "up", "down"):
                kk = rng.choice(hard)
                d = deep(doc)
                i = d["Modules"][kk]
                rs = [list(r) for r in rects_of(i)]
                r = rng.choice(rs)
                x, y, w, h = (val(v) for v in r[:4])
                far = max([val(q[1]) + val(q[3]) for q in rs] + [val(q[0]) + val(q[2]) for q in rs]) * 4 + 8
                if direction == "right" or (direction == "left" and x - w / 4 - 10 * w < 0):
                    new, extra = [x + w / 4 + 5 * w, y, 10 * w, h / 2], [x + 2 * w, far + y, w, h]
                elif direction == "left":
                    new, extra = [x - w / 4 - 5 * w, y, 10 * w, h / 2], [max(x - 2 * w, w / 2), far + y, w, h]
                elif direction == "up" or y - h / 4 - 10 * h < 0:
                    new, extra = [x, y + h / 4 + 5 * h, w / 2, 10 * h], [far + x, y + 2 * h, w, h]
                else:
                    new, extra = [x, y - h / 4 - 5 * h, w / 2, 10 * h], [far + x, max(y - 2 * h, h / 2), w, h]
                for q in (new, extra):
                    rs.insert(rng.randrange(0, len(rs) + 1), [F(v) for v in q])
                i["rectangles"] = rs
                i.pop("flip", None)
                yield from out("bridge-" + direction, d)
    elif cls == "unknown-attribute":
        def valid_value(key):
            return {"area": 4, "center": [F(1), 2], "aspect_ratio": F(1, 2), "terminal": True, "hard": True,
                    "fixed": True, "flip": False, "rectangles": [[2, 2, 2, 2]]}[key]
        tags = [("capitalised", str.capitalize), ("upper", str.upper), ("trailing-blank", lambda a: a + " "),
                ("leading-blank", lambda a: " " + a), ("trailing-newline", lambda a: a + "\n"),
                ("trailing-tab", lambda a: a + "\t"), ("plural", lambda a: a[:-1] if a.endswith("s") else a + "s"),
                ("trailing-underscore", lambda a: a + "_"), ("leading-underscore", lambda a: "_" + a),
                ("truncated", lambda a: a[:-1]), ("lookalike", lookalike), ("nul", lambda a: a + "\x00"),
                ("dash", lambda a: a.replace("_", "-") if "_" in a else a + "-")]
        for tag, f in tags:
            d = deep(doc)
            k = rng.choice(names)
            base = rng.choice(KNOWN)
            key = f(base)
            if key in KNOWN or key in d["Modules"][k]:
                continue
            # on a module that has the attribute the near-key replaces it half of the time
            if base in d["Modules"][k] and rng.random() < 0.5:
                d["Modules"][k] = {(key if a == base else a): v for a, v in d["Modules"][k].items()}
            else:
                d["Modules"][k] = insert_at(rng, d["Modules"][k], key, valid_value(base))
            yield from out(tag, d)
        for key in ["", "centre", "aspectratio", "aspect ratio", "ar", "Modules", "Nets", "weight", "region", "shape",
                    "name", "width", "height", "min_shape", "regions", "_", "true", "null"] + NONSTR_KEYS:
            d = deep(doc)
            k = rng.choice(names)
            if key in d["Modules"][k]:
                continue
            d["Modules"][k] = insert_at(rng, d["Modules"][k], key, rng.choice([True, 1, F(3, 2), "x", [1, 2], {"a": 1}]))
            yield from out("key-" + tagname(key), d)
    elif cls == "invalid-name":
        for tag, f in almost(rng, per_kind):
            k = rng.choice(names)
            new = f(k)
            if nc.is_ident(new) or new in mods:
                continue
            yield from out("module-" + tag, rename_module(doc, k, new))
        for key in NONSTR_KEYS:
            k = rng.choice(names)
            yield from out("module-key-" + tagname(key), rename_module(doc, k, key))
        dic = [k for k in soft if isinstance(mods[k].get("area"), dict)]
        reg = [k for k in soft if any(len(r) == 5 for r in rects_of(mods[k]))]
        for tag, f in almost(rng, None if per_kind is None else max(6, per_kind // 3)):
            if dic:
                d = deep(doc)
                k = rng.choice(dic)
                ar = d["Modules"][k]["area"]
                r0 = rng.choice(list(ar))
                new = f(r0)
                if not nc.is_ident(new) and new not in ar:
                    d["Modules"][k]["area"] = {(new if r == r0 else r): v for r, v in ar.items()}
                    yield from out("area-region-" + tag, d)
            if reg:
                d = deep(doc)
                k = rng.choice(reg)
                rs = [list(r) for r in rects_of(d["Modules"][k])]
                j = rng.choice([j for j, r in enumerate(rs) if len(r) == 5])
                new = f(rs[j][4])
                if not nc.is_ident(new):
                    rs[j][4] = new
                    set_rects(d["Modules"][k], rs)
                    yield from out("rect-region-" + tag, d)
        for key in NONSTR_KEYS[:4]:
            if dic:
                d = deep(doc)
                k = rng.choice(dic)
                ar = d["Modules"][k]["area"]
                r0 = rng.choice(list(ar))
                d["Modules"][k]["area"] = {(key if r == r0 else r): v for r, v in ar.items()}
                yield from out("area-region-key-" + tagname(key), d)
    elif cls == "one-pin-net":
        for tag, tail in [("alone", []), ("weight-float", [F(2)]), ("weight-int", [3]), ("weight-one-int", [1]),
                          ("weight-one-float", [F(1)]), ("weight-half", [F(1, 2)]), ("weight-true", [True]),
                          ("weight-tiny", [TINY]), ("weight-huge", [F(2 ** 60)])]:
            d = deep(doc)
            net = [rng.choice(names)] + tail
            ns = list(d.get("Nets", []))
            ns.insert(rng.choice([0, len(ns), rng.randrange(0, len(ns) + 1)]), net)
            d["Nets"] = ns
            yield from out(tag, d)
    elif cls == "nonpositive-rect-size":
        cands = [k for k in names if "rectangles" in mods[k]]
        if not cands:
            return
        for tag, bad in [("zero-int", 0), ("zero-float", F(0)), ("minus-zero", -0.0), ("false", False),
                         ("denormal", DENORM), ("tiny-negative", -TINY), ("minus-one", -1), ("negated", None)]:
            for which in (2, 3):
                d = deep(doc)
                k = rng.choice(cands)
                rs = [list(r) for r in rects_of(d["Modules"][k])]
                j = rng.randrange(len(rs))
                rs[j][which] = bad if bad is not None else -val(rs[j][which])
                set_rects(d["Modules"][k], rs)
                yield from out(f"{'w' if which == 2 else 'h'}-{tag}", d)
        d = deep(doc)
        k = rng.choice(cands)
        rs = [list(r) for r in rects_of(d["Modules"][k])]
        j = rng.randrange(len(rs))
        rs[j][2], rs[j][3] = 0, 0
        set_rects(d["Modules"][k], rs)
        yield from out("both-zero", d)
    else:
        raise KeyError(cls)


def rich_doc(rng, tries=60):
    """A well-formed document with every kind of module the variants need: a soft module with a scalar area, one
    with per-region areas, one with rectangles in named regions, a hard and a fixed module, a terminal, two nets."""
    def ok(d):
        mods = mods_of(d)
        soft, hard, term = kinds_of(d)
        return (any(isinstance(mods[k].get("area"), dict) for k in soft)
                and any(not isinstance(mods[k].get("area"), dict) for k in soft)
                and any(any(len(r) == 5 for r in rects_of(mods[k])) for k in soft)
                and any(mods[k].get("fixed") is True for k in hard) and any(mods[k].get("hard") is True for k in hard)
                and term and len(nets_of(d)) >= 2)
    best = None
    for _ in range(tries):
        d = nc.gen_doc(rng, quirks=False)
        if ok(d):
            return d
        if best is None or len(mods_of(d)) > len(mods_of(best)):
            best = d
    # complete the largest draw by hand
    d = deep(best)
    d.setdefault("Nets", [])
    m = d["Modules"]
    extra = {"bS": {"area": 12}, "bR": {"area": {"lut": 3, "dsp": F(5, 2)}},
             "bQ": {"area": {"_": 8, "bram": 2}, "rectangles": [[4, 4, 4, 2, "bram"], [4, 6, 2, 2]]},
             "bH": {"hard": True, "rectangles": [[12, 4, 4, 2], [12, 6, 2, 2]]},
             "bF": {"fixed": True, "rectangles": [[20, 4, 2, 3]]}, "bT": {"terminal": True, "center": [1, 9]}}
    for k, v in extra.items():
        if k not in m:
            m[k] = v
    ks = list(m)
    d["Nets"] = list(d["Nets"]) + [[ks[0], ks[-1]], [ks[-1], ks[-2], ks[1], F(3, 2)]]
    return d


# --------------------------------------------------------------------------
# deviations outside the property's list: model / code agreement only
# --------------------------------------------------------------------------
def eps_of(doc):
    """(eps, aeps) a load of the document from an undefined epsilon ends with (float arithmetic, as documented)"""
    sm = math.inf
    for i in mods_of(doc).values():
        for r in rects_of(i):
            sm = min(sm, float(val(r[2])), float(val(r[3])))
        if "area" in i:
            a = float(sum(val(v) for v in i["area"].values())) if isinstance(i["area"], dict) else float(val(i["area"]))
        else:
            a = float(rect_total(i))
        if a > 0:
            sm = min(sm, math.sqrt(a))
    if sm == math.inf:
        return None
    return sm * 1e-12, math.sqrt(sm * 1e-12)


def hard_overlap_free(doc) -> bool:
    """no two rectangles of any hard module of the document overlap at all (touching allowed)"""
    for i in mods_of(doc).values():
        if isinstance(i, dict) and nc.doc_is_hard(i):
            rs = rects_of(i)
            for a in range(len(rs)):
                for b in range(a + 1, len(rs)):
                    if nc.boxes_overlap_area(nc.box_of(rs[a]), nc.box_of(rs[b])) > 0:
                        return False
    return True


def near_misses(rng, doc):
    """Yields (tag, document): one deviation that is not in the property's list of defects."""
    mods, nets = mods_of(doc), nets_of(doc)
    names = list(mods)
    soft, hard, term = kinds_of(doc)
    withrect = [k for k in names if "rectangles" in mods[k]]
    softrect = [k for k in soft if "rectangles" in mods[k]]

    def mod(k, f, tag):
        d = deep(doc)
        r = f(d["Modules"][k])
        if r is not None:
            d["Modules"][k] = r
        return (tag, d)

    def setk(key, v):
        def f(i):
            i[key] = v
        return f

    # values of the wrong type where a number / list / mapping / boolean is expected
    wrong = [None, "5", "2.0", "", [], {}, [1], "true"]
    if soft:
        for v in wrong + [[4], True]:
            yield mod(rng.choice(soft), setk("area", v), f"area-{v!r}")
        for v in [None, "1", 3, [1], [1, 2, 3], ["1", 2], [None, 2], {"x": 1}, [True, False], [[1, 2]]]:
            yield mod(rng.choice(soft), setk("center", v), f"center-{v!r}")
        for v in [None, "2", 0, F(0), -0.0, -1, F(-1, 2), False, True, [], [F(1, 2)], [2, F(1, 2)], [F(1, 2), 2, 3],
                  [F(1, 2), "2"], [0, 1], [1, 1], [F(-1, 4), 2], [F(1, 2), F(3, 4)], [F(5, 4), 2], {"min": 1}]:
            yield mod(rng.choice(soft), setk("aspect_ratio", v), f"aspect-ratio-{v!r}")
        for r, v in [("lut", None), ("lut", "3"), ("lut", [1]), ("lut", {})]:
            yield mod(rng.choice(soft), setk("area", {"_": 2, r: v}), f"area-region-value-{v!r}")
        for flag in ("hard", "fixed", "flip", "terminal"):
            for v in [None, 1, 0, "true", "yes", [], F(1)]:
                yield mod(rng.choice(soft), setk(flag, v), f"{flag}-{v!r}")
        yield mod(rng.choice(soft), setk("flip", True), "soft-flip")
        yield mod(rng.choice(soft), setk("rectangles", []), "soft-rectangles-empty")
        yield mod(rng.choice(soft), setk("rectangles", None), "soft-rectangles-null")
        yield mod(rng.choice(soft), setk("rectangles", {}), "soft-rectangles-mapping")
        yield mod(rng.choice(soft), setk("rectangles", "none"), "soft-rectangles-string")
        yield mod(rng.choice(soft), setk("terminal", False), "soft-terminal-false")
    for k in ([rng.choice(withrect)] if withrect else []):
        rs = rects_of(mods[k])
        r0 = list(rng.choice(rs))
        four = r0[:4]
        for tag, r in [("three-entries", four[:3]), ("six-entries", four + ["lut", 1]), ("two-entries", four[:2]),
                       ("no-entry", []), ("region-number", four + [3]), ("region-null", four + [None]),
                       ("region-bool", four + [True]), ("region-list", four + [["lut"]]), ("x-string", ["1"] + four[1:]),
                       ("w-string", four[:2] + ["2"] + four[3:]), ("x-null", [None] + four[1:]), ("h-null", four[:3] + [None]),
                       ("x-negative", [-1] + four[1:]), ("y-tiny-negative", [four[0], -TINY] + four[2:]),
                       ("y-denormal-negative", [four[0], DENORM] + four[2:]), ("x-minus-zero", [-0.0] + four[1:]),
                       ("w-true", four[:2] + [True] + four[3:]), ("mapping", {"x": 1}), ("string", "1 2 3 4"), ("null", None),
                       ("region-blockage", four + ["#"]), ("nested", [four])]:
            kk = rng.choice(withrect)
            d = deep(doc)
            cur = [list(x) for x in rects_of(d["Modules"][kk])]
            cur[rng.randrange(len(cur))] = r
            d["Modules"][kk]["rectangles"] = cur
            d["Modules"][kk].pop("flip", None)
            yield (f"rectangle-{tag}", d)
    if hard:
        def region_on_hard(i):
            rs = [list(r) for r in rects_of(i)]
            rs[rng.randrange(len(rs))].append("lut")
            i["rectangles"] = rs
        yield mod(rng.choice(hard), region_on_hard, "hard-rectangle-region")
        yield mod(rng.choice(hard), setk("area", {}), "hard-area-empty-mapping")
        yield mod(rng.choice(hard), setk("center", [4, 4]), "hard-center")
        yield mod(rng.choice(hard), lambda i: {"hard": True, "center": [4, 4]}, "hard-center-no-rectangles")
        yield mod(rng.choice(hard), lambda i: {"fixed": True, "center": [4, 4]}, "fixed-center-no-rectangles")
        yield mod(rng.choice(hard), setk("aspect_ratio", F(1, 2)), "hard-aspect-ratio")
        yield mod(rng.choice(hard), lambda i: insert_at(rng, {a: v for a, v in i.items() if a not in ("hard", "fixed")}, "hard", True) | {"fixed": True}, "hard-and-fixed")
        yield mod(rng.choice(hard), lambda i: insert_at(rng, {a: v for a, v in i.items() if a not in ("hard", "fixed")}, "fixed", True) | {"hard": False}, "fixed-and-hard-false")
        yield mod(rng.choice(hard), setk("terminal", False), "hard-terminal-false")
        yield mod(rng.choice(hard), setk("rectangles", None), "hard-rectangles-null")
        fixed = [k for k in hard if mods[k].get("fixed") is True]
        if fixed:
            yield mod(rng.choice(fixed), setk("flip", True), "fixed-flip")
        multi = [k for k in hard if len(rects_of(mods[k])) >= 2]
        if multi:
            yield mod(rng.choice(multi), setk("flip", True), "flip-several-rectangles")
    if term:
        yield mod(rng.choice(term), setk("flip", False), "terminal-flip")
        yield mod(rng.choice(term), setk("aspect_ratio", 1), "terminal-aspect-ratio")
        yield mod(rng.choice(term), lambda i: {"terminal": True, "fixed": True}, "fixed-terminal-without-center")
        yield mod(rng.choice(term), lambda i: {"terminal": True, "hard": True, "fixed": True, "center": [1, 1]}, "terminal-hard-fixed")
        yield mod(rng.choice(term), lambda i: {"terminal": True, "hard": False}, "terminal-hard-false")
        yield mod(rng.choice(term), lambda i: {"terminal": True, "rectangles": [[2, 2, 2, 2], [3, 3, 2, 2]]}, "terminal-overlapping-rectangles")
        yield mod(rng.choice(term), lambda i: {"terminal": None}, "terminal-null")
    # the module entry itself / the sections
    for v in [None, [], "soft", 4, True, [["area", 4]]]:
        d = deep(doc)
        d["Modules"][rng.choice(names)] = v
        yield (f"module-entry-{v!r}", d)
    for v in [None, [], "A", 3, [list(mods.items())[0][0]]]:
        d = deep(doc)
        d["Modules"] = v
        yield (f"modules-{v!r}", d)
    for v in [None, {}, "A B", 0, True]:
        d = deep(doc)
        d["Nets"] = v
        yield (f"nets-{v!r}", d)
    for key in ["modules", "Nets ", "Edges", "nets", "", "Modules\n", "Die"] + NONSTR_KEYS[:3]:
        d = deep(doc)
        d = insert_at(rng, d, key, rng.choice([{}, [], None, 1]))
        yield ("root-key-" + tagname(key), d)
    d = deep(doc)
    d.pop("Modules")
    yield ("no-modules-section", d)
    yield ("root-list", [deep(doc)])
    yield ("root-null", None)
    yield ("root-empty", {})
    # nets
    a, b = (names + names)[:2]
    for tag, net in [("empty-net", []), ("weight-only", [F(2)]), ("net-string", a + " " + b), ("net-mapping", {a: 1}),
                     ("net-null", None), ("member-null", [a, None]), ("member-null-first", [None, b]), ("member-number", [a, 3, b]),
                     ("member-list", [a, [b]]), ("member-bool", [a, True, b]), ("two-weights", [a, b, 2, 3]),
                     ("weight-first", [2, a, b]), ("weight-null", [a, b, None]), ("weight-list", [a, b, [2]]),
                     ("weight-false", [a, b, False]), ("weight-true", [a, b, True]), ("only-false", [a, False]),
                     ("repeated-member", [a, a]), ("repeated-member-weight", [a, a, F(2)]), ("repeated-three", [a, b, a])]:
        d = deep(doc)
        ns = list(d.get("Nets", [])) if isinstance(d.get("Nets", []), list) else []
        ns.insert(rng.randrange(0, len(ns) + 1), net)
        d["Nets"] = ns
        yield ("net-" + tag, d)
    # overlaps of a hard module just above / just below the area tolerance, and exactly touching
    for k in ([rng.choice(hard)] if hard else []):
        for tag, factor in [("above-tolerance", F(9, 8)), ("below-tolerance", F(7, 8)), ("far-below-tolerance", F(1, 1024)),
                            ("touching", F(0)), ("gap", F(-1))]:
            kk = rng.choice(hard)
            d = deep(doc)
            i = d["Modules"][kk]
            rs = [list(r) for r in rects_of(i)]
            r = rng.choice(rs)
            x, y, w, h = (val(v) for v in r[:4])
            rs.append([F(x + w), F(y), F(w), F(h)])
            i["rectangles"] = rs
            i.pop("flip", None)
            e = eps_of(d)
            if e is None:
                continue
            delta = F(e[1]) * factor / h
            delta = F(round(delta * 2 ** 44), 2 ** 44)
            rs[-1][0] = F(x + w) - delta
            yield ("overlap-" + tag, d)


# --------------------------------------------------------------------------
# valid documents on the boundary
# --------------------------------------------------------------------------
def decorate(rng, doc, p=0.5):
    """An equally well-formed document written with boundary values. Returns (document, tags)."""
    d = deep(doc)
    tags = []
    mods = d["Modules"]
    # names that look like something else
    for k in list(mods):
        if rng.random() < p * 0.6:
            new = rng.choice(SPECIAL_NAMES)
            if new not in d["Modules"]:
                d = rename_module(d, k, new)
                tags.append("name")
    mods = d["Modules"]
    for k, i in mods.items():
        if not isinstance(i, dict):
            continue
        soft = not nc.doc_is_hard(i)
        if soft and isinstance(i.get("area"), dict) and rng.random() < p:
            ren = {}
            for r in i["area"]:
                new = rng.choice(SPECIAL_REGIONS) if rng.random() < 0.6 else r
                ren[r] = new if (new not in ren.values() and new not in i["area"]) else r
            i["area"] = {ren[r]: v for r, v in i["area"].items()}
            tags.append("region-name")
        if soft and "rectangles" in i and rng.random() < p:
            rs = [list(r) for r in rects_of(i)]
            for r in rs:
                if len(r) == 5 and rng.random() < 0.7:
                    r[4] = rng.choice(SPECIAL_REGIONS)
                elif len(r) == 4 and rng.random() < 0.3:
                    r.append(rng.choice(SPECIAL_REGIONS + ["_"]))
            set_rects(i, rs)
            tags.append("rect-region-name")
        if soft and "rectangles" not in i and not isinstance(i.get("area"), (dict, bool)) and "area" in i and rng.random() < p * 0.3:
            # (not below the scale of the other dimensions: the tolerances of the geometry are relative to the smallest one)
            i["area"] = rng.choice([F(1, 16), F(2 ** 40), F(1, 4), 1, F(1), F(2 ** 52 + 1)])
            tags.append("area-extreme")
        if soft and "aspect_ratio" in i and rng.random() < p * 0.5:
            i["aspect_ratio"] = rng.choice([1, F(1), [0, 1], [F(0), F(1)], [1, 1], [0, F(2 ** 40)], F(1, 2 ** 30), F(2 ** 30),
                                            [F(1, 2 ** 30), 1], [-0.0, 1]])
            tags.append("aspect-ratio-boundary")
        if "center" in i and rng.random() < p * 0.3:
            i["center"] = rng.choice([[0, 0], [F(0), -0.0], [-1, F(-5, 2)], [F(2 ** 30), F(1, 2 ** 20)], [0, F(2 ** 40)]])
            tags.append("center-boundary")
    nets = d.get("Nets", [])
    if isinstance(nets, list):
        for j, n in enumerate(nets):
            if rng.random() < p * 0.5:
                nets[j] = list(net_members(n)) + [rng.choice([TINY, F(2 ** 60), 1, F(1), F(1, 2 ** 20), F(2 ** 53 + 2), 2 ** 62,
                                                               F(1) + F(1, 2 ** 52), F(1) - F(1, 2 ** 53)])]
                tags.append("weight-boundary")
    # ints for floats and floats for ints
    if rng.random() < p:
        flip = rng.random()

        def walk(x):
            if isinstance(x, bool):
                return x
            if isinstance(x, int) and flip < 0.5:
                return F(x)
            if isinstance(x, F) and x.denominator == 1 and flip >= 0.5 and abs(x) < 2 ** 53:
                return int(x)
            if isinstance(x, dict):
                return {k: walk(v) for k, v in x.items()}
            if isinstance(x, list):
                return [walk(v) for v in x]
            return x
        d = walk(d)
        tags.append("all-floats" if flip < 0.5 else "all-ints")
    return d, tags


# --------------------------------------------------------------------------
# extreme magnitudes: valid documents whose numbers sit at the ends of binary64
# --------------------------------------------------------------------------
def fx(x: float) -> F:
    return F(*x.as_integer_ratio())


INF = math.inf
FMAX = fx(1.7976931348623157e308)
SUBNORMAL = F(1, 2 ** 1074)                    # 5e-324
MINNORMAL = F(1, 2 ** 1022)
TINY_MAGS = [SUBNORMAL, MINNORMAL, fx(1e-300), F(1, 2 ** 60), F(1, 2 ** 53)]
HUGE_MAGS = [fx(1e17), fx(4e17), F(2 ** 53), F(2 ** 53 + 2), F(2 ** 60), fx(1e300), FMAX]
# (ground area, areas of the other regions): the float sum of all of them is the ground area again
ABSORBED = [(fx(4e17), [12, 4]), (fx(4e17), [F(12), F(4)]), (fx(1e17), [4]), (F(2 ** 53), [1]), (F(2 ** 53), [F(1), 1]),
            (F(2 ** 60), [40, F(5, 2)]), (fx(1e300), [fx(1e17), 12]), (FMAX, [fx(1e290)]), (INF, [40]), (INF, [F(12), 4]),
            (INF, [FMAX]), (1, [F(1, 2 ** 60)]), (F(40), [SUBNORMAL, MINNORMAL]), (2 ** 53, [1]), (fx(1e-300), [SUBNORMAL])]


def binary64(x) -> bool:
    """the number is handed to the code as the very value written in the document (a float always is; an int when float(int) is it)"""
    if isinstance(x, bool) or isinstance(x, F):
        return True
    if isinstance(x, float):
        return math.isfinite(x)
    return abs(x) < 2 ** 1023 and int(float(x)) == x


def extreme_exact(doc) -> bool:
    """exact arithmetic (the model) and binary64 (the code) describe the same design: no infinity, no int beyond 2^53 that
    is no binary64, no scalar aspect ratio whose inverse overflows, no module area whose float sum overflows"""
    def nums(x):
        if isinstance(x, dict):
            for v in x.values():
                yield from nums(v)
        elif isinstance(x, list):
            for v in x:
                yield from nums(v)
        elif nc.is_num(x):
            yield x
    if not all(binary64(x) for x in nums(doc)):
        return False
    for i in mods_of(doc).values():
        if not isinstance(i, dict):
            continue
        ar = i.get("aspect_ratio")
        if nc.is_num(ar) and not (MINNORMAL <= val(ar) <= F(2 ** 1022)):
            return False
        a = i.get("area")
        if isinstance(a, dict) and not math.isfinite(sum(float(val(v)) for v in a.values())):
            return False
    return True


def extremes(rng, doc, n_edits=None):
    """A well-formed document with some numbers replaced by extreme ones, still well-formed: areas (scalar, per region; the
    ground region next to regions 2^53 times smaller or larger, so that float sums absorb them), centres, aspect ratios
    and net weights at 5e-324, 2^-1022, 1e-300, 2^-60, 1e17, 4e17, 2^53, 2^53 + 1 (an int), 2^53 + 2, 2^60, 1e300, the largest
    float and infinity.  Returns (document, tags, exact): exact = the model can be run on it (extreme_exact)."""
    d = deep(doc)
    mods = d["Modules"]
    soft, hard, term = kinds_of(d)
    plain = [k for k in soft if "rectangles" not in mods[k]]       # the area is free: no rectangles to agree with
    edits = []

    def regions(k):
        a = mods[k].get("area")
        rs = [r for r in a if r != "_"] if isinstance(a, dict) else []
        return rs + [r for r in ("dsp", "bram", "lut", "R_1", "DSP", "BRAM") if r not in rs]

    def as_num(v):
        if isinstance(v, float) or isinstance(v, int):
            return v
        return int(v) if (v.denominator == 1 and abs(v) < 2 ** 62 and rng.random() < 0.4) else v

    def ground_absorbs(k):
        g, others = rng.choice(ABSORBED)
        names = regions(k)[:len(others)]
        items = [("_", g)] + list(zip(names, others))
        if rng.random() < 0.6:
            rng.shuffle(items)
        mods[k]["area"] = dict(items)
        return "ground-absorbs"

    def region_absorbs(k):
        g, others = rng.choice([a for a in ABSORBED if a[0] != 1])
        names = regions(k)
        items = [(names[0], g), ("_", others[0])] + list(zip(names[1:], others[1:]))
        if rng.random() < 0.6:
            rng.shuffle(items)
        mods[k]["area"] = dict(items)
        return "region-absorbs"

    def all_huge(k):
        vs = rng.sample(HUGE_MAGS + [INF, INF], rng.randrange(2, 4))
        names = ["_"] + regions(k) if rng.random() < 0.7 else regions(k)
        mods[k]["area"] = dict(zip(names, [as_num(v) for v in vs]))
        return "regions-huge"

    def all_tiny(k):
        vs = rng.sample(TINY_MAGS, rng.randrange(2, 4))
        names = ["_"] + regions(k) if rng.random() < 0.7 else regions(k)
        mods[k]["area"] = dict(zip(names, vs))
        return "regions-tiny"

    def scalar_area(k):
        v = rng.choice(TINY_MAGS + HUGE_MAGS + [INF, 2 ** 53 + 1, 10 ** 17, 2 ** 60])
        mods[k]["area"] = as_num(v) if rng.random() < 0.7 else {rng.choice(["_", "_", "dsp"]): as_num(v)}
        return "area-extreme"

    def centre(k):
        def c():
            v = rng.choice(TINY_MAGS + HUGE_MAGS + HUGE_MAGS + [INF, 0, 2 ** 53 + 1])
            return as_num(-v if rng.random() < 0.3 else v)
        mods[k]["center"] = [c(), c()] if rng.random() < 0.5 else rng.choice([[c(), rng.randrange(0, 50)], [F(rng.randrange(0, 400), 8), c()]])
        return "centre-extreme"

    def aspect(k):
        if rng.random() < 0.5:
            mods[k]["aspect_ratio"] = as_num(rng.choice(TINY_MAGS + HUGE_MAGS + [INF]))
        else:
            lo = rng.choice([0, F(0)] + TINY_MAGS + [1, F(1)])
            hi = rng.choice([1, F(1)] + HUGE_MAGS + [INF, 2 ** 53 + 1])
            mods[k]["aspect_ratio"] = [lo, as_num(hi)]
        return "aspect-ratio-extreme"

    def weight(j):
        nets = d["Nets"]
        nets[j] = list(net_members(nets[j])) + [as_num(rng.choice(TINY_MAGS + HUGE_MAGS + [INF, 2 ** 53 + 1]))]
        return "weight-extreme"

    for k in plain:
        edits += [(ground_absorbs, k)] * 4 + [(region_absorbs, k), (all_huge, k), (all_tiny, k), (scalar_area, k), (scalar_area, k),
                                               (aspect, k), (aspect, k)]
        edits.append((centre, k))
    for k in soft:
        if k not in plain:
            edits += [(aspect, k)]
    for k in term:
        if "rectangles" not in mods[k]:
            edits.append((centre, k))
    for j in range(len(d.get("Nets") or [])):
        edits.append((weight, j))
    tags = []
    if not edits:
        # a document without any soft module and without nets: give it a soft module
        mods["xS"] = {"area": 1}
        edits = [(ground_absorbs, "xS")] * 4 + [(all_huge, "xS"), (scalar_area, "xS"), (centre, "xS"), (aspect, "xS")]
    done = set()
    for _ in range(n_edits or rng.choice([1, 1, 2, 3, 5])):
        f, arg = rng.choice(edits)
        what = "area" if f in (ground_absorbs, region_absorbs, all_huge, all_tiny, scalar_area) else f.__name__
        if (what, arg) in done:
            continue
        done.add((what, arg))
        tags.append(f(arg))
    return d, tags, extreme_exact(d)


# --------------------------------------------------------------------------
# YAML text written by hand
# --------------------------------------------------------------------------
PLAIN_OK = re.compile(r"[A-Za-z_][A-Za-z0-9_]*")
WORDS = {"null", "true", "false", "yes", "no", "on", "off", "y", "n", "inf", "nan"}


def spell_str(rng, s: str, force_quote=False) -> str:
    plain = PLAIN_OK.fullmatch(s) is not None and s.lower() not in ("null", "true", "false")
    if plain and not force_quote and rng.random() < 0.6:
        return s
    if "'" not in s and all(32 <= ord(c) < 127 for c in s) and rng.random() < 0.5:
        return "'" + s + "'"
    out = ['"']
    for ch in s:
        o = ord(ch)
        if ch == '"' or ch == "\\":
            out.append("\\" + ch)
        elif ch == "\n":
            out.append("\\n")
        elif ch == "\t":
            out.append("\\t")
        elif ch == "\r":
            out.append("\\r")
        elif o < 32 or o == 127 or o in (0x85, 0xa0, 0x2028, 0x2029, 0xfeff):
            out.append(f"\\x{o:02x}" if o < 256 else f"\\u{o:04x}")
        else:
            out.append(ch)
    out.append('"')
    return "".join(out)


def spell_float(rng, v: float) -> str:
    if math.isinf(v):
        return rng.choice([".inf", ".Inf", ".INF", "+.inf"]) if v > 0 else rng.choice(["-.inf", "-.Inf", "-.INF"])
    if v == 0:
        return rng.choice(["0.0", "0.", ".0", "0e0", "0.0e+0", "+0.0"]) if math.copysign(1, v) > 0 else rng.choice(["-0.0", "-0.", "-.0", "-0e0"])
    cands = [repr(v), f"{v:.17e}", f"{v:.17E}", f"{v:.20g}"]
    if v == int(v) and abs(v) < 2 ** 53:
        n = int(v)
        cands += [f"{n}.0", f"{n}.", f"{n}e0", f"{n}.0e+0", f"{n}.00", f"{n}E0"]
        if n % 10 == 0 and n != 0:
            s = str(abs(n)).rstrip("0")
            z = len(str(abs(n))) - len(s)
            cands += [f"{'-' if n < 0 else ''}{s}e{z}", f"{'-' if n < 0 else ''}{s}e+{z}", f"{'-' if n < 0 else ''}{s}.0E{z}"]
    r = repr(v)
    if r.startswith("0."):
        cands.append(r[1:])
    if r.startswith("-0."):
        cands.append("-" + r[2:])
    if v > 0:
        cands.append("+" + r)
    cands.append(f"{v * 10:.17g}e-1" if abs(v) < 1e300 else r)
    good = []
    for c in cands:
        try:
            if float(c) == v and ("." in c or "e" in c.lower()):
                good.append(c)
        except ValueError:
            pass
    return rng.choice(good or [r])


def spell_scalar(rng, x) -> str:
    if x is None:
        return rng.choice(["null", "~", "Null", "NULL"])
    if isinstance(x, bool):
        return rng.choice(["true", "True", "TRUE"] if x else ["false", "False", "FALSE"])
    if isinstance(x, int):
        return rng.choice([str(x), str(x), ("+" + str(x)) if x >= 0 else str(x), hex(x) if x >= 0 else str(x),
                           ("0o" + oct(x)[2:]) if x >= 0 else str(x)])
    if isinstance(x, float):
        return spell_float(rng, x)
    if isinstance(x, str):
        return spell_str(rng, x)
    raise TypeError(type(x))


def spell_flow(rng, x) -> str:
    if isinstance(x, dict):
        sep = rng.choice([", ", ",  ", " , "])
        return "{" + sep.join(f"{spell_key(rng, k)}: {spell_flow(rng, v)}" for k, v in x.items()) + "}"
    if isinstance(x, list):
        sep = rng.choice([", ", ",", " , "])
        return "[" + sep.join(spell_flow(rng, v) for v in x) + "]"
    return spell_scalar(rng, x)


def spell_key(rng, k) -> str:
    if isinstance(k, str):
        return spell_str(rng, k)
    return spell_scalar(rng, k)


def spell(rng, doc) -> str | None:
    """The document (Python tree, floats as floats) as YAML text: block style for the sections, the modules and the
    nets, flow style below, every scalar in a spelling of its own. None when the root is not the usual mapping."""
    if not isinstance(doc, dict) or not doc:
        return None
    lines = []
    if rng.random() < 0.3:
        lines.append(rng.choice(["---", "# a netlist", "%YAML 1.2\n---"]))
    for key, v in doc.items():
        if key == "Modules" and isinstance(v, dict) and v and rng.random() < 0.8:
            lines.append("Modules:")
            for name, info in v.items():
                if isinstance(info, dict) and info and rng.random() < 0.5:
                    lines.append(f"  {spell_key(rng, name)}:")
                    for a, av in info.items():
                        lines.append(f"    {spell_key(rng, a)}: {spell_flow(rng, av)}")
                else:
                    lines.append(f"  {spell_key(rng, name)}: {spell_flow(rng, info)}")
        elif key == "Nets" and isinstance(v, list) and v and rng.random() < 0.8:
            lines.append("Nets:")
            ind = rng.choice(["", "  "])
            for n in v:
                lines.append(f"{ind}- {spell_flow(rng, n)}")
        else:
            lines.append(f"{spell_key(rng, key)}: {spell_flow(rng, v)}")
    return "\n".join(lines) + rng.choice(["\n", "\n\n", "\n...\n", ""])


# --------------------------------------------------------------------------
# checklist: history, coincidences, sizes, names, order
# --------------------------------------------------------------------------
FAMILY = ["H1", "H1_0", "H1_io", "H1_", "H", "H11", "h1", "H1_0_0", "_H1", "H1__", "H1_1", "H10"]
REGION_FAMILY = ["lut", "lut_", "lut0", "LUT", "l", "lu", "_lut", "lut_0"]


def family_names(rng, doc):
    """the modules renamed to names that are prefixes / suffixes of each other (and of names a tool could generate)"""
    d = deep(doc)
    fam = list(FAMILY)
    if rng.random() < 0.5:
        rng.shuffle(fam)
    for k, new in zip(list(d["Modules"]), fam):
        if new not in d["Modules"]:
            d = rename_module(d, k, new)
    for i in d["Modules"].values():
        if isinstance(i, dict) and isinstance(i.get("area"), dict) and not nc.doc_is_hard(i):
            regs = rng.sample(REGION_FAMILY, min(len(i["area"]), len(REGION_FAMILY)))
            i["area"] = {r: v for r, v in zip(regs, i["area"].values())}
    return d


def reorder(rng, doc):
    """the same design listed in an unusual order: modules reversed / sorted by name / rotated, nets reversed, the
    rectangles of every module reversed, Nets before Modules, the attributes of every module sorted or reversed"""
    d = deep(doc)
    how = rng.choice(["reverse-modules", "sort-modules", "sort-desc-modules", "rotate-modules", "reverse-nets",
                      "reverse-rectangles", "nets-first", "sort-attributes", "reverse-attributes", "reverse-members"])
    mods = d["Modules"]
    if how == "reverse-modules":
        d["Modules"] = dict(reversed(list(mods.items())))
    elif how == "sort-modules":
        d["Modules"] = dict(sorted(mods.items()))
    elif how == "sort-desc-modules":
        d["Modules"] = dict(sorted(mods.items(), reverse=True))
    elif how == "rotate-modules":
        it = list(mods.items())
        d["Modules"] = dict(it[1:] + it[:1])
    elif how == "reverse-nets" and isinstance(d.get("Nets"), list):
        d["Nets"] = list(reversed(d["Nets"]))
    elif how == "reverse-rectangles":
        for i in mods.values():
            rs = rects_of(i)
            if len(rs) > 1:
                i["rectangles"] = [list(r) for r in reversed(rs)]
    elif how == "nets-first" and "Nets" in d:
        d = {"Nets": d["Nets"], "Modules": d["Modules"]}
    elif how == "sort-attributes":
        d["Modules"] = {k: (dict(sorted(i.items())) if isinstance(i, dict) else i) for k, i in mods.items()}
    elif how == "reverse-attributes":
        d["Modules"] = {k: (dict(reversed(list(i.items()))) if isinstance(i, dict) else i) for k, i in mods.items()}
    elif how == "reverse-members" and isinstance(d.get("Nets"), list):
        d["Nets"] = [list(reversed(net_members(n))) + list(n[len(net_members(n)):]) for n in d["Nets"]]
    return d, how


def coincide(rng, doc):
    """valid coincidences: rectangles of exactly equal area (two candidate trunks, either order), a rectangle centred on
    an axis (x = 0 or y = 0), a soft module whose area equals / differs from the area of its rectangles, a stated centre
    equal to the centroid of the rectangles, a weight of exactly 1 in its three spellings"""
    d = deep(doc)
    mods = d["Modules"]
    tags = []
    with_rects = [k for k, i in mods.items() if isinstance(i, dict) and "rectangles" in i and "terminal" not in i]
    for k in with_rects:
        i = mods[k]
        soft = not nc.doc_is_hard(i)
        r = rng.random()
        if r < 0.25:
            # two stacked rectangles of the same size: each is a trunk for the other
            x, y, w, h = rng.randrange(4, 40), rng.randrange(4, 40), rng.choice([2, 4, 6]), rng.choice([1, 2, 3])
            rs = [[x, F(y), w, h], [F(x), y + h, w, F(h)]]
            if rng.random() < 0.3:
                rs.append([x, y + 2 * h, w, h])       # three: only the middle one is a trunk
            rng.shuffle(rs)
            i["rectangles"] = rs
            tags.append("equal-rectangles")
        elif r < 0.45:
            # equal areas, different shapes; only the wide one is a trunk
            x, y = rng.randrange(6, 40), rng.randrange(6, 40)
            rs = [[x, y, 4, 2], [x, F(y + 3), 2, 4]]
            if rng.random() < 0.5:
                rs.reverse()
            i["rectangles"] = rs
            tags.append("equal-areas")
        elif r < 0.6:
            rs = [list(q) for q in rects_of(i)]
            ax = rng.choice([0, 1])
            m = min(val(q[ax]) for q in rs)
            for q in rs:
                q[ax] = as_entry(rng, val(q[ax]) - m)
            i["rectangles"] = rs
            tags.append("centre-on-axis")
        if soft and rng.random() < 0.4:
            tot = rect_total(i)
            i["area"] = rng.choice([as_entry(rng, tot), {"_": as_entry(rng, tot)}, F(tot) * 2, F(tot) / 2])
            tags.append("soft-area-vs-rectangles")
        if soft and rng.random() < 0.4:
            rs = rects_of(i)
            tot = rect_total(i)
            cx = sum(val(q[2]) * val(q[3]) * val(q[0]) for q in rs) / tot
            cy = sum(val(q[2]) * val(q[3]) * val(q[1]) for q in rs) / tot
            if all(c.denominator & (c.denominator - 1) == 0 and c.denominator <= 2 ** 20 for c in (cx, cy)):
                i["center"] = [as_entry(rng, cx), as_entry(rng, cy)]
                tags.append("centre-equals-centroid")
        if "flip" in i and len(rects_of(i)) > 1:
            i.pop("flip")
    nets = d.get("Nets")
    if isinstance(nets, list):
        for j, n in enumerate(nets):
            if rng.random() < 0.3:
                nets[j] = list(net_members(n)) + [rng.choice([1, F(1), True])]
                tags.append("weight-one")
    return d, tags


def histories(rng, doc):
    """what the same process loaded before: designs with the same module names and other contents, the same design
    scaled, a rejected variant of the design, the design itself"""
    out = []
    names = list(mods_of(doc))
    for _ in range(rng.choice([1, 1, 2, 3])):
        r = rng.random()
        if r < 0.4:
            other = nc.gen_doc(rng, quirks=False)
            for k, new in zip(list(other["Modules"]), rng.sample(names, min(len(names), len(other["Modules"])))):
                if new not in other["Modules"]:
                    other = rename_module(other, k, new)
            h = other
        elif r < 0.6:
            def scale(x):
                if isinstance(x, bool):
                    return x
                if isinstance(x, (int, F)):
                    return x * 2 if abs(x) < 2 ** 1000 else x      # (the largest float of an `extreme` document stays one)
                if isinstance(x, dict):
                    return {k: (scale(v) if k not in ("aspect_ratio",) else v) for k, v in x.items()}
                if isinstance(x, list):
                    return [scale(v) for v in x]
                return x
            h = scale(deep(doc))
        elif r < 0.8:
            cls = rng.choice(nc.CLASSES)
            vs = list(variants(rng, doc, cls, per_kind=4)) if isinstance(doc.get("Modules"), dict) and doc["Modules"] else []
            h = rng.choice(vs)[1] if vs else deep(doc)
        else:
            h = deep(doc)
        out.append({"doc": h, "via": rng.choice(["tree", "text", "text"]), "write": rng.random() < 0.7})
    return out


def sized_doc(rng, modules=3, nets=2, arity=3, rects=1, name_len=None, regions=1):
    """A well-formed document of a given size: number of modules, of nets, members per net, rectangles of the first
    (hard) module and of the second (soft) one, length of the module names, regions of the third module's area."""
    def name(j):
        base = f"M{j}"
        return base if name_len is None else (base + "_" + "x" * name_len)[:max(name_len, len(base))]
    mods = {}
    for j in range(modules):
        kind = j % 4
        if kind == 0:
            k = max(1, rects)
            # a trunk with unit branches around it (up to 4 * 40 of them)
            boxes = [(10, 10, 50, 50)]
            for b in range(k - 1):
                side, pos = divmod(b, 40)
                pos = 10 + pos
                boxes.append([(pos, 50, pos + 1, 51), (50, pos, 51, pos + 1), (pos, 9, pos + 1, 10), (9, pos, 10, pos + 1)][side % 4])
            rs = [[F(x0 + x1, 2), F(y0 + y1, 2), x1 - x0, y1 - y0] for x0, y0, x1, y1 in boxes]
            rng.shuffle(rs)
            mods[name(j)] = {"hard": True, "rectangles": rs}
        elif kind == 1:
            k = max(1, rects)
            rs = [[F(61 + 2 * (b % 40)), F(11 + 2 * (b // 40)), 1, 1] + ([rng.choice(["lut", "dsp"])] if b % 3 == 0 else [])
                  for b in range(k)]
            mods[name(j)] = {"area": k + 3, "rectangles": rs}
        elif kind == 2:
            mods[name(j)] = {"area": {("_" if r == 0 else f"r{r}"): as_entry(rng, F(r + 1)) for r in range(max(1, regions))},
                             "center": [j % 97, F(j % 89, 2)]}
        else:
            mods[name(j)] = {"terminal": True, "center": [F(j % 101), j % 53]}
    names = list(mods)
    ns = []
    for e in range(nets):
        a = min(arity, len(names)) if rng.random() < 0.8 else arity
        mem = rng.sample(names, a) if a <= len(names) else [rng.choice(names) for _ in range(a)]
        ns.append(mem + ([as_entry(rng, F(rng.randrange(1, 9), 2))] if e % 2 else []))
    return {"Modules": mods, "Nets": ns}


SIZES_QUICK = [dict(modules=10), dict(modules=17), dict(modules=33), dict(modules=65), dict(modules=101), dict(modules=257),
               dict(modules=12, nets=33), dict(modules=12, nets=101), dict(modules=40, nets=3, arity=9),
               dict(modules=40, nets=3, arity=17), dict(modules=40, nets=3, arity=33), dict(modules=70, nets=2, arity=65),
               dict(modules=5, rects=9), dict(modules=5, rects=10), dict(modules=5, rects=17), dict(modules=5, rects=33),
               dict(modules=5, rects=65), dict(modules=4, name_len=32), dict(modules=4, name_len=33), dict(modules=4, name_len=64),
               dict(modules=4, name_len=255), dict(modules=4, name_len=256), dict(modules=4, name_len=1000),
               dict(modules=4, name_len=4097),
               dict(modules=4, regions=9), dict(modules=4, regions=17), dict(modules=4, regions=33)]
SIZES_THOROUGH = SIZES_QUICK + [dict(modules=9), dict(modules=16), dict(modules=32), dict(modules=64), dict(modules=100),
                                dict(modules=256), dict(modules=1001), dict(modules=300, nets=257, arity=4),
                                dict(modules=300, nets=2, arity=257), dict(modules=5, rects=101), dict(modules=5, rects=161),
                                dict(modules=4, name_len=8193), dict(modules=4, regions=65), dict(modules=4, regions=101),
                                dict(modules=20, nets=1001, arity=2)]
