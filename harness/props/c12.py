"""C12 - refinement decisions are consistent, exact and terminate."""
from fractions import Fraction as F

from harness import core, fr
from harness.props import alloc_common as ac
from harness.props.alloc_common import HEADER, HEADER_H, run_impl, to_coq, shrink

ASSUMPTIONS = [
    "'all thresholds' is read as every float the caller can compare a ratio with: finite values of any sign and magnitude, +inf and "
    "-inf (model: Alloc/Thr.v thr); a NaN is not a threshold and is not generated - the code answers must_be_refined(nan) = False and "
    "refine(nan) = identity, as the model's TNan does (recorded under nan_probe_not_judged, not judged)",
    "level counts: 1-4 everywhere, 8 and 16 where the harness' own reading of the property predicts at most 300 cells after the call "
    "(the constructor's overlap check is quadratic); a refine call that is predicted to be small and does not return within 120 s is "
    "reported as failed",
    "tolerances set explicitly (Rectangle.set_epsilon) and passed to the model as parameters; the sliver ratio is the exact value of the float 0.01",
    "grid alignment is read 'at the time the cut was tried' (DESIGN.md C12): a boundary may remain inside a final cell only if cutting the cell "
    "as it was when that boundary was tried would have left a piece thinner than 1% of its other side",
    "uniform-depth refinement: cells of fixed modules are exempt (they are never cut, C02)",
]


def halvings(w, h, levels):
    """Possible final shapes after `levels` halvings of the longer side (ties: either)."""
    shapes = {(w, h)}
    for _ in range(levels):
        nxt = set()
        for a, b in shapes:
            if b > a:
                nxt.add((a, b / 2))
            elif a > b:
                nxt.add((a / 2, b))
            else:
                nxt.add((a / 2, b))
                nxt.add((a, b / 2))
        shapes = nxt
    return shapes


def step_exact(o, before, after, eps):
    """The exactness clauses of C12 for ONE refinement call (before: cells and flags when the call was made)."""
    if o[0] == "refine":
        # the pieces of a cell are found by geometry: the position of a cell in the list is not part of the property
        t, levels = o[1], o[2]
        total = 0
        for p in before:
            pb = ac.cbox(p)
            kids = [c for c in after if ac.ovl(pb, ac.cbox(c)) > 0]
            total += len(kids)
            if ac.splittable(p, t):
                if len(kids) != 2 ** levels:
                    return "refine: a cell that must be split did not become 2^levels cells"
                shapes = halvings(core.frac(p["rect"]["w"]), core.frac(p["rect"]["h"]), levels)
                for c in kids:
                    b = ac.cbox(c)
                    if not (b[0] >= pb[0] and b[1] >= pb[1] and b[2] <= pb[2] and b[3] <= pb[3]):
                        return "refine: a piece is not inside the cell it was cut from"
                    if (core.frac(c["rect"]["w"]), core.frac(c["rect"]["h"])) not in shapes:
                        return "refine: pieces are not obtained by repeatedly halving the longer side"
                    if ac.carea(c) * 2 ** levels != ac.carea(p):
                        return "refine: the 2^levels cells are not equal parts of the original"
                    if c["depth"] != p["depth"] + levels:
                        return "refine: depth not raised by the number of levels"
                if sum(ac.carea(c) for c in kids) != ac.carea(p):
                    return "refine: the 2^levels cells are not equal parts of the original"
            else:
                if len(kids) != 1 or ac.canon_cell(kids[0]) != ac.canon_cell(p):
                    return "refine: a cell that must not be split was changed"
        if total != len(after):
            return "refine: unexpected extra cells"
    elif o[0] == "uniform":
        md = max(c["depth"] for c in before)
        for c in after:
            if not c["rect"]["fixed"] and c["depth"] != md:
                return "uniform refinement: a refinable cell does not end at the former maximum depth"
        if len({c["depth"] for c in before}) == 1 and not ac.same_cells(after, before):
            return "uniform refinement changed an allocation that already had uniform depth"
    else:
        xs = sorted({v for c in before for v in (ac.cbox(c)[0], ac.cbox(c)[2])})
        ys = sorted({v for c in before for v in (ac.cbox(c)[1], ac.cbox(c)[3])})
        q = core.frac(ac.RATIO_F)
        for f in after:
            if f["rect"]["fixed"]:
                continue
            fb = ac.cbox(f)
            parents = [p for p in before if ac.ovl(ac.cbox(p), fb) > 0]
            if len(parents) != 1:
                continue        # judged by C02
            P = ac.cbox(parents[0])
            for x in xs[1:-1]:
                if fb[0] + eps < x < fb[2] - eps:
                    if min(x - fb[0], P[2] - x) > q * (P[3] - P[1]):
                        return f"griddify: boundary x={x} of another cell still crosses a refinable cell although cutting there would not have left a sliver"
            for y in ys[1:-1]:
                if fb[1] + eps < y < fb[3] - eps:
                    if min(y - fb[1], P[3] - y) > q * (fb[2] - fb[0]):
                        return f"griddify: boundary y={y} of another cell still crosses a refinable cell although cutting there would not have left a sliver"
    return None


def oracle_hist(case, obs):
    """Histories on shared objects.  Between two in-place flag changes an allocation object is one allocation: every
    must_be_refined(t) asked of it and every refine(t, .) applied to it in that interval must tell the same story
    (True iff refining changes it), whatever else was asked of the object before; each refinement call is exact for
    the cells and flags the allocation had when the call was made."""
    if obs["init"] is None:
        return None
    epoch = 0
    said = {}          # (allocation, threshold, epoch) -> ("mbr" | "refine", answer, step)
    for n, (h, st) in enumerate(zip(case["hops"], obs["steps"])):
        if h[0] == "setfixed":
            epoch += 1
            continue
        if h[0] == "mbr":
            key, what, ans = (st["k"], ac.thr_key(h[2]), epoch), "mbr", st["val"]
        elif h[0] == "apply":
            o = h[2]
            if st["new"] is None:
                if o[0] == "refine" and o[2] == 0:
                    continue
                return f"{o[0]} failed ({st.get('err')}) on a valid allocation (step {n} of a history)"
            why = step_exact(o, st["src"], st["new"], case["eps"])
            if why:
                return f"{why} (step {n} of a history on shared objects)"
            if o[0] != "refine":
                continue
            key, what, ans = (st["k"], ac.thr_key(o[1]), epoch), "refine", not ac.same_cells(st["new"], st["src"])
        else:
            continue
        for w0, a0, n0 in said.get(key, []):
            if a0 != ans and (w0, what) != ("refine", "refine"):
                m, r = (a0, ans) if w0 == "mbr" else (ans, a0)
                if w0 == what == "mbr":
                    return (f"must_be_refined({ac.thr_show(key[1])}) = {a0} at step {n0} and {ans} at step {n} on the same allocation "
                            f"with no change in between")
                return (f"must_be_refined({ac.thr_show(key[1])}) = {m} but refining at that threshold "
                        f"{'changes' if r else 'does not change'} the allocation (steps {n0} and {n} of a history)")
        said.setdefault(key, []).append((what, ans, n))
    return None


def oracle(case, obs):
    if ac.is_hist(case):
        return oracle_hist(case, obs)
    if obs["init"] is None:
        return None
    if case.get("stream") == "decimal":
        # decimal coordinates: decisions are discrete, so consistency must hold exactly; shapes are not judged
        for t, m, ch in zip(case["ths"], obs["mbr"], obs["refine_changes"]):
            t = ac.thr_show(t)
            if isinstance(ch, str):
                return f"refine({t}) failed ({ch}) on a valid allocation with decimal coordinates"
            if m != ch:
                return (f"must_be_refined({t}) = {m} but refining at that threshold "
                        f"{'changes' if ch else 'does not change'} the allocation")
        for o, st in zip(case["ops"], obs["steps"]):
            if st["after"] is None:
                return f"{o[0]} failed ({st.get('err')}) on a valid allocation with decimal coordinates"
        return None
    for t, m, ch in zip(case["ths"], obs["mbr"], obs["refine_changes"]):
        t = ac.thr_show(t)
        if isinstance(ch, str):
            return f"refine({t}) failed ({ch}) on a valid allocation"
        if m != ch:
            return (f"must_be_refined({t}) = {m} but refining at that threshold "
                    f"{'changes' if ch else 'does not change'} the allocation")
    for t, lo in zip(case["ths"], obs.get("loop", [])):
        # the refine-while-needed loop: a round is only made when must_be_refined(t) said True, so it must change the
        # allocation (otherwise the loop never ends), and it is a threshold refinement like any other
        for n, (before, after) in enumerate(lo["rounds"]):
            if isinstance(after, str):
                return f"refine({ac.thr_show(t)}) failed ({after}) on a valid allocation (round {n + 1} of the refine-while-needed loop)"
            if ac.same_cells(before, after):
                return (f"must_be_refined({ac.thr_show(t)}) = True but refining at that threshold does not change the allocation: "
                        f"the refine-while-needed loop is stuck in round {n + 1}")
            why = step_exact(["refine", t, case["loop"][0]], before, after, case["eps"])
            if why:
                return f"{why} (round {n + 1} of the refine-while-needed loop at {ac.thr_show(t)})"
    for o, st in zip(case["ops"], obs["steps"]):
        before, after = st["before"]["cells"], st["after"]
        if after is None:
            if o[0] == "refine" and o[2] == 0:
                return None
            return f"{o[0]} failed ({st.get('err')}) on a valid allocation"
        why = step_exact(o, before, after["cells"], case["eps"])
        if why:
            return why
    return None


def nan_probe():
    """NOT judged (a NaN is no threshold: 'no module exceeds nan' has no agreed reading, so nan is outside 'all
    thresholds'): what the code does with it, next to what the model says (Alloc/Thr.v TNan: x <= nan is False, hence
    must_be_refined False and refine the identity, theorem C12_mbr_bottom)."""
    import random
    out = []
    try:
        for layout in ("mixed", "all-empty", "zero-ratio"):
            cells = ac.ext_cells(random.Random(layout), layout)
            a = ac.build_alloc(cells)
            m = bool(a.must_be_refined(float("nan")))
            ch = not ac.same_cells(ac.cells_obs(a.refine(float("nan"), 2)), ac.cells_obs(a))
            out.append({"layout": layout, "must_be_refined(nan)": m, "refine(nan) changes": ch,
                        "model": {"must_be_refined": False, "changes": False}, "agree": (m, ch) == (False, False),
                        "consistent": m == ch})
    except Exception as e:
        out.append({"error": f"{type(e).__name__}: {e}"})
    return out


def failure_key(case, why):
    w = why or ""
    h = "history-" if ac.is_hist(case) else ""
    if w.startswith("must_be_refined"):
        return f"C12/{h}must-be-refined-vs-refine"
    if w.startswith("griddify"):
        return f"C12/{h}griddify"
    return f"C12/{h}refine"


def run(ctx, out, replay=None):
    n = 520 if ctx.quick() else 5000
    out.rule = ("EXTREME ARGUMENTS: a systematic block of thresholds +inf, -inf, +-1e308, -1, 0, 1, 2, 1+2^-52, 1-2^-53, +-5e-324, -2^-60 "
                "x level counts 1, 2, 8, 16 x degenerate layouts (all cells empty, occupied cells fixed + empty rest, mixed, one "
                "empty cell, one full cell, zero ratios, all occupied), on fresh objects - must_be_refined and refine probed at "
                "all of these thresholds, the callers' loop 'while must_be_refined(t): refine(t, l)' followed for two rounds at "
                "each - and on shared objects whose occupied cells are flagged fixed in place; 30% of the other cases get some "
                "thresholds / level counts replaced by such values; whole-number thresholds passed as ints in 30-40% of these. "
                "Otherwise the same generators as C02: (a) chains on fresh objects (guillotine / sparse / grid / sliver layouts; empty, "
                "single, multi, full, fixed maps; depths 0-3; layouts with different numbers of x- and y-boundaries), "
                "must_be_refined probed at 5 thresholds before and after every operation; (b) histories on shared objects: "
                "must_be_refined / refine / uniform / griddify / queries called repeatedly on any allocation built so far, with "
                "other thresholds and levels, interleaved with rect.fixed set in place (also through a derived allocation "
                "sharing the cell); (c) THE 1% RULE AGAINST PIECES, systematically (kind x (width, distance) x position of the "
                "perpendicular cut x side): a wide cell A, a flat neighbour whose side is a line within 1% of A's width from A's "
                "bottom / top / both (exempt for A as a whole and for every original cell it crosses), a third cell above or "
                "below A whose side cuts A into a piece narrow enough for the same line to be a due cut (griddify applies the x "
                "cuts first: the piece must be cut); the transposed layout (the sliver line is an x line, tried before the y cut: "
                "it stays); two lines closer than 1% of the other side in the middle of a cell (the second is a sliver of the "
                "piece only); the same with a cell in which the line is a due cut anyway; neighbours optionally fixed; gridded "
                "again, after a refine, after a flag set in place; (e) LAYOUTS THAT DO NOT TILE THEIR BOUNDING BOX, systematically over "
                "14 kinds (alloc_variants.NONTILING_KINDS): rows / columns of EQUAL bricks shifted against each other (running "
                "bond, stairs, by half / a quarter / any multiple of 1/4 of a brick, by just under and just over 1% of the "
                "brick's other side), the same with gaps inside and between the rows, rows of different brick sizes, L-shaped "
                "and stepped unions, pinwheels around a hole, and as controls regular grids with holes and L-shaped unions of "
                "aligned equal cells; half as chains on fresh objects (griddify / uniform / refine, alone and one after the "
                "other, must_be_refined probed around each), half as histories (gridded twice, after refine / uniform / copy, "
                "after flags set in place; YAML / list / file input forms); (d) large decimal results (1000+ cells, see C02; one in the "
                "quick tier); non-trivial = at least two cells; distinct by hash")
    cases = []
    if replay and "case" in replay:
        cases.append(fr.unjson(replay["case"]))
    cases += fr.load_corpus("C12")
    import random
    from harness.props import c02
    rng = random.Random(f"C12x-{ctx.seed}")
    cases += c02.gen_cases(rng, max(n - len(cases), 0), ctx.quick(), extreme=True)
    fr.run_cases(ctx, out, cases, ac.run_any, ac.any_to_coq, oracle, failure_key, HEADER_H,
                 dist_key=ac.any_dist_key, nontrivial=ac.nontrivial, shard=75, shrink=ac.any_shrink)
    out.extra["history_cases"] = sum(1 for c in cases if ac.is_hist(c))
    out.extra["variants"] = ac.variant_counts(cases)
    out.extra["note"] = "distribution keys are layout-kind/operation-sequence"
    out.extra["nan_probe_not_judged"] = nan_probe()
    ext = [c for c in cases if c["kind"].startswith("ext-") or c["kind"] == "hist-ext" or "extreme" in c["kind"] or c.get("tint")]
    out.extra["extreme_argument_cases"] = len(ext)
