"""C12 - refinement decisions are consistent, exact and terminate."""
from fractions import Fraction as F

from harness import core, fr
from harness.props import alloc_common as ac
from harness.props.alloc_common import HEADER, run_impl, to_coq, shrink

ASSUMPTIONS = [
    "tolerances set explicitly (Rectangle.set_epsilon) and passed to the model as parameters; the sliver ratio is the exact value of the float 0.01",
    "grid alignment is read 'at the time the cut was tried' (DESIGN.md C12): a boundary may remain inside a final cell only if cutting the cell "
    "as it was when that boundary was tried would have left a piece thinner than 1% of its other side",
    "uniform-depth refinement: cells of fixed modules are exempt (they are never cut, C02)",
]


def halvings(w, h, levels):
    """Possible final shapes after `levels` halvings of the longer side (ties: either)."""
    shapes = {(w, h)}
    for _ in range(levels):
        nxt = set()
        for a, b in shapes:
            if b > a:
                nxt.add((a, b / 2))
            elif a > b:
                nxt.add((a / 2, b))
            else:
                nxt.add((a / 2, b))
                nxt.add((a, b / 2))
        shapes = nxt
    return shapes


def oracle(case, obs):
    if obs["init"] is None:
        return None
    if case.get("stream") == "decimal":
        # decimal coordinates: decisions are discrete, so consistency must hold exactly; shapes are not judged
        for t, m, ch in zip(case["ths"], obs["mbr"], obs["refine_changes"]):
            if isinstance(ch, str):
                return f"refine({t}) failed ({ch}) on a valid allocation with decimal coordinates"
            if m != ch:
                return (f"must_be_refined({t}) = {m} but refining at that threshold "
                        f"{'changes' if ch else 'does not change'} the allocation")
        for o, st in zip(case["ops"], obs["steps"]):
            if st["after"] is None:
                return f"{o[0]} failed ({st.get('err')}) on a valid allocation with decimal coordinates"
        return None
    cells0 = obs["init"]["cells"]
    for t, m, ch in zip(case["ths"], obs["mbr"], obs["refine_changes"]):
        if isinstance(ch, str):
            return f"refine({t}) failed ({ch}) on a valid allocation"
        if m != ch:
            return (f"must_be_refined({t}) = {m} but refining at that threshold "
                    f"{'changes' if ch else 'does not change'} the allocation")
    for o, st in zip(case["ops"], obs["steps"]):
        before, after = st["before"]["cells"], st["after"]
        if after is None:
            if o[0] == "refine" and o[2] == 0:
                return None
            return f"{o[0]} failed ({st.get('err')}) on a valid allocation"
        after = after["cells"]
        if o[0] == "refine":
            t, levels = o[1], o[2]
            pos = 0
            for p in before:
                if ac.splittable(p, t):
                    kids = after[pos:pos + 2 ** levels]
                    pos += 2 ** levels
                    pb = ac.cbox(p)
                    if len(kids) != 2 ** levels:
                        return "refine: a cell that must be split did not become 2^levels cells"
                    shapes = halvings(core.frac(p["rect"]["w"]), core.frac(p["rect"]["h"]), levels)
                    for c in kids:
                        b = ac.cbox(c)
                        if not (b[0] >= pb[0] and b[1] >= pb[1] and b[2] <= pb[2] and b[3] <= pb[3]):
                            return "refine: cells are not emitted in place of the cell they were cut from"
                        if (core.frac(c["rect"]["w"]), core.frac(c["rect"]["h"])) not in shapes:
                            return "refine: pieces are not obtained by repeatedly halving the longer side"
                        if c["depth"] != p["depth"] + levels:
                            return "refine: depth not raised by the number of levels"
                    if sum(ac.carea(c) for c in kids) != ac.carea(p):
                        return "refine: the 2^levels cells are not equal parts of the original"
                else:
                    if pos >= len(after) or after[pos] != p:
                        return "refine: a cell that must not be split was changed"
                    pos += 1
            if pos != len(after):
                return "refine: unexpected extra cells"
        elif o[0] == "uniform":
            md = max(c["depth"] for c in before)
            for c in after:
                if not c["rect"]["fixed"] and c["depth"] != md:
                    return "uniform refinement: a refinable cell does not end at the former maximum depth"
            if len({c["depth"] for c in before}) == 1 and after != before:
                return "uniform refinement changed an allocation that already had uniform depth"
        else:
            eps = case["eps"]
            xs = sorted({v for c in before for v in (ac.cbox(c)[0], ac.cbox(c)[2])})
            ys = sorted({v for c in before for v in (ac.cbox(c)[1], ac.cbox(c)[3])})
            q = core.frac(ac.RATIO_F)
            for f in after:
                if f["rect"]["fixed"]:
                    continue
                fb = ac.cbox(f)
                parents = [p for p in before if ac.ovl(ac.cbox(p), fb) > 0]
                if len(parents) != 1:
                    continue        # judged by C02
                P = ac.cbox(parents[0])
                for x in xs[1:-1]:
                    if fb[0] + eps < x < fb[2] - eps:
                        if min(x - fb[0], P[2] - x) > q * (P[3] - P[1]):
                            return f"griddify: boundary x={x} of another cell still crosses a refinable cell although cutting there would not have left a sliver"
                for y in ys[1:-1]:
                    if fb[1] + eps < y < fb[3] - eps:
                        if min(y - fb[1], P[3] - y) > q * (fb[2] - fb[0]):
                            return f"griddify: boundary y={y} of another cell still crosses a refinable cell although cutting there would not have left a sliver"
        if "mbr_after" in st:
            pass
    return None


def failure_key(case, why):
    w = why or ""
    if w.startswith("must_be_refined"):
        return "C12/must-be-refined-vs-refine"
    if w.startswith("griddify"):
        return "C12/griddify"
    return "C12/refine"


def run(ctx, out, replay=None):
    n = 700 if ctx.quick() else 7000
    out.rule = ("same generator as C02 (guillotine / sparse / grid / sliver layouts; empty, single, multi, full, fixed maps; "
                "depths 0-3; layouts with different numbers of x- and y-boundaries); must_be_refined probed at 5 thresholds "
                "before and after every operation; non-trivial = at least two cells; distinct by hash")
    cases = []
    if replay and "case" in replay:
        cases.append(fr.unjson(replay["case"]))
    cases += fr.load_corpus("C12")
    import random
    rng = random.Random(f"C12x-{ctx.seed}")
    while len(cases) < n:
        cases.append(ac.gen_case(rng))
    fr.run_cases(ctx, out, cases, run_impl, to_coq, oracle, failure_key, HEADER,
                 dist_key=ac.dist_key, nontrivial=ac.nontrivial, shard=150, shrink=shrink)
    nx_ne_ny = 0
    out.extra["note"] = "distribution keys are layout-kind/operation-sequence"
