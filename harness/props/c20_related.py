"""C20 - near-duplicates of a probed design.

`relatives(rng, design)` returns designs (same dictionaries as the generators of c20.py produce: op, kind, stream,
variant, dims, cand, note, fixed) that share most of their content with the given one:
  self          the design itself (idempotence: the probe executed earlier, once or several times)
  reorder       the same rectangles / modules / nets / cells / terms / variables in another order
  retag, onefield, drop, add   one field different (a tag, a ratio, a depth, a bound, a polarity, a coefficient, ...)
  recut, move   a die with EXACTLY the same cut coordinates and other occupied cells
  transpose, mirror-x, mirror-y, scale   the same structure transposed / mirrored / at twice or half the size
  cross         the same rectangles through another class (hard module <-> allocation cells <-> die regions)
A relative never leaves the property's quantifier: its dimensions are those of the original up to a factor 2.
`cand` (the tolerance the operation would install as first writer) is recomputed with the formulas of the generators;
where it is not known (documents with region-wise areas ...) it is None and `needs_installer` is set: c20.gen_related
places such an operation after one whose candidate is known, so the tolerance trace stays fully predicted."""
import copy
import json
import math
import re
from fractions import Fraction as F

from harness.props import c01

TAGS = ["#", "BRAM", "DSP", "reg1", "_x", "a_9", "Z"]


def fl(x):
    return float(x)


def exact(x: F) -> bool:
    return F(float(x)) == x


def corners_exact(b):
    return exact(b[0] - b[2] / 2) and exact(b[0] + b[2] / 2) and exact(b[1] - b[3] / 2) and exact(b[1] + b[3] / 2)


def tag(d, note, **kw):
    d["note"] = "rel:" + note
    d.update(kw)
    return d


# --------------------------------------------------------------------------
# die
# --------------------------------------------------------------------------
def die_parts(d):
    doc = d["op"]["doc"]
    W, H = F(doc["width"]), F(doc["height"])
    regs = doc.get("regions", [])
    flat = bool(regs) and not isinstance(regs[0], list)
    if flat:
        regs = [regs]
    boxes = [[F(r[0]), F(r[1]), F(r[2]), F(r[3]), r[4]] for r in regs]
    fixed = [[F(v) for v in r[:4]] for r in (d.get("fixed") or [])]
    return W, H, boxes, fixed, flat


def refine_safe(W, H, allb):
    """split_refinable_regions halves a rectangle until its aspect ratio is small: on a sliver (a cell 2^-20 wide
    of a non-robust die) that is millions of rectangles.  Refinement is asked for only when no cell of the grid of
    cut coordinates is more than 64 times longer than wide."""
    g = grid_index(W, H, allb)
    if g is None:
        return False
    xs, ys, _ = g
    dx = [b - a for a, b in zip(xs, xs[1:])]
    dy = [b - a for a, b in zip(ys, ys[1:])]
    return max(dx + dy) <= 64 * min(dx + dy) and len(dx) * len(dy) <= 64


def die_design(W, H, boxes, fixed, variant="robust", flat=False, refine=None):
    if refine and not refine_safe(W, H, [b[:4] for b in boxes] + [b[:4] for b in fixed]):
        refine = None
    doc = {"width": fl(W), "height": fl(H)}
    regs = [[fl(b[0]), fl(b[1]), fl(b[2]), fl(b[3]), b[4]] for b in boxes]
    if regs:
        doc["regions"] = regs[0] if (flat and len(regs) == 1) else regs
    op = {"k": "die", "doc": doc, "netlist": None}
    if refine:
        op["refine"] = refine
    allb = [b[:4] for b in boxes] + [b[:4] for b in fixed]
    ds = [W, H] + [b[2] for b in allb] + [b[3] for b in allb]
    cand = []
    if fixed:
        mods = {f"M{i}": {"fixed": True, "rectangles": [[fl(v) for v in r[:4]]]} for i, r in enumerate(fixed)}
        side = min(W, H) / 4
        mods["S"] = {"area": fl(side * side)}
        op["netlist"] = {"Modules": mods, "Nets": []}
        cand.append(["N", min([min(r[2], r[3]) for r in fixed] + [side])])
        ds.append(side)
    cand.append(["D", W, H])
    ok = all(exact(v) for v in [W, H] + [v for b in allb for v in b]) and all(corners_exact(b) for b in allb)
    return {"op": op, "kind": "die", "stream": "exact" if ok else "decimal", "variant": variant,
            "dims": [min(ds), max(ds)], "note": "", "cand": cand, "fixed": [[fl(v) for v in r[:4]] for r in fixed]}


def grid_index(W, H, allb):
    """the cut coordinates and the boxes as half-open index rectangles (None when a box leaves the die)"""
    xs = sorted({F(0), W} | {b[0] - b[2] / 2 for b in allb} | {b[0] + b[2] / 2 for b in allb})
    ys = sorted({F(0), H} | {b[1] - b[3] / 2 for b in allb} | {b[1] + b[3] / 2 for b in allb})
    if xs[0] < 0 or xs[-1] > W or ys[0] < 0 or ys[-1] > H:
        return None
    ix = {v: i for i, v in enumerate(xs)}
    iy = {v: i for i, v in enumerate(ys)}
    idx = [(ix[b[0] - b[2] / 2], iy[b[1] - b[3] / 2], ix[b[0] + b[2] / 2], iy[b[1] + b[3] / 2]) for b in allb]
    if any(r[0] >= r[2] or r[1] >= r[3] for r in idx):
        return None
    return xs, ys, idx


def die_cells(d):
    """number of cells of the die's grid of cut coordinates (the cost of evaluating the model on it)"""
    if not isinstance(d["op"]["doc"], dict):
        return 999                                    # a die given as text: never probed against the model
    W, H, boxes, fixed, _ = die_parts(d)
    g = grid_index(W, H, [b[:4] for b in boxes] + fixed)
    return 999 if g is None else (len(g[0]) - 1) * (len(g[1]) - 1)


def cuts_complete(nx, ny, rects):
    ux = {0, nx} | {r[0] for r in rects} | {r[2] for r in rects}
    uy = {0, ny} | {r[1] for r in rects} | {r[3] for r in rects}
    return len(ux) == nx + 1 and len(uy) == ny + 1


def box_of_index(xs, ys, r, t):
    x0, y0, x1, y1 = xs[r[0]], ys[r[1]], xs[r[2]], ys[r[3]]
    return [(x0 + x1) / 2, (y0 + y1) / 2, x1 - x0, y1 - y0, t]


def split_fixed(rng, xs, ys, rects, tags, pfixed):
    boxes, fixed = [], []
    for r, t in zip(rects, tags):
        b = box_of_index(xs, ys, r, t)
        if t is None or rng.random() < pfixed:
            fixed.append(b[:4])
        else:
            boxes.append(b)
    return boxes, fixed


def rel_die(rng, d):
    W, H, boxes, fixed, flat = die_parts(d)
    var = d.get("variant") or "robust"
    refine = d["op"].get("refine")
    out = [tag(copy.deepcopy(d), "self")]
    allb = [b[:4] for b in boxes] + fixed
    tags = [b[4] for b in boxes] + [None] * len(fixed)

    def mk(bx, fx, note, W_=W, H_=H, fl_=False, ref=refine):
        return tag(die_design(W_, H_, bx, fx, var, fl_, ref), note)

    # the same die asked for another refinement / none
    out.append(mk(boxes, fixed, "refine", ref=[rng.choice([1.5, 2.0, 3.0]), rng.choice([1, 4, 9])] if not refine
                  else None))
    if len(boxes) >= 2:
        b2 = list(boxes)
        rng.shuffle(b2)
        out.append(mk(b2, fixed, "reorder"))
        out.append(mk(boxes[::-1], fixed[::-1], "reorder"))
    if boxes:
        i = rng.randrange(len(boxes))
        b2 = copy.deepcopy(boxes)
        b2[i][4] = rng.choice([t for t in TAGS if t != b2[i][4]])
        out.append(mk(b2, fixed, "retag"))
        out.append(mk(boxes[:i] + boxes[i + 1:], fixed, "drop"))
        if len(boxes) == 1:
            out.append(mk(boxes, fixed, "form", fl_=not flat))
        # a region becomes a fixed rectangle of the netlist (same cells occupied, by another kind of rectangle)
        out.append(mk(boxes[:i] + boxes[i + 1:], fixed + [boxes[i][:4]], "region->fixed"))
    if fixed:
        out.append(mk(boxes + [fixed[0] + [rng.choice(TAGS)]], fixed[1:], "fixed->region"))
        out.append(mk(boxes, [], "other-netlist"))
    # the same cut coordinates, other occupied cells
    g = grid_index(W, H, allb)
    if g is not None:
        xs, ys, idx = g
        nx, ny = len(xs) - 1, len(ys) - 1
        pf = 0.2 if fixed else 0.0
        for _ in range(3):
            for _try in range(30):
                k = rng.randrange(1, max(2, min(nx * ny, 7) + 1))
                rects = c01.place_regions(rng, nx, ny, k, "random")
                if rects and cuts_complete(nx, ny, rects) and sorted(rects) != sorted(idx):
                    bx, fx = split_fixed(rng, xs, ys, rects, [rng.choice(TAGS) for _ in rects], pf)
                    out.append(mk(bx, fx, "recut"))
                    break
        # one box moved to another free place
        for _ in range(3):
            if not idx:
                break
            for _try in range(30):
                i = rng.randrange(len(idx))
                w, h = idx[i][2] - idx[i][0], idx[i][3] - idx[i][1]
                i0, j0 = rng.randrange(0, nx - w + 1), rng.randrange(0, ny - h + 1)
                new = (i0, j0, i0 + w, j0 + h)
                if new == idx[i]:
                    continue
                others = idx[:i] + idx[i + 1:]
                if any(min(new[2], o[2]) > max(new[0], o[0]) and min(new[3], o[3]) > max(new[1], o[1])
                       for o in others):
                    continue
                rects = idx[:i] + [new] + idx[i + 1:]
                if cuts_complete(nx, ny, rects):
                    bx = [box_of_index(xs, ys, r, t) for r, t in zip(rects, tags) if t is not None]
                    fx = [box_of_index(xs, ys, r, t)[:4] for r, t in zip(rects, tags) if t is None]
                    out.append(mk(bx, fx, "move"))
                    break
        # one more box in a free cell
        occ = {(i, j) for r in idx for i in range(r[0], r[2]) for j in range(r[1], r[3])}
        free = [(i, j) for i in range(nx) for j in range(ny) if (i, j) not in occ]
        if free:
            i, j = rng.choice(free)
            out.append(mk(boxes + [box_of_index(xs, ys, (i, j, i + 1, j + 1), rng.choice(TAGS))], fixed, "add"))
    # transposed, mirrored, scaled, one side of the die changed
    out.append(mk([[b[1], b[0], b[3], b[2], b[4]] for b in boxes], [[b[1], b[0], b[3], b[2]] for b in fixed],
                  "transpose", W_=H, H_=W))
    out.append(mk([[W - b[0]] + b[1:] for b in boxes], [[W - b[0]] + b[1:] for b in fixed], "mirror-x"))
    out.append(mk([[b[0], H - b[1]] + b[2:] for b in boxes], [[b[0], H - b[1]] + b[2:] for b in fixed], "mirror-y"))
    s = rng.choice([F(2), F(1, 2)])
    out.append(mk([[v * s for v in b[:4]] + [b[4]] for b in boxes], [[v * s for v in b] for b in fixed], "scale",
                  W_=W * s, H_=H * s))
    if rng.random() < 0.5:
        out.append(mk(boxes, fixed, "onefield", W_=W * 2))
    else:
        out.append(mk(boxes, fixed, "onefield", H_=H * 2))
    if boxes:
        # one coordinate a hair (2^-20 of the die) away: equal under any rounding of a key, another design
        i = rng.randrange(len(boxes))
        b2 = copy.deepcopy(boxes)
        k = rng.randrange(4)
        b2[i][k] += (W if k in (0, 2) else H) * F(1, 2 ** 20) * (2 if k >= 2 else rng.choice([-1, 1]))
        out.append(mk(b2, fixed, "nudge"))
    # the same numbers written as integers where they are integral (2.0 -> 2)
    m = mk(boxes, fixed, "form")
    doc = m["op"]["doc"]
    ints = lambda v: int(v) if isinstance(v, float) and v == int(v) and abs(v) < 2 ** 40 else v
    doc["width"], doc["height"] = ints(doc["width"]), ints(doc["height"])
    if "regions" in doc:
        doc["regions"] = [ints(v) for v in doc["regions"]] if not isinstance(doc["regions"][0], list) else \
            [[ints(v) for v in r] for r in doc["regions"]]
    out.append(m)
    # the same die as YAML text, and the bare die as '<W>x<H>'
    m = mk(boxes, fixed, "form")
    m["op"]["doc"] = json.dumps(m["op"]["doc"])
    out.append(m)
    m = mk([], [], "form")
    m["op"]["doc"] = f"{fl(W)!r}x{fl(H)!r}"
    out.append(m)
    return out


def die_grid_family(rng, P, large=False):
    """dies over ONE grid of cut coordinates whose occupied cells differ minimally: a base pattern, every pattern
    obtained by moving one occupied cell, by occupying / freeing one cell, the complement, and the same patterns with
    adjacent cells merged into one region or given as fixed rectangles of a netlist.
    large: grids of more than 32 / 64 cells whose patterns differ in the LAST cells only (an occupancy mask cut to a
    machine word, one hex digit per cell ...); such dies are compared by digest, not against the Coq model (cost)"""
    nrows, ncols = rng.choice([(2, 3), (2, 3), (2, 4), (3, 4), (1, 3), (2, 5), (3, 5), (3, 2), (4, 2), (3, 3), (2, 2),
                               (4, 3), (1, 5), (4, 5), (2, 6)])
    if large:
        nrows, ncols = rng.choice([(5, 7), (6, 11), (9, 8), (3, 22), (4, 17), (7, 5), (17, 4)])
    q = rng.choice([F(1, 4), F(1, 2), F(1)])
    xs, ys = [F(0)], [F(0)]
    for _ in range(ncols):
        xs.append(xs[-1] + rng.choice([1, 2, 2, 3, 4, 6]) * q * P)
    for _ in range(nrows):
        ys.append(ys[-1] + rng.choice([1, 2, 2, 3, 4, 6]) * q * P)
    W, H = xs[-1], ys[-1]
    cells = [(i, j) for j in range(nrows) for i in range(ncols)]

    def complete(occ):
        return bool(occ) and cuts_complete(ncols, nrows, [(i, j, i + 1, j + 1) for i, j in occ])

    base = None
    for _ in range(200):
        if large:
            occ = frozenset(c for c in cells if rng.random() < 0.45)
        else:
            k = rng.randrange(1, max(2, min(len(cells) - 1, 5) + 1))
            occ = frozenset(rng.sample(cells, k))
        if complete(occ) and len(occ) < len(cells):
            base = occ
            break
    if base is None:
        base = frozenset(cells[:-1]) if len(cells) > 1 else frozenset(cells)
    pats = [("base", base)]
    # (large grids: only the cells beyond the 32nd / 64th change - in row-major numbering for one half of the
    # patterns, in column-major numbering for the other half)
    lim = 0 if not large else (64 if len(cells) > 70 else 32)
    highs = [cells] if not large else [[c for c in cells if c[1] * ncols + c[0] >= lim],
                                       [c for c in cells if c[0] * nrows + c[1] >= lim]]
    for high in highs:
        sub = []
        for c in sorted(base):
            for e in high:
                if e not in base and c in high:
                    sub.append(("cellmove", base - {c} | {e}))
        for e in high:
            if e not in base:
                sub.append(("celladd", base | {e}))
        for c in sorted(base):
            if len(base) > 1 and c in high:
                sub.append(("celldrop", base - {c}))
        if large:
            rng.shuffle(sub)
            sub = sub[:8]
        pats += sub
    comp = frozenset(cells) - base
    if comp:
        pats.append(("complement", comp))
    same = [(n, o) for n, o in pats if complete(o)]
    if len(same) >= 4:
        pats = same
    head, rest = pats[0], pats[1:]
    rng.shuffle(rest)
    rest = rest[:14]
    tagpool = rng.sample(TAGS, 3)
    out = []
    fam_refine = [rng.choice([1.5, 2.0, 3.0]), rng.choice([1, 4, 9])] if rng.random() < 0.5 else None
    for n, occ in [head] + rest:
        # merge horizontally adjacent occupied cells into one region now and then
        rects, used = [], set()
        for (i, j) in sorted(occ, key=lambda c: (c[1], c[0])):
            if (i, j) in used:
                continue
            i1 = i + 1
            while (i1, j) in occ and (i1, j) not in used and rng.random() < 0.3:
                i1 += 1
            used |= {(k, j) for k in range(i, i1)}
            rects.append((i, j, i1, j + 1))
        mode = rng.random()
        tags = [rng.choice(tagpool) for _ in rects]
        bx, fx = split_fixed(rng, xs, ys, rects, tags, 0.5 if mode < 0.15 else 0.0)
        if rng.random() < 0.3:
            rng.shuffle(bx)
        m = tag(die_design(W, H, bx, fx, "robust", refine=fam_refine), "grid:" + n)
        if large and m["stream"] == "exact":
            m["stream"] = "exact-large"
        out.append(m)
    return out


# --------------------------------------------------------------------------
# orthogon recognition (the rectangles of one hard module)
# --------------------------------------------------------------------------
def stog_design(rects, variant="robust"):
    ok = all(exact(v) for r in rects for v in r) and all(corners_exact(r) for r in rects)
    ds = [r[2] for r in rects] + [r[3] for r in rects]
    return {"op": {"k": "stog", "rects": [[fl(v) for v in r] for r in rects]}, "kind": "stog",
            "stream": "exact" if ok else "decimal", "variant": variant, "dims": [min(ds), max(ds)], "note": "",
            "cand": [["N", min(ds)]], "fixed": None}


def bbox4(rects):
    x0 = min(r[0] - r[2] / 2 for r in rects)
    x1 = max(r[0] + r[2] / 2 for r in rects)
    y0 = min(r[1] - r[3] / 2 for r in rects)
    y1 = max(r[1] + r[3] / 2 for r in rects)
    return x0, y0, x1, y1


def alloc_design(cells, ops, variant="robust"):
    """cells: [[cx, cy, w, h, fixed, hard, region] (Fractions), [[module, ratio]], depth]"""
    rs = [c[0] for c in cells]
    x0, y0, x1, y1 = bbox4(rs)
    bb = [x1 - x0, y1 - y0]
    ok = all(exact(v) for r in rs for v in r[:4]) and all(corners_exact(r) for r in rs)
    op = {"k": "alloc", "cells": [[[fl(v) for v in c[0][:4]] + list(c[0][4:]), [[m, fl(q)] for m, q in c[1]], c[2]]
                                  for c in cells],
          "ops": [[o[0]] + ([fl(o[1]), o[2]] if o[0] == "refine" else []) for o in ops]}
    ds = [r[2] for r in rs] + [r[3] for r in rs] + bb
    return {"op": op, "kind": "alloc", "stream": "exact" if ok else "decimal", "variant": variant,
            "dims": [min(ds), max(ds)], "note": "", "cand": [["A", bb[0], bb[1]]], "fixed": None}


def netlist_smallest(doc):
    """smallest distance of a tree whose modules have numeric rectangles and a numeric (or no) area"""
    small = []
    for info in doc["Modules"].values():
        rs = info.get("rectangles", [])
        if rs and not isinstance(rs[0], list):
            rs = [rs]
        for r in rs:
            small += [F(r[2]), F(r[3])]
        a = info.get("area")
        if a is None and rs:
            a = sum(float(r[2]) * float(r[3]) for r in rs)
        if a is not None:
            if isinstance(a, bool) or not isinstance(a, (int, float)):
                raise ValueError("area")
            if a > 0:
                small.append(F(math.sqrt(a)))
    return small


def netlist_design(doc, note=""):
    small = netlist_smallest(doc)
    return {"op": {"k": "netlist", "doc": doc}, "kind": "netlist", "stream": "decimal", "variant": None,
            "dims": [min(small), max(small)] if small else None, "cand": [["N", min(small) if small else None]],
            "note": note, "fixed": None}


def rel_stog(rng, d):
    rects = [[F(v) for v in r[:4]] for r in d["op"]["rects"]]
    var = d.get("variant") or "robust"
    out = [tag(copy.deepcopy(d), "self")]

    def mk(rs, note):
        return tag(stog_design(rs, var), note)
    if len(rects) >= 2:
        out.append(mk(rects[::-1], "reorder"))
        out.append(mk(rects[1:] + rects[:1], "reorder"))
        r2 = list(rects)
        rng.shuffle(r2)
        out.append(mk(r2, "reorder"))
    if len(rects) >= 3:
        i = rng.randrange(len(rects))
        out.append(mk(rects[:i] + rects[i + 1:], "drop"))
    i = rng.randrange(len(rects))
    r2 = copy.deepcopy(rects)
    if rng.random() < 0.5:
        r2[i][0] += r2[i][2]                      # one rectangle shifted by its own width
    else:
        r2[i][3] *= 2                             # one rectangle twice as high
    out.append(mk(r2, "onefield"))
    x0, y0, x1, y1 = bbox4(rects)
    r2 = copy.deepcopy(rects)
    r2[i][rng.randrange(2)] += (x1 - x0) * F(1, 2 ** 20) * rng.choice([-1, 1])
    out.append(mk(r2, "nudge"))
    out.append(mk([[r[1], r[0], r[3], r[2]] for r in rects], "transpose"))
    out.append(mk([[x0 + x1 - r[0], r[1], r[2], r[3]] for r in rects], "mirror-x"))
    out.append(mk([[r[0], y0 + y1 - r[1], r[2], r[3]] for r in rects], "mirror-y"))
    s = rng.choice([F(2), F(1, 2)])
    out.append(mk([[v * s for v in r] for r in rects], "scale"))
    # the same rectangles as the cells of an allocation and as two modules of a netlist (same name, other shape)
    if x0 >= 0 and y0 >= 0:
        cells = [[r + [False, False, "_"], [[rng.choice(["M1", "M2"]), F(1, 2)]], 0] for r in rects]
        out.append(tag(alloc_design(cells, [["refine", F(1, 2), 1]], var), "cross"))
    if len(rects) >= 2:
        h = len(rects) // 2
        doc = {"Modules": {"M0": {"hard": True, "rectangles": [[fl(v) for v in r] for r in rects[:h]]},
                           "M1": {"hard": True, "rectangles": [[fl(v) for v in r] for r in rects[h:]]}},
               "Nets": [["M0", "M1"]]}
        out.append(tag(netlist_design(doc), "cross"))
    return out


# --------------------------------------------------------------------------
# allocation
# --------------------------------------------------------------------------
def rel_alloc(rng, d):
    op = d["op"]
    cells = [[[F(v) for v in c[0][:4]] + list(c[0][4:]), [[m, F(q)] for m, q in c[1]], c[2]] for c in op["cells"]]
    ops = [[o[0]] + ([F(o[1]), o[2]] if o[0] == "refine" else []) for o in op["ops"]]
    var = d.get("variant") or "robust"
    out = [tag(copy.deepcopy(d), "self")]

    def mk(cs, os_, note):
        return tag(alloc_design(cs, os_, var), note)
    # the same cells under other operations
    out.append(mk(cells, ops[::-1] if len(ops) > 1 else ops + [["griddify"]], "other-ops"))
    out.append(mk(cells, [["refine", rng.choice([F(0), F(1, 4), F(1, 2), F(15, 16), F(1)]), rng.choice([1, 2])]],
                  "other-ops"))
    out.append(mk(cells, ops[:-1], "other-ops"))
    if len(cells) >= 2:
        out.append(mk(cells[::-1], ops, "reorder"))
        c2 = list(cells)
        rng.shuffle(c2)
        out.append(mk(c2, ops, "reorder"))
        i = rng.randrange(len(cells))
        out.append(mk(cells[:i] + cells[i + 1:], ops, "drop"))
    i = rng.randrange(len(cells))
    c2 = copy.deepcopy(cells)
    c2[i][0][6] = "dsp" if c2[i][0][6] != "dsp" else "_"
    out.append(mk(c2, ops, "retag"))
    c2 = copy.deepcopy(cells)
    c2[i][2] = (c2[i][2] + 1) % 3
    out.append(mk(c2, ops, "onefield"))
    # the same rectangles, other contents: module names exchanged, one ratio changed
    names = sorted({m for c in cells for m, _ in c[1] if m != "FX"})
    if names:
        ren = {n: m for n, m in zip(names, names[1:] + names[:1])} if len(names) > 1 else {names[0]: "Q7"}
        c2 = copy.deepcopy(cells)
        for c in c2:
            c[1] = [[ren.get(m, m), q] for m, q in c[1]]
        out.append(mk(c2, ops, "rename"))
    cand = [k for k, c in enumerate(cells) if c[1] and not c[0][4]]
    if cand:
        k = rng.choice(cand)
        c2 = copy.deepcopy(cells)
        j = rng.randrange(len(c2[k][1]))
        c2[k][1][j][1] = rng.choice([q for q in (F(0), F(1, 8), F(1, 4), F(1, 2), F(3, 4), F(1))
                                     if q != c2[k][1][j][1]])
        out.append(mk(c2, ops, "onefield"))
    # the same rectangles and modules with every ratio low (each cell is refined) / high (none is)
    for q, note in ((F(1, 8), "ratios-low"), (F(1), "ratios-high")):
        c2 = copy.deepcopy(cells)
        for c in c2:
            if not c[0][4]:
                c[1] = [[m, q] for m, _ in c[1][:1]] or [["M1", q]]
        out.append(mk(c2, ops, note))
    rs = [c[0] for c in cells]
    x0, y0, x1, y1 = bbox4(rs)
    c2 = copy.deepcopy(cells)
    c2[i][0][2 + rng.randrange(2)] -= (x1 - x0) * F(1, 2 ** 20)
    out.append(mk(c2, ops, "nudge"))
    out.append(mk([[[c[0][1], c[0][0], c[0][3], c[0][2]] + c[0][4:], c[1], c[2]] for c in cells], ops, "transpose"))
    out.append(mk([[[x0 + x1 - c[0][0]] + c[0][1:], c[1], c[2]] for c in cells], ops, "mirror-x"))
    out.append(mk([[[c[0][0], y0 + y1 - c[0][1]] + c[0][2:], c[1], c[2]] for c in cells], ops, "mirror-y"))
    s = rng.choice([F(2), F(1, 2)])
    out.append(mk([[[v * s for v in c[0][:4]] + c[0][4:], c[1], c[2]] for c in cells], ops, "scale"))
    # the same rectangles as one hard module
    out.append(tag(stog_design([c[0][:4] for c in cells], var), "cross"))
    return out


# --------------------------------------------------------------------------
# netlists (trees and texts)
# --------------------------------------------------------------------------
def num_leaves(t, path=()):
    if isinstance(t, bool):
        return
    if isinstance(t, (int, float)):
        yield path
    elif isinstance(t, dict):
        for k, v in t.items():
            yield from num_leaves(v, path + (k,))
    elif isinstance(t, list):
        for i, v in enumerate(t):
            yield from num_leaves(v, path + (i,))


def bool_leaves(t, path=()):
    if isinstance(t, bool):
        yield path
    elif isinstance(t, dict):
        for k, v in t.items():
            yield from bool_leaves(v, path + (k,))
    elif isinstance(t, list):
        for i, v in enumerate(t):
            yield from bool_leaves(v, path + (i,))


def set_leaf(t, path, f):
    for k in path[:-1]:
        t = t[k]
    t[path[-1]] = f(t[path[-1]])


def transpose_tree(doc):
    out = copy.deepcopy(doc)
    for info in out.get("Modules", {}).values() if isinstance(out.get("Modules"), dict) else []:
        if not isinstance(info, dict):
            continue
        c = info.get("center")
        if isinstance(c, list) and len(c) == 2:
            info["center"] = [c[1], c[0]]
        rs = info.get("rectangles")
        if isinstance(rs, list) and rs:
            if not isinstance(rs[0], list):
                if len(rs) >= 4:
                    info["rectangles"] = [rs[1], rs[0], rs[3], rs[2]] + rs[4:]
            else:
                info["rectangles"] = [[r[1], r[0], r[3], r[2]] + r[4:] if isinstance(r, list) and len(r) >= 4 else r
                                      for r in rs]
    return out


def jsonable(t):
    try:
        json.dumps(t)
        return True
    except (TypeError, ValueError):
        return False


def rel_netlist(rng, d):
    op = d["op"]
    base = {"kind": "netlist", "stream": "decimal", "variant": None, "dims": d.get("dims"), "cand": None,
            "fixed": None, "needs_installer": True}
    out = [tag(copy.deepcopy(d), "self", needs_installer=d.get("cand") is None)]

    def mk(o, note):
        return tag(dict(base, op=o), note)
    if "text" in op:
        txt = op["text"]
        nums = list(re.finditer(r"(?<![\w.])\d+(\.\d+)?(?![\w.])", txt))
        for m in ([nums[-1], nums[len(nums) // 2]] if len(nums) > 40 else []):
            # a long text: the difference lies far behind its beginning
            out.append(mk({"k": "netlist", "text": txt[:m.start()] + "7.25" + txt[m.end():]}, "onefield"))
        for _ in range(3):
            if nums:
                m = rng.choice(nums)
                new = rng.choice(["7", "12", "010", "2.5", "0o11"])
                out.append(mk({"k": "netlist", "text": txt[:m.start()] + new + txt[m.end():]}, "onefield"))
        out.append(mk({"k": "netlist", "text": "%YAML 1.2\n---\n" + txt}, "form"))
        out.append(mk({"k": "netlist", "text": "%YAML 1.1\n---\n" + txt}, "form"))
        for a, b in (("yes", "no"), ("no", "yes"), ("on", "off"), ("off", "on"), ("true", "false")):
            if re.search(rf"\b{a}\b", txt):
                out.append(mk({"k": "netlist", "text": re.sub(rf"\b{a}\b", b, txt, count=1)}, "onefield"))
        lines = txt.split("\n")
        mods = [i for i, ln in enumerate(lines) if ln.startswith("  ")]
        if len(mods) >= 2:
            i, j = mods[0], mods[-1]
            l2 = list(lines)
            l2[i], l2[j] = l2[j], l2[i]
            out.append(mk({"k": "netlist", "text": "\n".join(l2)}, "reorder"))
            # the same names with the descriptions exchanged
            a, b = lines[i].split(":", 1), lines[j].split(":", 1)
            l2 = list(lines)
            l2[i], l2[j] = a[0] + ":" + b[1], b[0] + ":" + a[1]
            out.append(mk({"k": "netlist", "text": "\n".join(l2)}, "swap-shapes"))
        return out
    doc = op["doc"]
    if not isinstance(doc, dict):
        return out
    if jsonable(doc):
        out.append(mk({"k": "netlist", "text": json.dumps(doc)}, "form"))
        out.append(mk({"k": "netlist", "text": "%YAML 1.1\n---\n" + json.dumps(doc)}, "form"))
    leaves = list(num_leaves(doc))
    for _ in range(4):
        if leaves:
            p = rng.choice(leaves)
            d2 = copy.deepcopy(doc)
            set_leaf(d2, p, rng.choice([lambda v: v * 2, lambda v: v + 1, lambda v: v / 2]))
            out.append(mk({"k": "netlist", "doc": d2}, "onefield"))
    bl = list(bool_leaves(doc))
    if bl:
        d2 = copy.deepcopy(doc)
        set_leaf(d2, rng.choice(bl), lambda v: not v)
        out.append(mk({"k": "netlist", "doc": d2}, "onefield"))
    mods = doc.get("Modules")
    nets = doc.get("Nets")
    if isinstance(mods, dict) and len(mods) >= 2:
        names = list(mods)
        out.append(mk({"k": "netlist", "doc": dict(doc, Modules={k: mods[k] for k in names[::-1]})}, "reorder"))
        a, b = rng.sample(names, 2)
        m2 = dict(mods)
        m2[a], m2[b] = mods[b], mods[a]
        out.append(mk({"k": "netlist", "doc": dict(doc, Modules=m2)}, "swap-shapes"))
        m2 = {k: v for k, v in mods.items() if k != a}
        out.append(mk({"k": "netlist", "doc": dict(doc, Modules=m2)}, "drop"))
        m2 = dict(mods)
        m2[a + "_0"] = copy.deepcopy(mods[a])          # names that are prefixes of each other: A and A_0
        out.append(mk({"k": "netlist", "doc": dict(doc, Modules=m2)}, "prefix-name"))
        ren = {a: a + "_0"}
        m2 = {ren.get(k, k): v for k, v in mods.items()}
        n2 = [[ren.get(x, x) if isinstance(x, str) else x for x in n] if isinstance(n, list) else n
              for n in (nets if isinstance(nets, list) else [])]
        out.append(mk({"k": "netlist", "doc": dict(doc, Modules=m2, Nets=n2)}, "rename"))
    if isinstance(nets, list) and nets:
        out.append(mk({"k": "netlist", "doc": dict(doc, Nets=nets[::-1])}, "reorder"))
        i = rng.randrange(len(nets))
        out.append(mk({"k": "netlist", "doc": dict(doc, Nets=nets[:i] + nets[i + 1:])}, "drop"))
        if isinstance(nets[i], list) and len(nets[i]) >= 2:
            n2 = list(nets)
            n2[i] = nets[i][::-1] if isinstance(nets[i][-1], str) else nets[i][:-1][::-1] + nets[i][-1:]
            out.append(mk({"k": "netlist", "doc": dict(doc, Nets=n2)}, "reorder"))
    out.append(mk({"k": "netlist", "doc": transpose_tree(doc)}, "transpose"))
    return out


# --------------------------------------------------------------------------
# SAT posting sequences
# --------------------------------------------------------------------------
FLIP = {"GE": "LE", "LE": "GE", "GT": "LT", "LT": "GT", "EQ": "EQ", "EQ2": "EQ2"}


def rel_post(rng, q):
    """near-duplicates of one post"""
    out = []
    if q["k"] == "ineq":
        out.append(dict(q, decomp=not q["decomp"]))
        out.append(dict(q, b=q["b"] + rng.choice([-2, -1, 1, 2])))
        tot = sum(abs(t[2]) for t in q["lt"] + q["rt"])
        out.append(dict(q, b=rng.choice([-tot - 1, tot + 1])))             # trivially true / trivially false
        out.append(dict(q, op=rng.choice([o for o in FLIP if o != q["op"] and (o != "EQ2" or q.get("via") != "operator")]),
                        via="ctor"))
        # the same inequality written the other way round
        out.append(dict(q, lt=[list(t) for t in q["rt"]], rt=[list(t) for t in q["lt"]], b=-q["b"], op=FLIP[q["op"]]))
        for side in ("lt", "rt"):
            ts = q[side]
            if ts:
                i = rng.randrange(len(ts))
                t2 = [list(t) for t in ts]
                t2[i][1] = not t2[i][1]
                out.append(dict(q, **{side: t2}))                       # one polarity
                t2 = [list(t) for t in ts]
                t2[i][2] = rng.choice([t2[i][2] + 1, t2[i][2] - 1, -t2[i][2], t2[i][2] * 2])
                out.append(dict(q, **{side: t2}))                       # one coefficient
            if len(ts) >= 2:
                out.append(dict(q, **{side: [list(t) for t in ts[::-1]]}))     # the same expression, other order
                t2 = [list(t) for t in ts]
                rng.shuffle(t2)
                out.append(dict(q, **{side: t2}))
                out.append(dict(q, **{side: [list(t) for t in ts[:-1]]}))      # one term less
    elif q["k"] in ("clause", "amoq", "amoh"):
        ls = q["lits"]
        if len(ls) >= 2:
            out.append(dict(q, lits=[list(l) for l in ls[::-1]]))
            out.append(dict(q, lits=[list(l) for l in ls[:-1]]))
        if ls:
            i = rng.randrange(len(ls))
            l2 = [list(l) for l in ls]
            l2[i][1] = not l2[i][1]
            out.append(dict(q, lits=l2))
        if q["k"] == "amoh":
            out.append(dict(q, kk=q["kk"] + rng.choice([-1, 1])))
            out.append(dict(q, k="amoq"))
        if q["k"] == "amoq":
            out.append(dict(q, k="amoh", kk=3))
    elif q["k"] == "imply":
        out.append(dict(q, x=[q["x"][0], not q["x"][1]]))
        if len(q["lits"]) >= 2:
            out.append(dict(q, lits=[list(l) for l in q["lits"][::-1]]))
    return out


def rel_sat(rng, d):
    posts = d["op"]["posts"]
    vs = [q for q in posts if q["k"] == "newvar"]
    body = [q for q in posts if q["k"] != "newvar"]
    base = {"kind": "sat", "stream": "logic", "variant": None, "dims": None, "cand": [], "fixed": None}
    out = [tag(copy.deepcopy(d), "self"),
           tag(dict(base, op={"k": "sat", "posts": copy.deepcopy(posts), "solve": not d["op"].get("solve")}), "self")]

    def mk(ps, note, solve=False):
        return tag(dict(base, op={"k": "sat", "posts": ps, "solve": solve}), note)
    # the variables registered in another order (other numbering), the posts in another order
    v2 = list(vs)
    rng.shuffle(v2)
    out.append(mk(v2 + copy.deepcopy(body), "reorder"))
    out.append(mk(vs[::-1] + copy.deepcopy(body[::-1]), "reorder"))
    if len(body) >= 2:
        out.append(mk(vs + copy.deepcopy(body[:-1]), "drop"))
    # every post replaced by a near-duplicate, one at a time; and all near-duplicates of one post together
    for i, q in enumerate(body):
        rel = rel_post(rng, q)
        if not rel:
            continue
        out.append(mk(vs + copy.deepcopy(body[:i]) + [rng.choice(rel)] + copy.deepcopy(body[i + 1:]), "onefield"))
        out.append(mk(vs + rel, "neighbours", solve=rng.random() < 0.2))
    return out


# --------------------------------------------------------------------------
# legaliser model construction
# --------------------------------------------------------------------------
def legal_design(doc, W, H, t0, dt):
    small = []
    for v in doc["Modules"].values():
        for r in v["rectangles"]:
            small += [F(r[2]), F(r[3])]
        a = v.get("area", sum(r[2] * r[3] for r in v["rectangles"]))
        small.append(F(math.sqrt(a)))
    op = {"k": "legal", "doc": doc, "W": fl(W), "H": fl(H), "t0": t0, "dt": dt}
    return {"op": op, "kind": "legal", "stream": "decimal", "variant": None,
            "dims": [min(small + [F(W), F(H)]), max(small + [F(W), F(H)])], "note": "", "cand": [["N", min(small)]],
            "fixed": None}


def rel_legal(rng, d):
    op = d["op"]
    doc, W, H, t0, dt = op["doc"], F(op["W"]), F(op["H"]), op["t0"], op["dt"]
    out = [tag(copy.deepcopy(d), "self")]

    def mk(doc_, note, W_=W, H_=H, t0_=t0, dt_=dt):
        return tag(legal_design(doc_, W_, H_, t0_, dt_), note)
    # the same netlist on another die, under another schedule
    out.append(mk(doc, "other-die", W_=W * 2))
    out.append(mk(doc, "other-die", W_=H, H_=W))
    out.append(mk(doc, "onefield", t0_=rng.choice([v for v in (0.9, 0.8, 0.5) if v != t0])))
    out.append(mk(doc, "onefield", dt_=rng.choice([v for v in (0.3, 0.1, 1.0) if v != dt])))
    # another netlist on the same die
    mods, nets = doc["Modules"], doc["Nets"]
    names = list(mods)
    out.append(mk({"Modules": {k: mods[k] for k in names[::-1]}, "Nets": nets[::-1]}, "reorder"))
    if nets:
        out.append(mk({"Modules": mods, "Nets": nets[:-1]}, "drop"))
    a = rng.choice(names)
    m2 = copy.deepcopy(mods)
    r = m2[a]["rectangles"][0]
    if "area" in m2[a]:
        m2[a]["area"] = m2[a]["area"] * 2
    else:
        r[0] = r[0] + r[2]
    out.append(mk({"Modules": m2, "Nets": nets}, "onefield"))
    if len(names) >= 2:
        a, b = rng.sample(names, 2)
        m2 = dict(mods)
        m2[a], m2[b] = mods[b], mods[a]
        out.append(mk({"Modules": m2, "Nets": nets}, "swap-shapes"))
    m2 = copy.deepcopy(mods)
    for v in m2.values():
        v["rectangles"] = [[r[1], r[0], r[3], r[2]] + r[4:] for r in v["rectangles"]]
    out.append(mk({"Modules": m2, "Nets": nets}, "transpose", W_=H, H_=W))
    return out


# --------------------------------------------------------------------------
# Strop, default arguments
# --------------------------------------------------------------------------
def rel_strop(rng, d):
    op = d["op"]
    rows = op["matrix"].split()
    base = {"kind": "strop", "stream": "logic", "variant": None, "dims": None, "cand": [], "fixed": None}
    out = [tag(copy.deepcopy(d), "self")]

    def mk(rows_, note, height=None, width=None):
        return tag(dict(base, op={"k": "strop", "matrix": " ".join(rows_), "height": height, "width": width}), note)
    R, C = len(rows), len(rows[0])
    hs = [fl(F(rng.randrange(1, 9), 2)) for _ in range(R)]
    ws = [fl(F(rng.randrange(1, 9), 2)) for _ in range(C)]
    # the same matrix with other (or no) sizes
    out.append(mk(rows, "other-sizes", hs, ws))
    out.append(mk(rows, "other-sizes", hs, None))
    out.append(mk(rows, "other-sizes", None, ws))
    out.append(mk(rows, "other-sizes", None, None))
    i, j = rng.randrange(R), rng.randrange(C)
    r2 = list(rows)
    r2[i] = r2[i][:j] + ("0" if r2[i][j] == "1" else "1") + r2[i][j + 1:]
    out.append(mk(r2, "onefield", op.get("height"), op.get("width")))
    out.append(mk(["".join(rows[r][c] for r in range(R)) for c in range(C)], "transpose", op.get("width"),
                  op.get("height")))
    out.append(mk(rows[::-1], "mirror-y", (op.get("height") or [])[::-1] or None, op.get("width")))
    out.append(mk([r[::-1] for r in rows], "mirror-x", op.get("height"), (op.get("width") or [])[::-1] or None))
    return out


def rel_defaults(rng, d):
    steps = d["op"]["steps"]
    base = {"kind": "defaults", "stream": "logic", "variant": None, "dims": None, "cand": [], "fixed": None}
    out = [tag(copy.deepcopy(d), "self")]

    def mk(s, note):
        return tag(dict(base, op={"k": "defaults", "steps": s}), note)
    out.append(mk(copy.deepcopy(steps[::-1]), "reorder"))
    out.append(mk([["use"]] + copy.deepcopy(steps) + [["use"]], "used"))
    out.append(mk([["use"], ["expr0", "x"], ["ineq0"], ["use"], ["ineq_l", [["a", True, 2]], 1], ["use"]], "used"))
    out.append(mk([s for s in copy.deepcopy(steps) for _ in (0, 1)], "twice"))
    return out


REL = {"die": rel_die, "stog": rel_stog, "alloc": rel_alloc, "netlist": rel_netlist, "sat": rel_sat,
       "legal": rel_legal, "strop": rel_strop, "defaults": rel_defaults}


def rect_numbers(d):
    """[cx, cy, w, h] of every rectangle an operation hands to the library (where the harness predicts its
    candidate tolerance)"""
    op = d["op"]
    k = op["k"]
    if k == "stog":
        return [r[:4] for r in op["rects"]]
    if k == "alloc":
        return [c[0][:4] for c in op["cells"]]
    if k == "die":
        doc = op["doc"]
        if not isinstance(doc, dict):
            return []
        regs = doc.get("regions", [])
        regs = [regs] if regs and not isinstance(regs[0], list) else regs
        return [r[:4] for r in regs] + [r[:4] for r in (d.get("fixed") or [])]
    if k in ("legal", "netlist") and not d.get("needs_installer") and isinstance(op.get("doc"), dict):
        out = []
        for info in op["doc"].get("Modules", {}).values():
            rs = info.get("rectangles", []) if isinstance(info, dict) else []
            rs = [rs] if rs and not isinstance(rs[0], list) else rs
            out += [r[:4] for r in rs]
        return out
    return []


def reaches_guard(d):
    """the rectangle parser refuses negative numbers BEFORE the constructor reaches the 'epsilon defined?' guard;
    the predicted candidate tolerance of such an operation would be wrong, so it is not generated (a mirrored or
    shifted copy of a module that sticks out of the positive quadrant)"""
    try:
        return all(F(r[0]) >= 0 and F(r[1]) >= 0 and F(r[2]) > 0 and F(r[3]) > 0 and
                   (d["op"]["k"] != "alloc" or (F(r[0]) - F(r[2]) / 2 >= 0 and F(r[1]) - F(r[3]) / 2 >= 0))
                   for r in rect_numbers(d))
    except (TypeError, ValueError):
        return False


def relatives(rng, d):
    out = []
    for r in REL[d["kind"]](rng, d):
        ds = r.get("dims")
        if ds is not None and (ds[0] <= 0 or ds[1] <= 0):
            continue                                  # a degenerate rectangle: not a design of comparable scale
        if r["note"] != "rel:self" and not reaches_guard(r):
            continue
        r.setdefault("needs_installer", False)
        out.append(r)
    return out


# --------------------------------------------------------------------------
# the same PATTERN over other coordinates (die / allocation / hard module), grids of 16 .. 100 cells
# --------------------------------------------------------------------------
PATTERN_SHAPES = [(4, 4), (2, 8), (6, 6), (4, 9), (3, 12), (7, 9), (8, 8), (4, 16), (5, 13), (9, 9), (10, 10), (5, 20)]
STEPS = [1, 2, 2, 3, 4, 6]


def line_intervals(rng, n):
    """cell intervals [a, b) of one axis whose ends are exactly the interior lines 1 .. n-1 (and maybe 0 / n):
    one-cell intervals at the odd positions, now and then a two-cell interval followed by the cell that closes it"""
    out, i = [], 1
    while i <= n - 1:
        if i + 2 <= n - 1 and rng.random() < 0.2:
            out += [(i, i + 2), (i + 1, i + 2)] if rng.random() < 0.5 else [(i, i + 2), (i + 1, i + 3)]
            i += 4 if out[-1][1] == i + 3 else 3
        else:
            out.append((i, i + 1))
            i += 2
    return out


def occupancy_pattern(rng, ncols, nrows):
    """index rectangles (i0, j0, i1, j1), pairwise disjoint, whose sides are all the lines of the ncols x nrows grid:
    the intervals of the longer axis are each given an interval of the other one (a generalised diagonal)"""
    for _ in range(200):
        xi, yi = line_intervals(rng, ncols), line_intervals(rng, nrows)
        if len(xi) >= len(yi):
            ys = yi + [rng.choice(yi) for _ in range(len(xi) - len(yi))]
            rng.shuffle(ys)
            rects = [(a[0], b[0], a[1], b[1]) for a, b in zip(xi, ys)]
        else:
            xs = xi + [rng.choice(xi) for _ in range(len(yi) - len(xi))]
            rng.shuffle(xs)
            rects = [(a[0], b[0], a[1], b[1]) for a, b in zip(xs, yi)]
        ok = all(not (min(r[2], o[2]) > max(r[0], o[0]) and min(r[3], o[3]) > max(r[1], o[1]))
                 for k, r in enumerate(rects) for o in rects[:k])
        if ok and cuts_complete(ncols, nrows, rects):
            return rects
    return [(i, i, i + 1, i + 1) for i in range(1, min(ncols, nrows), 2)]


def lines_of(steps, q, P):
    out = [F(0)]
    for s in steps:
        out.append(out[-1] + s * q * P)
    return out


def coordinate_variants(rng, ncols, nrows):
    """step vectors (sx, sy) for one index pattern: a base one; the others keep the number of lines and change where
    they are - so the ORDER BY AREA / BY ASPECT RATIO of the rectangles spanned by the lines changes"""
    sx = [rng.choice(STEPS) for _ in range(ncols)]
    sy = [rng.choice(STEPS) for _ in range(nrows)]
    out = [("base", sx, sy)]
    out.append(("rescale", [rng.choice(STEPS) for _ in range(ncols)], [rng.choice(STEPS) for _ in range(nrows)]))
    out.append(("rescale-x", [rng.choice(STEPS) for _ in range(ncols)], sy))
    for nm, ax in (("wide-column", 0), ("tall-row", 1)):
        v = [list(sx), list(sy)]
        k = rng.choice([0, 0, len(v[ax]) - 1, rng.randrange(len(v[ax]))])
        v[ax] = [1 if i != k else rng.choice([12, 16, 20, 24]) for i in range(len(v[ax]))]
        v[1 - ax] = [rng.choice([1, 1, 2]) for _ in v[1 - ax]]
        out.append((nm, v[0], v[1]))
    if ncols == nrows:
        out.append(("transpose", list(sy), list(sx)))
        out.append(("transpose-wide", list(out[3][2]), list(out[3][1])))
    out.append(("reversed", sx[::-1], sy[::-1]))
    # one interior line moved: a step taken from one cell and given to its neighbour
    v = list(sx)
    if len(v) >= 2:
        k = rng.randrange(len(v) - 1)
        v[k], v[k + 1] = v[k] + v[k + 1] - F(1, 2), F(1, 2)
        out.append(("line-moved", v, sy))
    out.append(("scale", [2 * s for s in sx], [2 * s for s in sy]))
    return out


def pattern_family(rng, P, kind, shape=None):
    """designs of `kind` (die / alloc / stog) that all have the SAME index pattern - the same occupancy matrix of the
    grid of cut coordinates, the same regions / cells / rectangles in terms of line numbers - over different line
    coordinates (a memo table keyed by the pattern alone answers the later ones with the first one's geometry).
    Grids of more than 20 cells are compared by digest only (stream exact-large: the cost of the Coq models)."""
    ncols, nrows = shape or rng.choice(PATTERN_SHAPES)
    if rng.random() < 0.5:
        ncols, nrows = nrows, ncols
    q = rng.choice([F(1, 2), F(1), F(1)])
    large = ncols * nrows > 20
    out = []
    variants = coordinate_variants(rng, ncols, nrows)
    if kind == "die":
        rects = occupancy_pattern(rng, ncols, nrows)
        tagpool = rng.sample(TAGS, 3)
        tags = [rng.choice(tagpool) for _ in rects]
        refine = [rng.choice([1.5, 2.0, 3.0]), rng.choice([1, 4, 9])] if rng.random() < 0.3 else None
        for nm, sx, sy in variants:
            xs, ys = lines_of(sx, q, P), lines_of(sy, q, P)
            if rng.random() < 0.3:
                tags = [rng.choice(tagpool) for _ in rects]        # other kinds of regions, same cells
            bx = [box_of_index(xs, ys, r, t) for r, t in zip(rects, tags)]
            fx = []
            if rng.random() < 0.15:
                bx, fx = bx[1:], [bx[0][:4]]                        # one of them a fixed rectangle of a netlist
            m = tag(die_design(xs[-1], ys[-1], bx, fx, "robust", refine=refine), "pattern:" + nm)
            if large and m["stream"] == "exact":
                m["stream"] = "exact-large"
            out.append(m)
    elif kind == "alloc":
        mods = ["M1", "M2", "M3", "M4"]
        spec = {}
        for j in range(nrows):
            for i in range(ncols):
                if rng.random() < 0.92:
                    al, left = [], F(1)
                    for m in rng.sample(mods, rng.choice([0, 1, 1, 2])):
                        x = rng.choice([F(1, 8), F(1, 4), F(1, 2), F(3, 4)])
                        if x <= left:
                            al.append([m, x])
                            left -= x
                    spec[(i, j)] = al
        ops = [rng.choice([["refine", rng.choice([F(1, 4), F(1, 2), F(15, 16)]), 1], ["griddify"], ["uniform"]])
               for _ in range(rng.choice([1, 2]))]
        for nm, sx, sy in variants:
            xs, ys = lines_of(sx, q, P), lines_of(sy, q, P)
            cells = [[box_of_index(xs, ys, (i, j, i + 1, j + 1), None)[:4] + [False, False, "_"], [list(a) for a in al], 0]
                     for (i, j), al in spec.items()]
            m = tag(alloc_design(cells, ops, "robust"), "pattern:" + nm)
            if large and m["stream"] == "exact":
                m["stream"] = "exact-large"
            out.append(m)
    else:
        n, k = ncols, nrows
        r0 = rng.randrange(1, max(2, k - 1))
        r1 = rng.randrange(r0 + 1, max(r0 + 2, k))
        r1 = min(r1, k - 1) if k > 2 else r1
        rects = [(1, r0, max(2, n - 1), r1)]                       # the trunk
        used = {"n": [], "s": []}
        for a, b in line_intervals(rng, n):
            if b > max(2, n - 1) or a < 1:
                continue
            side = rng.random()
            sd = "n" if side < 0.45 and r1 < k else "s" if side < 0.9 and r0 > 0 else None
            if sd is None or any(min(b, d) > max(a, c) for c, d in used[sd]):
                continue                                                     # branches of one side never overlap
            used[sd].append((a, b))
            if sd == "n":
                rects.append((a, r1, b, rng.randrange(r1 + 1, k + 1)))       # north
            else:
                rects.append((a, rng.randrange(0, r0), b, r0))               # south
        if rng.random() < 0.5 and n - 1 >= 2:
            rects.append((0, r0, 1, r1))                                     # west
        for nm, sx, sy in variants:
            xs, ys = lines_of(sx, q, P), lines_of(sy, q, P)
            rs = [box_of_index(xs, ys, r, None)[:4] for r in rects if r[0] < r[2] and r[1] < r[3]]
            if len(rs) < 2:
                continue
            m = tag(stog_design(rs, "robust"), "pattern:" + nm)
            if len(rs) > 8 and m["stream"] == "exact":
                m["stream"] = "exact-large"
            out.append(m)
    return [m for m in out if m["dims"][0] > 0 and reaches_guard(m)]
