"""Common machinery of the FRAME verification checks.

Every check:  (1) builds the Coq development (incremental `make`), re-checks the
property's theorem file and reads its `Print Assumptions` output;  (2) runs the
correspondence: a seeded generator produces cases, the real implementation
(imported from the repository working tree) is run on them, the cases and the
implementation's outputs are written as Gallina terms, and `coqc` evaluates the
model's comparison on each (`vm_compute`);  (3) on any disagreement or broken
theorem runs the direct property oracle to find a failing input, writes a
replay file and prints the VIOLATION line;  (4) writes the evidence file.
"""
from __future__ import annotations

import fcntl
import hashlib
import json
import os
import random
import re
import shutil
import subprocess
import sys
import time
from fractions import Fraction
from pathlib import Path

VERIF = Path(__file__).resolve().parent.parent
COQ = VERIF / "coq"
REPO = Path(os.environ.get("VERIF_REPO", "/repo"))
WORK_ROOT = VERIF / ".work"

ALLOWED_AXIOMS = {
    # standard-library axioms named in DESIGN.md section 6 (Reals-based files only)
    "ClassicalDedekindReals.sig_forall_dec",
    "ClassicalDedekindReals.sig_not_dec",
    "FunctionalExtensionality.functional_extensionality_dep",
    "Classical_Prop.classic",
}

FORBIDDEN = re.compile(
    r"\b(Admitted|admit|Axiom|Axioms|Parameter|Parameters|Conjecture|Conjectures|"
    r"Admit Obligations|bypass_check|Unset Guard Checking|Unset Positivity Checking|"
    r"Unset Universe Checking|type-in-type|impredicative-set)\b")


# --------------------------------------------------------------------------
# Gallina printers
# --------------------------------------------------------------------------
def frac(x) -> Fraction:
    """Exact rational value of a Python number (floats are dyadic rationals)."""
    if isinstance(x, Fraction):
        return x
    if isinstance(x, bool):
        raise TypeError("bool is not a number here")
    if isinstance(x, int):
        return Fraction(x)
    if isinstance(x, float):
        if x != x or x in (float("inf"), float("-inf")):
            raise ValueError("non-finite float")
        return Fraction(*x.as_integer_ratio())
    raise TypeError(type(x))


def gq(x) -> str:
    f = frac(x)
    n, d = f.numerator, f.denominator
    ns = f"({n})" if n < 0 else f"{n}"
    return f"(qc {ns} {d})"


def gz(n: int) -> str:
    return f"({n})%Z" if n < 0 else f"{n}%Z"


def gnat(n: int) -> str:
    assert 0 <= n < 5000
    return f"{n}%nat"


def gbool(b) -> str:
    return "true" if b else "false"


def gstr(s: str) -> str:
    assert all(32 <= ord(c) < 127 for c in s), s
    return '"' + s.replace('"', '""') + '"%string'


def glist(items) -> str:
    return "[" + "; ".join(items) + "]"


def gopt(x) -> str:
    return "None" if x is None else f"(Some {x})"


def gpair(a, b) -> str:
    return f"({a}, {b})"


# --------------------------------------------------------------------------
# context
# --------------------------------------------------------------------------
class Ctx:
    def __init__(self, pid: str, tier: str, seed: int):
        self.pid, self.tier, self.seed = pid, tier, seed
        self.rng = random.Random(f"{pid}-{seed}")
        self.t0 = time.time()
        self.work = WORK_ROOT / f"{pid}-{os.getpid()}"
        if self.work.exists():
            shutil.rmtree(self.work)
        self.work.mkdir(parents=True)
        self.notes: list[str] = []

    def cleanup(self):
        shutil.rmtree(self.work, ignore_errors=True)

    def quick(self) -> bool:
        return self.tier == "quick"


# --------------------------------------------------------------------------
# Coq build and theorem re-check
# --------------------------------------------------------------------------
def run(cmd, cwd=None, timeout=1800, env=None):
    p = subprocess.run(cmd, cwd=cwd, timeout=timeout, env=env, stdout=subprocess.PIPE,
                       stderr=subprocess.STDOUT, text=True)
    return p.returncode, p.stdout


def coq_build() -> tuple[bool, str]:
    """Incremental full (.vo) build of the development, serialised by a lock."""
    WORK_ROOT.mkdir(exist_ok=True)
    with open(WORK_ROOT / "build.lock", "w") as lk:
        fcntl.flock(lk, fcntl.LOCK_EX)
        run([sys.executable, str(VERIF / "tools" / "mkcoqproject.py")])
        if not (COQ / "Makefile").exists() or \
                (COQ / "Makefile").stat().st_mtime < (COQ / "_CoqProject").stat().st_mtime:
            rc, out = run(["coq_makefile", "-f", "_CoqProject", "-o", "Makefile"], cwd=COQ)
            if rc != 0:
                return False, out
        rc, out = run(["make", "-j16"], cwd=COQ, timeout=3000)
        return rc == 0, out


def scan_forbidden() -> list[str]:
    bad = []
    for p in sorted(COQ.rglob("*.v")):
        txt = p.read_text()
        txt = re.sub(r"\(\*.*?\*\)", " ", txt, flags=re.S)
        for m in FORBIDDEN.finditer(txt):
            bad.append(f"{p.relative_to(COQ)}: {m.group(0)}")
    cp = (COQ / "_CoqProject").read_text()
    for flag in ("-type-in-type", "-impredicative-set", "-vos", "-vok", "-noinit"):
        if flag in cp:
            bad.append(f"_CoqProject: {flag}")
    return bad


def theorem_check(pid: str) -> dict:
    """Re-compile Properties/<pid>.v and read the Print Assumptions output."""
    src = COQ / "Properties" / f"{pid}.v"
    res = {"file": str(src.relative_to(VERIF)), "theorems": [], "ok": False, "axioms": [], "log": ""}
    if not src.exists():
        res["log"] = "no theorem file"
        return res
    text = src.read_text()
    stripped = re.sub(r"\(\*.*?\*\)", " ", text, flags=re.S)
    names = re.findall(r"^\s*(?:Theorem|Corollary)\s+([A-Za-z0-9_']+)", stripped, flags=re.M)
    printed = re.findall(r"Print Assumptions\s+([A-Za-z0-9_']+)\s*\.", stripped)
    # the file may contain only statements closed by `exact`
    proofs = re.findall(r"Proof\.(.*?)Qed\.", stripped, flags=re.S)
    bad_proofs = [p.strip() for p in proofs if not re.fullmatch(r"\s*exact\s+[^.]*(\.[A-Za-z_][^.]*)*\.\s*", p)]
    rc, out = run(["coqc", "-Q", ".", "FrameModel", f"Properties/{pid}.v"], cwd=COQ, timeout=900)
    res["log"] = out[-4000:]
    if rc != 0:
        return res
    # split the output into one block per Print Assumptions
    blocks = re.split(r"(?=Closed under the global context|Axioms:)", out)
    blocks = [b for b in blocks if b.startswith("Closed") or b.startswith("Axioms:")]
    axioms: set[str] = set()
    okcount = 0
    for b in blocks:
        if b.startswith("Closed"):
            okcount += 1
            continue
        names_ax = re.findall(r"^([A-Za-z_][A-Za-z0-9_.']*)\s*:", b[len("Axioms:"):], flags=re.M)
        axioms.update(names_ax)
        if all(a in ALLOWED_AXIOMS for a in names_ax):
            okcount += 1
    res["theorems"] = names
    res["axioms"] = sorted(axioms)
    res["discharged"] = okcount if not bad_proofs else 0
    res["ok"] = (len(names) > 0 and set(names) == set(printed) and okcount == len(names)
                 and len(blocks) == len(names) and not bad_proofs)
    if bad_proofs:
        res["log"] += "\nproofs not of the form `exact ...`: " + repr(bad_proofs[:3])
    return res


def coqchk(pid: str) -> dict:
    """Thorough tier: re-check the compiled property file and everything it depends on with the
    independent checker and record the axioms it reports."""
    rc, out = run(["timeout", "1700", "coqchk", "-silent", "-o", "-Q", ".", "FrameModel", f"FrameModel.Properties.{pid}"],
                  cwd=COQ, timeout=1800)
    ax = []
    m = re.search(r"\* Axioms:(.*?)\n\s*\n\* Constants/Inductives relying on type-in-type", out, flags=re.S)
    if m:
        ax = [a.strip() for a in m.group(1).replace("<none>", "").split("\n") if a.strip()]
    clean = all(re.search(rf"\* {k}: <none>", out) for k in (
        "Constants/Inductives relying on type-in-type", "Constants/Inductives relying on unsafe \\(co\\)fixpoints",
        "Inductives whose positivity is assumed"))
    return {"ok": rc == 0 and clean, "axioms": ax, "tail": out[-600:]}


# --------------------------------------------------------------------------
# evaluating the model inside Coq
# --------------------------------------------------------------------------
def coq_eval_bools(ctx: Ctx, header: str, exprs: list[str], shard: int = 300,
                   tag: str = "cases") -> list[bool | None]:
    """Evaluate each Gallina boolean expression with vm_compute.  Returns one
    bool per expression (None where Coq failed)."""
    files = []
    for k in range(0, len(exprs), shard):
        chunk = exprs[k:k + shard]
        name = f"{tag}_{k // shard}"
        body = [header, "Definition results : list bool := ["]
        body.append(";\n".join(f"  ({e})" for e in chunk))
        body.append("].\nEval vm_compute in results.\n")
        (ctx.work / f"{name}.v").write_text("\n".join(body))
        files.append((name, len(chunk)))
    results: list[bool | None] = []
    procs = []
    maxpar = 12
    outs = {}
    pending = list(files)
    running = []
    while pending or running:
        while pending and len(running) < maxpar:
            name, n = pending.pop(0)
            p = subprocess.Popen(["timeout", "900", "coqc", "-Q", str(COQ), "FrameModel", f"{name}.v"],
                                 cwd=ctx.work, stdout=subprocess.PIPE, stderr=subprocess.STDOUT, text=True)
            running.append((name, n, p))
        name, n, p = running.pop(0)
        out, _ = p.communicate()
        outs[name] = (p.returncode, out, n)
    for name, n in files:
        rc, out, n = outs[name]
        vals = None
        if rc == 0:
            m = re.search(r"=\s*\[(.*?)\]\s*:\s*list bool", out, flags=re.S)
            if m:
                toks = [t.strip() for t in m.group(1).split(";") if t.strip()]
                if len(toks) == n and all(t in ("true", "false") for t in toks):
                    vals = [t == "true" for t in toks]
        if vals is None:
            ctx.notes.append(f"coqc failed on {name}.v: rc={rc} {out[-1500:]}")
            vals = [None] * n
        results.extend(vals)
    return results


def coq_eval_terms(ctx: Ctx, header: str, exprs: list[str], tag: str = "show") -> list[str]:
    """Ask Coq to print the value of each expression (used for replay files)."""
    outs = []
    for i, e in enumerate(exprs[:20]):
        name = f"{tag}_{i}"
        (ctx.work / f"{name}.v").write_text(f"{header}\nEval vm_compute in ({e}).\n")
        rc, out = run(["timeout", "300", "coqc", "-Q", str(COQ), "FrameModel", f"{name}.v"], cwd=ctx.work)
        outs.append(re.sub(r"\s+", " ", out).strip()[:3000])
    return outs


# --------------------------------------------------------------------------
# findings, evidence, verdict
# --------------------------------------------------------------------------
def load_findings(pid: str) -> list[dict]:
    p = VERIF / "known_findings.json"
    if not p.exists():
        return []
    return [f for f in json.loads(p.read_text()).get("findings", []) if f.get("property") == pid]


def canon_hash(obj) -> str:
    return hashlib.sha1(json.dumps(obj, sort_keys=True, default=str).encode()).hexdigest()


def write_replay(ctx: Ctx, n: int, payload: dict) -> str:
    d = VERIF / "replays"
    d.mkdir(exist_ok=True)
    path = d / f"{ctx.pid}-{ctx.seed}-{n}.json"
    payload = dict(payload)
    payload.setdefault("property", ctx.pid)
    payload.setdefault("seed", ctx.seed)
    payload.setdefault("tier", ctx.tier)
    payload.setdefault("replay_cmd", f"./check {ctx.pid} --replay {path}")
    path.write_text(json.dumps(payload, indent=1, default=str))
    return str(path)


def write_evidence(ctx: Ctx, thm: dict, coverage: dict, violations: int, assumptions: list[str]):
    cov = {
        "obligations": max(len(thm.get("theorems", [])), 1),
        "discharged": int(thm.get("discharged", 0)),
        "checker_cmd": f"make -C coq -j16 && coqc -Q coq FrameModel coq/Properties/{ctx.pid}.v "
                       f"(Print Assumptions under every theorem)",
        "trusted_base": [
            "Coq 8.16.1 kernel (coqc), vm_compute for evaluating the model on the correspondence cases",
            "axioms reported by Print Assumptions: " + (", ".join(thm.get("axioms", [])) or "none (closed under the global context)"),
            "hand-written Gallina model tied to /repo by the correspondence harness (harness/*.py): generators, Gallina printers, comparators",
            "binary64 rounding is modelled by exact rationals (exact dyadic stream compared exactly)",
        ],
        "theorems": thm.get("theorems", []),
    }
    if "coqchk" in thm:
        cov["coqchk"] = {"ok": thm["coqchk"]["ok"], "axioms_of_all_loaded_libraries": thm["coqchk"]["axioms"]}
    cov.update(coverage)
    ev = {
        "property_id": ctx.pid, "tier": ctx.tier, "seed": ctx.seed, "level": "proof",
        "coverage": cov, "assumptions": assumptions,
        "wall_s": round(time.time() - ctx.t0, 2), "violations": violations,
    }
    # evidence/ holds runs against /repo only; a run pointed at another copy (VERIF_REPO, used by the seeded-change
    # tools) records what it covered under .work/evidence-other/ so that the registered evidence is never overwritten
    d = VERIF / "evidence" if REPO == Path("/repo") else VERIF / ".work" / "evidence-other"
    d.mkdir(parents=True, exist_ok=True)
    (d / f"{ctx.pid}.json").write_text(json.dumps(ev, indent=1, default=str))


class Outcome:
    """Collected by a property module during a run."""

    def __init__(self):
        self.evaluations = 0
        self.distinct: set[str] = set()
        self.samples: list = []
        self.rule = ""
        self.dist: dict[str, int] = {}
        self.disagreements: list[dict] = []   # model vs implementation
        self.failures: list[dict] = []        # direct oracle: property fails on the implementation
        self.extra: dict = {}

    def count(self, key: str, n: int = 1):
        self.dist[key] = self.dist.get(key, 0) + n

    def add_case(self, case, nontrivial: bool):
        self.evaluations += 1
        if nontrivial:
            self.distinct.add(canon_hash(case))
        if len(self.samples) < 4:
            self.samples.append(case)


def finish(ctx: Ctx, mod, thm: dict, forbidden: list[str], build_ok: bool, build_log: str,
           out: Outcome) -> int:
    """Decide, print KNOWN-FINDING / VIOLATION lines, write evidence. Returns exit code."""
    findings = load_findings(ctx.pid)
    open_keys = {f["key"]: f for f in findings if f.get("status") == "open"}
    violations = 0
    nrep = 0
    printed_known = set()

    def known(key):
        return key in open_keys

    # 1. proof side
    proof_broken = None
    if forbidden:
        proof_broken = "forbidden constructs in the development: " + "; ".join(forbidden[:5])
    elif not build_ok:
        proof_broken = "Coq build failed: " + build_log[-1500:]
    elif not thm["ok"]:
        proof_broken = f"theorem file {thm['file']} does not check: " + thm["log"][-1500:]

    # 2. oracle failures (property fails on the implementation for a concrete input)
    seen_fail_keys = set()
    for f in out.failures:
        key = f.get("key", "")
        if known(key):
            printed_known.add(key)
            continue
        if key in seen_fail_keys and nrep >= 3:
            continue
        seen_fail_keys.add(key)
        nrep += 1
        path = write_replay(ctx, nrep, {"kind": "property-fails-on-implementation", **f})
        print(f"VIOLATION property={ctx.pid} replay={path}")
        violations += 1
        if nrep >= 5:
            break

    # 3. correspondence disagreements not explained by an oracle failure
    unexplained = [d for d in out.disagreements if not d.get("explained")]
    unexplained = [d for d in unexplained if not known(d.get("key", ""))]
    for d in out.disagreements:
        if known(d.get("key", "")):
            printed_known.add(d["key"])
    if unexplained and violations == 0:
        d = unexplained[0]
        nrep += 1
        path = write_replay(ctx, nrep, {
            "kind": "correspondence-broken",
            "what": "the model and the implementation disagree on this case and the direct oracle "
                    "found no input on which the property itself fails",
            "correspondence": f"harness/props/{ctx.pid.lower()}.py", "n_disagreements": len(unexplained), **d})
        print(f"VIOLATION property={ctx.pid} replay={path} no-failing-input-found")
        violations += 1
    if proof_broken and violations == 0:
        nrep += 1
        path = write_replay(ctx, nrep, {"kind": "proof-broken", "what": proof_broken,
                                        "theorems": thm.get("theorems", [])})
        print(f"VIOLATION property={ctx.pid} replay={path} no-failing-input-found")
        violations += 1

    for key in sorted(open_keys):
        # listed findings are printed on every run in which they are still observed
        if key in printed_known:
            print(f"KNOWN-FINDING: property={ctx.pid} {open_keys[key]['what']}")
    for n in ctx.notes[:10]:
        print("note:", n[:2000])

    coverage = {
        "evaluations": out.evaluations,
        "distinct_nontrivial": len(out.distinct),
        "rule": out.rule,
        "samples": out.samples[:4],
        "distribution": out.dist,
        "disagreements_model_vs_impl": len(out.disagreements),
        "oracle_failures": len(out.failures),
        "known_findings_observed": sorted(printed_known),
    }
    coverage.update(out.extra)
    write_evidence(ctx, thm, coverage, violations, getattr(mod, "ASSUMPTIONS", []))
    print(f"{ctx.pid}: tier={ctx.tier} seed={ctx.seed} theorems={thm.get('discharged', 0)}/"
          f"{len(thm.get('theorems', []))} cases={out.evaluations} distinct_nontrivial={len(out.distinct)} "
          f"disagreements={len(out.disagreements)} oracle_failures={len(out.failures)} "
          f"violations={violations} wall={time.time() - ctx.t0:.1f}s")
    return 1 if violations else 0
