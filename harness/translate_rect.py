"""Fail-closed translator: pure methods of frame.geometry.geometry.Rectangle -> Gallina.

This is the second tie between the Coq development and the source (besides the
differential correspondence): on every C18 run the methods below are re-read
from the repository's CURRENT geometry.py with `ast`, translated statement by
statement into Gallina definitions `g_<method>` (coq work dir, Gen/RectGen.v),
and `harness/gen/RectGenOk.v.in` proves each `g_<method>` equal to the
hand-written model function the C18 theorems are about.  Anything the
translator does not understand raises TranslationError (the check then reports
the correspondence as broken) - it never guesses.

Supported subset: assignments to names / tuples of names / `r.center, r.shape =`,
if/elif/else, return, assert, docstrings; expressions over numbers with
+ - * /, comparisons (chains), and/or/not, conditional expressions, min/max/abs,
attribute paths of rectangles / points / shapes / bounding boxes, calls of other
translated methods, Rectangle.distance_epsilon()/area_epsilon() (parameters),
almost_eq, StogLocation constants, `x in [a, b]`.

Helpers: a call `Rectangle._h(...)`, `self._h(...)`, `r._h(...)` (static, class or instance method) or an
attribute `self._p` (property) of the class that is not one of METHODS is translated ON DEMAND from
its own definition and inlined at the call site (arguments bound to fresh temporaries first, then to the
helper's parameter names; recursion is refused).  Parameter types of a helper come from its annotations
(float/int -> number, bool, Rectangle, Point, Shape, BoundingBox).  A helper (or a conditional
expression) may return None: the value then has an option type, which a caller can only use after the
test `if v is None:` / `if v is not None:` (translated to a `match`; inside the non-None branch the
name is the plain value).  Everything else about an optional value raises TranslationError.
"""
from __future__ import annotations

import ast
from fractions import Fraction
from pathlib import Path


class TranslationError(Exception):
    pass


METHODS = ["bounding_box", "area", "point_inside", "is_inside", "touches", "area_overlap", "overlap",
           "find_location", "split_horizontal", "split_vertical", "split", "x_cuttable", "y_cuttable",
           "__mul__", "__eq__", "aspect_ratio"]
PROPERTIES = {"bounding_box", "area", "aspect_ratio"}        # accessed without call syntax
GNAME = {"__mul__": "g_mul", "__eq__": "g_eq"}
PARAM_TYPES = {"self": "rect", "r": "rect", "other": "rect", "p": "point", "x": "num", "y": "num", "ratio": "num"}
COQ_TYPES = {"rect": "Rect", "point": "(Qc * Qc)%type", "num": "Qc"}
LOCS = {"TRUNK", "NORTH", "SOUTH", "EAST", "WEST", "NO_POLYGON"}


def gname(m):
    return GNAME.get(m, "g_" + m)


def num(v) -> str:
    if isinstance(v, bool):
        raise TranslationError("bool constant used as number")
    f = Fraction(v)
    n = f"({f.numerator})" if f.numerator < 0 else f"{f.numerator}"
    return f"(qc {n} {f.denominator})"


ANNOT_TYPES = {"float": "num", "int": "num", "bool": "bool", "Rectangle": "rect", "Point": "point", "Shape": "shape",
               "BoundingBox": "bb"}
# result types of the translated methods when called from another method
METHOD_RESULT = {"area_overlap": "num", "overlap": "bool", "is_inside": "bool", "touches": "bool",
                 "find_location": "loc", "x_cuttable": "bool", "y_cuttable": "bool"}
_counter = [0]


def fresh(prefix="a"):
    _counter[0] += 1
    return f"{prefix}_{_counter[0]}"


def decorators(node) -> set:
    out = set()
    for d in node.decorator_list:
        if isinstance(d, ast.Name):
            out.add(d.id)
        elif isinstance(d, ast.Attribute):
            out.add(d.attr)
    return out


def annot_type(a) -> str | None:
    """type named by a parameter annotation; None if there is none; TranslationError if not understood"""
    if a is None:
        return None
    if isinstance(a, ast.Constant) and isinstance(a.value, str):
        name = a.value
    elif isinstance(a, ast.Name):
        name = a.id
    else:
        raise TranslationError("parameter annotation " + ast.dump(a)[:60])
    if name not in ANNOT_TYPES:
        raise TranslationError(f"parameter annotation {name}")
    return ANNOT_TYPES[name]


class Fn:
    def __init__(self, node: ast.FunctionDef, cls_defs: dict | None = None, stack: tuple = ()):
        self.node = node
        self.name = node.name
        self.env: dict[str, str] = {}
        self.cls_defs = cls_defs or {}
        self.stack = stack
        self.ret_types: set[str] = set()
        ret_none = any(isinstance(n, ast.Return) and n.value is not None and
                       any(isinstance(c, ast.Constant) and c.value is None for c in ast.walk(n.value))
                       for n in ast.walk(node))
        self.optional = any(isinstance(n, ast.Assert) for n in ast.walk(node)) or ret_none or any(
            isinstance(n, ast.Return) and n.value is None for n in ast.walk(node)) or any(
            isinstance(n, ast.Attribute) and n.attr in ("split_vertical", "split_horizontal") for n in ast.walk(node))

    # ---------- expressions: returns (gallina, type) ----------
    def expr(self, e) -> tuple[str, str]:
        if isinstance(e, ast.Constant):
            if isinstance(e.value, bool):
                return ("true" if e.value else "false"), "bool"
            if isinstance(e.value, (int, float)):
                return num(e.value), "num"
            if e.value is None:
                return "None", "none"
            raise TranslationError(f"constant {e.value!r}")
        if isinstance(e, ast.Name):
            if e.id not in self.env:
                raise TranslationError(f"unknown name {e.id}")
            if self.env[e.id] == "none":
                raise TranslationError(f"{e.id} is None here")
            return "v_" + e.id, self.env[e.id]
        if isinstance(e, ast.UnaryOp):
            a, t = self.expr(e.operand)
            if isinstance(e.op, ast.Not) and t == "bool":
                return f"(negb {a})", "bool"
            if isinstance(e.op, ast.USub) and t == "num":
                return f"(- {a})", "num"
            raise TranslationError("unary operator")
        if isinstance(e, ast.BinOp):
            a, ta = self.expr(e.left)
            b, tb = self.expr(e.right)
            if ta != "num" or tb != "num":
                raise TranslationError("arithmetic on non-numbers")
            op = {ast.Add: "+", ast.Sub: "-", ast.Mult: "*", ast.Div: "/"}.get(type(e.op))
            if op is None:
                raise TranslationError("binary operator")
            return f"({a} {op} {b})", "num"
        if isinstance(e, ast.BoolOp):
            parts = [self.expr(v) for v in e.values]
            if any(t != "bool" for _, t in parts):
                raise TranslationError("and/or on non-booleans")
            op = " && " if isinstance(e.op, ast.And) else " || "
            out = parts[0][0]
            for p, _ in parts[1:]:
                out = f"({out}{op}{p})"
            return out, "bool"
        if isinstance(e, ast.Compare):
            items = [e.left] + list(e.comparators)
            res = []
            for l, op, r in zip(items, e.ops, items[1:]):
                res.append(self.compare(l, op, r))
            out = res[0]
            for p in res[1:]:
                out = f"({out} && {p})"
            return out, "bool"
        if isinstance(e, ast.IfExp):
            nt = self.none_test(e.test)
            if nt is not None:
                name, is_none = nt
                base = self.env[name][4:]
                saved = dict(self.env)
                self.env[name] = "none" if is_none else base
                a, ta = self.expr(e.body)
                self.env = dict(saved)
                self.env[name] = base if is_none else "none"
                b, tb = self.expr(e.orelse)
                self.env = saved
                (a, ta), (b, tb) = self.unify(a, ta, b, tb)
                (n_br, s_br) = (a, b) if is_none else (b, a)
                return f"(match v_{name} with None => {n_br} | Some v_{name} => {s_br} end)", ta
            c, tc = self.expr(e.test)
            a, ta = self.expr(e.body)
            b, tb = self.expr(e.orelse)
            if tc != "bool":
                raise TranslationError("conditional expression")
            (a, ta), (b, tb) = self.unify(a, ta, b, tb)
            return f"(if {c} then {a} else {b})", ta
        if isinstance(e, ast.Attribute):
            return self.attribute(e)
        if isinstance(e, ast.Call):
            return self.call(e)
        if isinstance(e, ast.Tuple):
            parts = [self.expr(v) for v in e.elts]
            if len(parts) == 2 and all(t == "rect" for _, t in parts):
                return f"({parts[0][0]}, {parts[1][0]})", "rectpair"
            raise TranslationError("tuple expression")
        raise TranslationError(f"expression {type(e).__name__}")

    @staticmethod
    def unify(a, ta, b, tb):
        """the two branches of a conditional: equal types, or None against a value (-> option)"""
        if ta == tb and ta != "none":
            return (a, ta), (b, tb)
        if ta == "none" and tb != "none":
            t = tb if tb.startswith("opt:") else "opt:" + tb
            return ("None", t), ((b if tb.startswith("opt:") else f"(Some {b})"), t)
        if tb == "none" and ta != "none":
            t = ta if ta.startswith("opt:") else "opt:" + ta
            return ((a if ta.startswith("opt:") else f"(Some {a})"), t), ("None", t)
        if ta.startswith("opt:") and ta[4:] == tb:
            return (a, ta), (f"(Some {b})", ta)
        if tb.startswith("opt:") and tb[4:] == ta:
            return (f"(Some {a})", tb), (b, tb)
        raise TranslationError(f"conditional expression of {ta} and {tb}")

    def none_test(self, test):
        """`NAME is None` / `NAME is not None` on a name of option type -> (name, tested_for_none)"""
        if isinstance(test, ast.Compare) and len(test.ops) == 1 and isinstance(test.ops[0], (ast.Is, ast.IsNot)) and \
                isinstance(test.left, ast.Name) and isinstance(test.comparators[0], ast.Constant) and \
                test.comparators[0].value is None:
            t = self.env.get(test.left.id)
            if t is None:
                raise TranslationError(f"unknown name {test.left.id}")
            if not t.startswith("opt:"):
                raise TranslationError(f"'is None' on {t}")
            return test.left.id, isinstance(test.ops[0], ast.Is)
        return None

    def compare(self, l, op, r) -> str:
        if isinstance(op, (ast.Is, ast.IsNot)):
            if isinstance(r, ast.Constant) and r.value is None:
                a, ta = self.expr(l)
                if not ta.startswith("opt"):
                    raise TranslationError(f"'is None' on {ta}")
                yes, no = ("true", "false") if isinstance(op, ast.Is) else ("false", "true")
                return f"(match {a} with None => {yes} | Some _ => {no} end)"
            raise TranslationError("'is' on something else than None")
        if isinstance(op, (ast.In,)):
            a, ta = self.expr(l)
            if ta != "loc" or not isinstance(r, ast.List):
                raise TranslationError("'in' on something else than a location list")
            alts = [self.expr(x) for x in r.elts]
            out = " || ".join(f"loc_eqb {a} {b}" for b, _ in alts)
            return f"({out})"
        a, ta = self.expr(l)
        b, tb = self.expr(r)
        if ta != tb:
            raise TranslationError(f"comparison of {ta} with {tb}")
        if ta == "num":
            f = {ast.Lt: f"Qcltb {a} {b}", ast.LtE: f"Qcleb {a} {b}", ast.Gt: f"Qcltb {b} {a}",
                 ast.GtE: f"Qcleb {b} {a}", ast.Eq: f"Qceqb {a} {b}", ast.NotEq: f"negb (Qceqb {a} {b})"}.get(type(op))
        elif ta == "str":
            f = {ast.Eq: f"String.eqb {a} {b}", ast.NotEq: f"negb (String.eqb {a} {b})"}.get(type(op))
        elif ta in ("point", "shape"):
            f = {ast.Eq: f"pair_qc_eqb {a} {b}", ast.NotEq: f"negb (pair_qc_eqb {a} {b})"}.get(type(op))
        elif ta == "loc":
            f = {ast.Eq: f"loc_eqb {a} {b}", ast.NotEq: f"negb (loc_eqb {a} {b})"}.get(type(op))
        else:
            f = None
        if f is None:
            raise TranslationError(f"comparison {type(op).__name__} on {ta}")
        return f"({f})"

    def attribute(self, e: ast.Attribute) -> tuple[str, str]:
        # Rectangle.StogLocation.X
        if isinstance(e.value, ast.Attribute) and e.value.attr == "StogLocation" and e.attr in LOCS:
            return ("NOPOLY" if e.attr == "NO_POLYGON" else e.attr), "loc"
        base, tb = self.expr(e.value)
        a = e.attr
        if tb == "rect":
            if a in ("shape", "_shape"):
                return f"(rw {base}, rh {base})", "shape"
            if a in ("center", "_center"):
                return f"(cx {base}, cy {base})", "point"
            if a == "region":
                return f"(region {base})", "str"
            if a in ("fixed", "hard"):
                return f"({a} {base})", "bool"
            if a == "bounding_box":
                return f"(g_bounding_box {base})", "bb"
            if a == "area":
                return f"(g_area {base})", "num"
            if a == "aspect_ratio":
                raise TranslationError("aspect_ratio used inside another method")
            h = self.cls_defs.get(a)
            if h is not None and a not in METHODS and "property" in decorators(h):
                return self.inline(h, [(base, "rect")])
        if tb == "shape" and a in ("w", "h"):
            return self.proj(base, a == "w"), "num"
        if tb == "point" and a in ("x", "y"):
            return self.proj(base, a == "x"), "num"
        if tb == "bb" and a in ("ll", "ur"):
            return f"({a}_of {base})", "point"
        raise TranslationError(f"attribute .{a} of {tb}")

    @staticmethod
    def proj(pair: str, first: bool) -> str:
        # peephole: projection of a literal pair
        if pair.startswith("(") and pair.endswith(")"):
            depth, parts, cur = 0, [], ""
            for ch in pair[1:-1]:
                if ch == "(":
                    depth += 1
                elif ch == ")":
                    depth -= 1
                if ch == "," and depth == 0:
                    parts.append(cur)
                    cur = ""
                else:
                    cur += ch
            parts.append(cur)
            if len(parts) == 2:
                q = (parts[0] if first else parts[1]).strip()
                return q if (" " not in q or q.startswith("(")) else f"({q})"
        return f"({'fst' if first else 'snd'} {pair})"

    def call(self, e: ast.Call) -> tuple[str, str]:
        f = e.func
        if e.keywords and not (isinstance(f, ast.Name) and f.id == "BoundingBox"):
            raise TranslationError("keyword arguments")
        if isinstance(f, ast.Name) and f.id == "isinstance":
            if len(e.args) == 2 and isinstance(e.args[1], ast.Name) and e.args[1].id == "Rectangle" and \
                    self.expr(e.args[0])[1] == "rect":
                return "true", "bool"
            raise TranslationError("isinstance")
        args = [self.expr(a) for a in e.args]
        if isinstance(f, ast.Name):
            if f.id in ("min", "max") and len(args) == 2 and all(t == "num" for _, t in args):
                return f"(Qc{f.id} {args[0][0]} {args[1][0]})", "num"
            if f.id == "abs" and len(args) == 1 and args[0][1] == "num":
                return f"(Qcabs {args[0][0]})", "num"
            if f.id == "almost_eq" and len(args) == 3 and all(t == "num" for _, t in args):
                return f"(Qcltb (Qcabs ({args[0][0]} - {args[1][0]})) {args[2][0]})", "bool"
            if f.id == "Point" and len(args) == 2 and all(t == "num" for _, t in args):
                return f"({args[0][0]}, {args[1][0]})", "point"
            if f.id == "Shape" and len(args) == 2 and all(t == "num" for _, t in args):
                return f"({args[0][0]}, {args[1][0]})", "shape"
            if f.id == "BoundingBox" and not args and {k.arg for k in e.keywords} == {"ll", "ur"}:
                kw = {k.arg: self.expr(k.value) for k in e.keywords}
                if kw["ll"][1] == "point" and kw["ur"][1] == "point":
                    return f"(mkBB {kw['ll'][0]} {kw['ur'][0]})", "bb"
            if f.id == "isinstance" and len(e.args) == 2 and isinstance(e.args[1], ast.Name) and \
                    e.args[1].id == "Rectangle" and args[0][1] == "rect":
                return "true", "bool"
            raise TranslationError(f"call of {f.id}")
        if isinstance(f, ast.Attribute):
            if isinstance(f.value, ast.Name) and f.value.id == "Rectangle" and not args:
                if f.attr == "distance_epsilon":
                    return "eps", "num"
                if f.attr == "area_epsilon":
                    return "aeps", "num"
            h = self.cls_defs.get(f.attr)
            if isinstance(f.value, ast.Name) and f.value.id in ("Rectangle", "cls") and f.value.id not in self.env:
                # Rectangle.helper(...): static / class method, or an instance method with the receiver given explicitly
                if h is None or f.attr in METHODS:
                    raise TranslationError(f"call of Rectangle.{f.attr}")
                return self.inline(h, args)
            recv, tr = self.expr(f.value)
            if tr == "rect" and h is not None and f.attr not in METHODS and f.attr != "duplicate":
                deco = decorators(h)
                if "staticmethod" in deco or "classmethod" in deco:
                    return self.inline(h, args)
                return self.inline(h, [(recv, tr)] + args)
            if tr == "rect" and f.attr in METHOD_RESULT and len(args) == 1 and args[0][1] == "rect" and \
                    f.attr != "area_overlap":
                return f"(g_{f.attr} {recv} {args[0][0]})", METHOD_RESULT[f.attr]
            if tr == "rect":
                if f.attr == "duplicate" and not args:
                    return f"(duplicate {recv})", "rect"
                if f.attr == "area_overlap" and len(args) == 1 and args[0][1] == "rect":
                    return f"(g_area_overlap {recv} {args[0][0]})", "num"
                if f.attr in ("split_vertical", "split_horizontal") and not args:
                    return f"(g_{f.attr} {recv} {num(-1)})", "opt:rectpair"     # default argument -1
            raise TranslationError(f"method call .{f.attr}")
        raise TranslationError("call")

    def inline(self, node, args) -> tuple[str, str]:
        """translate the helper `node` on demand and inline it: args are (gallina, type) pairs"""
        if node.name in self.stack or node.name == self.name:
            raise TranslationError(f"recursive helper {node.name}")
        if node.args.vararg or node.args.kwarg or node.args.kwonlyargs or node.args.posonlyargs:
            raise TranslationError(f"helper {node.name}: unsupported parameter kinds")
        params = list(node.args.args)
        deco = decorators(node)
        if deco - {"staticmethod", "classmethod", "property"}:
            raise TranslationError(f"helper {node.name}: decorator")
        if "classmethod" in deco:
            params = params[1:]
        defaults = list(node.args.defaults)
        if len(args) > len(params) or len(args) < len(params) - len(defaults):
            raise TranslationError(f"helper {node.name}: number of arguments")
        sub = Fn(node, self.cls_defs, self.stack + (self.name,))
        args = list(args)
        for d in defaults[len(defaults) - (len(params) - len(args)):] if len(args) < len(params) else []:
            args.append(sub.expr(d))           # constant defaults only (anything else fails: empty environment)
        opens = []
        temps = []
        for p, (g, t) in zip(params, args):
            want = annot_type(p.annotation)
            if want is None:
                if p.arg == "self":
                    want = "rect"
                elif p.arg in PARAM_TYPES:
                    want = PARAM_TYPES[p.arg]
                else:
                    raise TranslationError(f"helper {node.name}: parameter {p.arg} has no annotation")
            if want != t:
                raise TranslationError(f"helper {node.name}: parameter {p.arg} is {want}, argument is {t}")
            tmp = fresh()
            temps.append((p.arg, tmp, t))
            opens.append(f"(let {tmp} := {g} in ")
        for name, tmp, t in temps:
            sub.env[name] = t
            opens.append(f"(let v_{name} := {tmp} in ")
        body = sub.block(list(node.body))
        base = {t for t in sub.ret_types if t != "none" and not t.startswith("opt:")} | \
               {t[4:] for t in sub.ret_types if t.startswith("opt:")}
        if len(base) != 1:
            raise TranslationError(f"helper {node.name}: result types {sorted(sub.ret_types)}")
        rt = base.pop()
        return "".join(opens) + body + ")" * len(opens), ("opt:" + rt if sub.optional else rt)

    # ---------- statements (continuation = remaining statements) ----------
    def ret(self, g: str) -> str:
        return f"(Some {g})" if self.optional else g

    def block(self, stmts: list) -> str:
        if not stmts:
            raise TranslationError("control reaches the end of the function without return")
        s, rest = stmts[0], stmts[1:]
        if isinstance(s, ast.Expr) and isinstance(s.value, ast.Constant) and isinstance(s.value.value, str):
            return self.block(rest)       # docstring
        if isinstance(s, ast.Return):
            if s.value is None or (isinstance(s.value, ast.Constant) and s.value.value is None):
                if not self.optional:
                    raise TranslationError("return None")
                self.ret_types.add("none")
                return "None"
            g, t = self.expr(s.value)
            self.ret_types.add(t)
            if t.startswith("opt:"):
                if not self.optional:
                    raise TranslationError("optional result in a total function")
                return g
            return self.ret(g)
        if isinstance(s, ast.Assert):
            c, t = self.expr(s.test)
            if t != "bool":
                raise TranslationError("assert on non-boolean")
            return f"(if {c} then {self.block(rest)} else None)"
        if isinstance(s, ast.If) and self.none_test(s.test) is not None:
            name, is_none = self.none_test(s.test)
            base = self.env[name][4:]
            saved = dict(self.env)
            self.env[name] = "none" if is_none else base
            a = self.block(list(s.body) + rest)
            self.env = dict(saved)
            self.env[name] = base if is_none else "none"
            b = self.block(list(s.orelse) + rest)
            self.env = saved
            n_br, s_br = (a, b) if is_none else (b, a)
            return f"(match v_{name} with None => {n_br} | Some v_{name} => {s_br} end)"
        if isinstance(s, ast.If):
            c, t = self.expr(s.test)
            if t != "bool":
                raise TranslationError("if on non-boolean")
            saved = dict(self.env)
            a = self.block(list(s.body) + rest)
            self.env = dict(saved)
            b = self.block(list(s.orelse) + rest)
            self.env = saved
            return f"(if {c} then {a} else {b})"
        if isinstance(s, ast.AnnAssign) and s.value is not None and isinstance(s.target, ast.Name):
            return self.assign([s.target], s.value, rest)
        if isinstance(s, ast.Assign) and len(s.targets) == 1:
            tgt = s.targets[0]
            if isinstance(tgt, ast.Tuple):
                if not isinstance(s.value, ast.Tuple) or len(tgt.elts) != len(s.value.elts):
                    raise TranslationError("tuple assignment from a non-tuple")
                # evaluate all right-hand sides first (Python semantics), then bind
                vals = [self.expr(v) for v in s.value.elts]
                opens = [f"(let t_{i} := {g} in " for i, (g, t) in enumerate(vals)]
                for i, (target, (g, t)) in enumerate(zip(tgt.elts, vals)):
                    opens.append(self.bind(target, f"t_{i}", t))
                return "".join(opens) + self.block(rest) + ")" * len(opens)
            return self.assign([tgt], s.value, rest)
        raise TranslationError(f"statement {type(s).__name__}")

    def bind(self, target, g: str, t: str) -> str:
        if isinstance(target, ast.Name):
            self.env[target.id] = t
            return f"(let v_{target.id} := {g} in "
        if isinstance(target, ast.Attribute) and isinstance(target.value, ast.Name) and \
                self.env.get(target.value.id) == "rect" and target.attr in ("center", "shape"):
            if (target.attr, t) not in (("center", "point"), ("shape", "shape")):
                raise TranslationError("assignment of a wrong value to .center/.shape")
            n = target.value.id
            return f"(let v_{n} := set_{target.attr} v_{n} {g} in "
        raise TranslationError("assignment target")

    def assign(self, targets, value, rest) -> str:
        g, t = self.expr(value)
        b = self.bind(targets[0], g, t)
        return b + self.block(rest) + ")"

    def translate(self) -> str:
        args = [a.arg for a in self.node.args.args]
        params = []
        for a in args:
            if a not in PARAM_TYPES:
                raise TranslationError(f"parameter {a}")
            self.env[a] = PARAM_TYPES[a]
            params.append(f"(v_{a} : {COQ_TYPES[PARAM_TYPES[a]]})")
        body = self.block(list(self.node.body))
        return f"Definition {gname(self.name)} {' '.join(params)} :=\n  {body}."


HEADER = """(* GENERATED on every run by harness/translate_rect.py from frame/geometry/geometry.py - do not edit *)
From FrameModel Require Import Num.QcTac Geometry.Rect Gen.GenPrelude.
Open Scope Qc_scope.
Section Generated.
Variables (eps aeps : Qc).
"""


def translate_file(path: Path) -> str:
    tree = ast.parse(path.read_text())
    cls = next((n for n in tree.body if isinstance(n, ast.ClassDef) and n.name == "Rectangle"), None)
    if cls is None:
        raise TranslationError("class Rectangle not found")
    defs = {n.name: n for n in cls.body if isinstance(n, ast.FunctionDef)}
    # property setters share the name: keep the getter (the one with a return)
    for n in cls.body:
        if isinstance(n, ast.FunctionDef) and any(isinstance(x, ast.Return) and x.value is not None for x in ast.walk(n)):
            if n.name in METHODS and n.name in PROPERTIES:
                defs[n.name] = n
    out = [HEADER]
    for m in METHODS:
        if m not in defs:
            raise TranslationError(f"method {m} not found")
        out.append(Fn(defs[m], defs).translate())
    out.append("End Generated.\n")
    return "\n".join(out)


if __name__ == "__main__":
    import sys
    print(translate_file(Path(sys.argv[1])))
