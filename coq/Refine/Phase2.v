(* Model of split_rectangles, phase 2 (geometry.py lines 687-694), as REPAIRED by
   fixes/C11-phase2-aspect.diff:

     heapq.heapify(heap)
     while len(heap) < n:
         area_rect = heapq.heappop(heap)                      # a rectangle of maximum area
         for r in split_rectangles(list(area_rect.rect.split()), aspect_ratio, 1):
             heapq.heappush(heap, PrioritizedRectangle(-r.area, r))
     return [p.rect for p in heap]

   (the unrepaired code pushed the two halves unconditionally).  The heap is keyed on
   -area only: WHICH rectangle of maximum area is popped, and the order of the returned
   list, are artefacts of heapq's sift order.  Phase 2 is therefore modelled twice:
   - [phase2_greedy]: the model's own total algorithm (first rectangle of maximum area,
     pieces put back in place);
   - [phase2_ok p1 out r n]: a checker that accepts every list [out] that consists,
     parent by parent, of the leaves of a tree obtained from that parent by [split]
     (always halving the longer side), has only pieces of aspect ratio <= r and at
     least n elements.  Verified in Phase2Facts.v.  Definitions only. *)
From FrameModel Require Import Num.QcTac Geometry.Rect Refine.Phase1.
Open Scope Qc_scope.

(* ---- one phase-2 step on the popped rectangle x: split_rectangles([r1, r2], ar, 1) ---- *)
(* n = 1 and the same aspect-ratio limit: both asserts hold again; phase 1 of two rectangles
   returns at least two (Phase2Facts.unit_split_len), so the inner call always returns at
   `if len(heap) >= n` and never reaches its own phase 2. *)
Definition unit_split (r : Qc) (x : Rect) : result (list Rect) :=
  match split x with
  | Some (a, b) => phase1 (phase1_fuel [a; b]) [a; b] r 1
  | None => Reject
  end.

(* ---- equality of rectangles (all eight fields) ---- *)
Definition same_rect (a b : Rect) : bool :=
  Qceqb (cx a) (cx b) && Qceqb (cy a) (cy b) && Qceqb (rw a) (rw b) && Qceqb (rh a) (rh b) &&
  Bool.eqb (fixed a) (fixed b) && Bool.eqb (hard a) (hard b) &&
  String.eqb (region a) (region b) && loc_eqb (rloc a) (rloc b).

(* ---- the model's own algorithm ---- *)
Fixpoint first_max (best : Rect) (l : list Rect) : Rect :=
  match l with
  | [] => best
  | y :: l' => first_max (if Qcltb (area best) (area y) then y else best) l'
  end.
Fixpoint replace_first (x : Rect) (s l : list Rect) : list Rect :=
  match l with
  | [] => []
  | y :: l' => if same_rect x y then s ++ l' else y :: replace_first x s l'
  end.

Fixpoint phase2_greedy_loop (steps : nat) (r : Qc) (n : nat) (heap : list Rect) : result (list Rect) :=
  if (n <=? List.length heap)%nat then Ok heap else
  match steps with
  | O => OutOfFuel
  | S s =>
    match heap with
    | [] => Reject                              (* heappop from an empty heap: IndexError *)
    | y :: l =>
      let x := first_max y l in
      match unit_split r x with
      | Ok ps => phase2_greedy_loop s r n (replace_first x ps heap)
      | OutOfFuel => OutOfFuel
      | Reject => Reject
      end
    end
  end.
(* every step adds at least one rectangle: n steps suffice *)
Definition phase2_greedy (p1 : list Rect) (r : Qc) (n : nat) : result (list Rect) :=
  phase2_greedy_loop n r n p1.

(* ---- the checker ---- *)
Fixpoint remove1 (x : Rect) (l : list Rect) : option (list Rect) :=
  match l with
  | [] => None
  | y :: l' => if same_rect x y then Some l' else option_map (cons y) (remove1 x l')
  end.
Definition has_inside (p : Rect) (g : list Rect) : bool := existsb (fun c => is_inside c p) g.

(* [tree_ok fuel p g k]: some sub-multiset of g is the leaf set of a halving tree rooted at p
   and the continuation accepts what is left.  Either p itself is a leaf, or p is split and
   both halves are trees (second half first: the order in which phase 1 emits them).  The
   descent is attempted only while some element of g lies inside p. *)
Fixpoint tree_ok (fuel : nat) (p : Rect) (g : list Rect) (k : list Rect -> bool) {struct fuel} : bool :=
  if match remove1 p g with Some g' => k g' | None => false end then true else
  match fuel with
  | O => false
  | S f =>
    if has_inside p g then
      match split p with
      | Some (a, b) => tree_ok f b g (fun g1 => tree_ok f a g1 k)
      | None => false
      end
    else false
  end.
Fixpoint forest_ok (fuel : nat) (ps g : list Rect) {struct ps} : bool :=
  match ps with
  | [] => match g with [] => true | _ => false end
  | p :: ps' => tree_ok fuel p g (fun g' => forest_ok fuel ps' g')
  end.

Definition phase2_ok (p1 out : list Rect) (r : Qc) (n : nat) : bool :=
  forest_ok (List.length out) p1 out && forallb (compliantb r) out && (n <=? List.length out)%nat.

(* ---- correspondence only (no theorem depends on it): the loop stopped as early as it could.
   Some rectangle x cut from a parent has all the pieces of its last step in [out], and
   without that step fewer than n rectangles were there. ---- *)
Fixpoint mem (x : Rect) (l : list Rect) : bool :=
  match l with [] => false | y :: l' => if same_rect x y then true else mem x l' end.
Fixpoint max_unit (fuel : nat) (r : Qc) (p : Rect) (g : list Rect) {struct fuel} : nat :=
  if mem p g then O else
  match fuel with
  | O => O
  | S f =>
    if has_inside p g then
      match split p with
      | Some (a, b) =>
        let u := match unit_split r p with
                 | Ok ps => if forallb (fun c => mem c g) ps then List.length ps else O
                 | _ => O
                 end in
        Nat.max u (Nat.max (max_unit f r a g) (max_unit f r b g))
      | None => O
      end
    else O
  end.
Definition phase2_tight (p1 out : list Rect) (r : Qc) (n : nat) : bool :=
  let u := fold_right (fun p m => Nat.max (max_unit (List.length out) r p out) m) O p1 in
  (List.length out + 1 <? n + u)%nat.

(* ---- split_rectangles as a whole ---- *)
Definition split_rectangles_greedy (rs : list Rect) (r : Qc) (n : Z) : result (list Rect) :=
  match phase1 (phase1_fuel rs) rs r n with
  | Ok p1 => if (Z.to_nat n <=? List.length p1)%nat then Ok p1 else phase2_greedy p1 r (Z.to_nat n)
  | OutOfFuel => OutOfFuel
  | Reject => Reject
  end.

Fixpoint rects_eqb (a b : list Rect) : bool :=
  match a, b with
  | [], [] => true
  | x :: a', y :: b' => same_rect x y && rects_eqb a' b'
  | _, _ => false
  end.
(* same multiset of rectangles: the property promises no order of the returned list (which
   rectangle the work queue of phase 1 visits first is the code's business) *)
Fixpoint perm_rects (a b : list Rect) : bool :=
  match a with
  | [] => match b with [] => true | _ => false end
  | x :: a' => match remove1 x b with Some b' => perm_rects a' b' | None => false end
  end.
(* [out] is an admissible result of split_rectangles rs r n: the rectangles of the phase-1 list, in any
   order, when phase 2 does not run, otherwise accepted by the checker *)
Definition split_rectangles_ok (rs : list Rect) (r : Qc) (n : Z) (out : list Rect) : bool :=
  match phase1 (phase1_fuel rs) rs r n with
  | Ok p1 => if (Z.to_nat n <=? List.length p1)%nat then perm_rects p1 out
             else phase2_ok p1 out r (Z.to_nat n)
  | _ => false
  end.
