(* The checker does not depend on the order of the list it is given; hence the state the
   model's own algorithm leaves in a Die (after the re-partition by tag) is accepted by
   die_split_ok. *)
From FrameModel Require Import Num.QcTac Geometry.Rect Refine.Phase1 Refine.Phase1Facts
  Refine.Phase2 Refine.Phase2Facts Refine.DieRefine Refine.DieFacts.
From Coq Require Import Permutation.
Open Scope Qc_scope.

Lemma remove1_In x l : In x l -> exists l', remove1 x l = Some l'.
Proof.
  induction l as [|y l IH]; cbn [In remove1]; [tauto|]. intro H.
  destruct (same_rect x y) eqn:E; [eauto|].
  destruct H as [->|H]; [rewrite same_rect_refl in E; discriminate|].
  destruct (IH H) as (l' & ->). cbn [option_map]. eauto.
Qed.
Lemma remove1_None x l : remove1 x l = None -> ~ In x l.
Proof. intros H I. destruct (remove1_In x l I) as (l' & E). congruence. Qed.

Lemma remove1_perm_some x g g' h : Permutation g g' -> remove1 x g = Some h ->
  exists h', remove1 x g' = Some h' /\ Permutation h h'.
Proof.
  intros P R. pose proof (remove1_perm _ _ _ R) as P1.
  assert (I : In x g') by (eapply Permutation_in; [exact P|]; eapply Permutation_in;
                           [apply Permutation_sym; exact P1|left; reflexivity]).
  destruct (remove1_In x g' I) as (h' & R'). exists h'. split; [exact R'|].
  pose proof (remove1_perm _ _ _ R') as P2.
  apply Permutation_cons_inv with (a := x).
  eapply Permutation_trans; [apply Permutation_sym; exact P1|].
  eapply Permutation_trans; [exact P|exact P2].
Qed.
Lemma remove1_perm_none x g g' : Permutation g g' -> remove1 x g = None -> remove1 x g' = None.
Proof.
  intros P R. destruct (remove1 x g') as [h'|] eqn:R'; [|reflexivity]. exfalso.
  apply (remove1_None x g R). eapply Permutation_in; [apply Permutation_sym; exact P|].
  eapply Permutation_in; [apply Permutation_sym; apply (remove1_perm _ _ _ R')|left; reflexivity].
Qed.

Lemma existsb_perm {A} (f : A -> bool) g g' : Permutation g g' -> existsb f g = existsb f g'.
Proof.
  intro P. apply eq_true_iff_eq. rewrite !existsb_exists.
  split; intros (x & I & H); exists x; split; auto.
  - exact (Permutation_in x P I).
  - exact (Permutation_in x (Permutation_sym P) I).
Qed.
Lemma forallb_perm {A} (f : A -> bool) g g' : Permutation g g' -> forallb f g = forallb f g'.
Proof.
  intro P. apply eq_true_iff_eq. rewrite !forallb_forall.
  split; intros H x I; apply H.
  - exact (Permutation_in x (Permutation_sym P) I).
  - exact (Permutation_in x P I).
Qed.

Lemma tree_ok_perm : forall fuel p g g' k k', Permutation g g' ->
  (forall h h', Permutation h h' -> k h = k' h') -> tree_ok fuel p g k = tree_ok fuel p g' k'.
Proof.
  induction fuel as [|f IH]; intros p g g' k k' P K; cbn [tree_ok].
  - destruct (remove1 p g) as [h|] eqn:R.
    + destruct (remove1_perm_some p g g' h P R) as (h' & -> & Ph). rewrite (K h h' Ph). reflexivity.
    + rewrite (remove1_perm_none p g g' P R). reflexivity.
  - assert (E : match remove1 p g with Some g1 => k g1 | None => false end =
                match remove1 p g' with Some g1 => k' g1 | None => false end).
    { destruct (remove1 p g) as [h|] eqn:R.
      + destruct (remove1_perm_some p g g' h P R) as (h' & -> & Ph). apply K. exact Ph.
      + rewrite (remove1_perm_none p g g' P R). reflexivity. }
    rewrite E. destruct (match remove1 p g' with Some g1 => k' g1 | None => false end); [reflexivity|].
    unfold has_inside. rewrite (existsb_perm _ g g' P).
    destruct (existsb (fun c => is_inside c p) g'); [|reflexivity].
    destruct (split p) as [[a b]|]; [|reflexivity].
    apply IH; [exact P|]. intros h h' Ph. apply IH; [exact Ph|exact K].
Qed.

Lemma forest_ok_perm fuel : forall ps g g', Permutation g g' -> forest_ok fuel ps g = forest_ok fuel ps g'.
Proof.
  induction ps as [|p ps IH]; intros g g' P; cbn [forest_ok].
  - destruct g as [|x g]; [apply Permutation_nil in P; subst; reflexivity|].
    destruct g' as [|y g']; [apply Permutation_sym, Permutation_nil in P; discriminate|reflexivity].
  - apply tree_ok_perm; [exact P|]. intros h h' Ph. apply IH. exact Ph.
Qed.

Theorem phase2_ok_perm : forall p1 out out' r n, Permutation out out' ->
  phase2_ok p1 out r n = phase2_ok p1 out' r n.
Proof.
  intros p1 out out' r n P. unfold phase2_ok.
  rewrite (Permutation_length P), (forest_ok_perm _ p1 out out' P), (forallb_perm _ out out' P). reflexivity.
Qed.

(* the state the model's algorithm leaves in the Die is admissible *)
Theorem die_split_greedy_ok : forall d r n, Forall wf (refinable d) -> refinable d <> [] ->
  (0 < n)%Z -> ar_limit < r ->
  exists d', die_split_greedy d r n = Ok d' /\ die_split_ok d r n d' = true.
Proof.
  intros d r n W NE Hn Hr. unfold die_split_greedy.
  destruct (split_rectangles_greedy_ok (refinable d) r n W NE Hn Hr) as (out & G & K). rewrite G.
  exists (repartition d out). split; [reflexivity|]. unfold die_split_ok.
  cbn [bbox blockages fixedr spec ground repartition].
  rewrite same_rect_refl, !(proj2 (rects_eqb_eq _ _) eq_refl). cbn [andb].
  assert (F1 : forallb (fun x => negb (is_ground x)) (filter (fun x => negb (is_ground x)) out) = true).
  { apply forallb_forall. intros x Hx. apply filter_In in Hx. tauto. }
  assert (F2 : forallb is_ground (filter is_ground out) = true).
  { apply forallb_forall. intros x Hx. apply filter_In in Hx. tauto. }
  rewrite F1, F2. cbn [andb].
  unfold split_rectangles_greedy in G. unfold split_rectangles_ok in K.
  destruct (phase1 (Phase1.phase1_fuel (refinable d)) (refinable d) r n) as [p1| |]; try discriminate.
  destruct (Z.to_nat n <=? List.length p1)%nat eqn:L.
  - injection G as <-. cbn [spec ground repartition]. rewrite !perm_rects_refl. reflexivity.
  - unfold refinable at 1. cbn [spec ground repartition].
    rewrite (phase2_ok_perm p1 _ out r (Z.to_nat n) (filter_partition_perm is_ground out)). exact K.
Qed.
