(* Generic facts about [tiles]: containment is a preorder, disjointness is
   inherited by sub-rectangles, and tilings compose (a tiling of every piece
   of a tiling is a tiling of the whole). *)
From FrameModel Require Import Num.QcTac Geometry.Rect Geometry.RectFacts Geometry.SplitFacts.
Open Scope Qc_scope.

(* ---------------- containment ---------------- *)
Lemma is_inside_refl r : is_inside r r = true.
Proof. apply is_inside_coords. splits; apply Qcle_refl. Qed.

Lemma is_inside_trans a b c :
  is_inside a b = true -> is_inside b c = true -> is_inside a c = true.
Proof.
  rewrite !is_inside_coords. intros (A1 & A2 & A3 & A4) (B1 & B2 & B3 & B4).
  splits; qlra.
Qed.

(* sub-rectangles of two rectangles without common area have no common area *)
Lemma ov_zero_inside c d a b :
  is_inside c a = true -> is_inside d b = true ->
  area_overlap a b = 0 -> area_overlap c d = 0.
Proof.
  rewrite !is_inside_coords, !ov_zero_iff. unfold bx0, bx1, by0, by1.
  generalize (xmin a) (xmin b) (xmin c) (xmin d) (xmax a) (xmax b) (xmax c) (xmax d).
  generalize (ymin a) (ymin b) (ymin c) (ymin d) (ymax a) (ymax b) (ymax c) (ymax d).
  intros ya0 yb0 yc0 yd0 ya1 yb1 yc1 yd1 xa0 xb0 xc0 xd0 xa1 xb1 xc1 xd1.
  intros (A1 & A2 & A3 & A4) (B1 & B2 & B3 & B4) [H|H]; [left|right]; qmlra.
Qed.

(* ---------------- pairwise disjointness of a concatenation ---------------- *)
Lemma pairwise_no_ov_app l1 l2 :
  pairwise_no_ov (l1 ++ l2) <->
  pairwise_no_ov l1 /\ pairwise_no_ov l2 /\
  Forall (fun a => Forall (fun b => area_overlap a b = 0) l2) l1.
Proof.
  induction l1 as [|x l1 IH]; cbn [app pairwise_no_ov].
  - split.
    + intro H. splits; auto.
    + intros (_ & H & _). exact H.
  - rewrite IH, Forall_app, Forall_cons_iff. tauto.
Qed.

(* ---------------- composition of tilings ---------------- *)
Lemma concat_inside gs ps d :
  Forall2 (fun g p => tiles g p) gs ps ->
  Forall (fun p => is_inside p d = true) ps ->
  Forall (fun r => wf r /\ is_inside r d = true) (List.concat gs).
Proof.
  induction 1 as [|g p gs ps T _ IH]; intro F; cbn [List.concat].
  - constructor.
  - apply Forall_cons_iff in F. destruct F as [Fp F].
    apply Forall_app. split; [|apply IH; exact F].
    destruct T as (Tin & _ & _).
    eapply Forall_impl; [|exact Tin]. cbn beta. intros r [W I]. split; [exact W|].
    eapply is_inside_trans; eassumption.
Qed.

Lemma concat_no_ov_with gs ps p :
  Forall2 (fun g p => tiles g p) gs ps ->
  Forall (fun p' => area_overlap p p' = 0) ps ->
  Forall (fun b => forall a, is_inside a p = true -> area_overlap a b = 0) (List.concat gs).
Proof.
  induction 1 as [|g p' gs ps T _ IH]; intro F; cbn [List.concat].
  - constructor.
  - apply Forall_cons_iff in F. destruct F as [Fp F].
    apply Forall_app. split; [|apply IH; exact F].
    destruct T as (Tin & _ & _).
    eapply Forall_impl; [|exact Tin]. cbn beta. intros b [_ I] a Ia.
    eapply ov_zero_inside; eassumption.
Qed.

Lemma concat_pairwise gs ps :
  Forall2 (fun g p => tiles g p) gs ps ->
  pairwise_no_ov ps -> pairwise_no_ov (List.concat gs).
Proof.
  induction 1 as [|g p gs ps T F2 IH]; intro P; cbn [List.concat].
  - exact I.
  - cbn [pairwise_no_ov] in P. destruct P as [Pp P].
    apply pairwise_no_ov_app. split; [|split].
    + apply T.
    + apply IH; exact P.
    + pose proof (concat_no_ov_with gs ps p F2 Pp) as C.
      destruct T as (Tin & _ & _).
      eapply Forall_impl; [|exact Tin]. cbn beta. intros a [_ Ia].
      eapply Forall_impl; [|exact C]. cbn beta. intros b Hb. apply Hb; exact Ia.
Qed.

Lemma concat_area gs ps :
  Forall2 (fun g p => tiles g p) gs ps ->
  Qcsum (map area (List.concat gs)) = Qcsum (map area ps).
Proof.
  induction 1 as [|g p gs ps T _ IH]; cbn [List.concat map Qcsum].
  - reflexivity.
  - rewrite map_app, Qcsum_app, IH. destruct T as (_ & _ & A). rewrite A. reflexivity.
Qed.

Theorem tiles_concat : forall (gs : list (list Rect)) (ps : list Rect) (d : Rect),
  Forall2 (fun g p => tiles g p) gs ps -> tiles ps d -> tiles (List.concat gs) d.
Proof.
  intros gs ps d F (Tin & Tp & Ta). split; [|split].
  - apply (concat_inside gs ps d F).
    eapply Forall_impl; [|exact Tin]. cbn beta. intros r [_ H]; exact H.
  - apply (concat_pairwise gs ps F Tp).
  - rewrite (concat_area gs ps F). exact Ta.
Qed.

Lemma tiles_swap a b p : tiles [a; b] p -> tiles [b; a] p.
Proof.
  intros (Tin & Tp & Ta). split; [|split].
  - apply Forall_cons_iff in Tin. destruct Tin as [Ha Tin].
    apply Forall_cons_iff in Tin. destruct Tin as [Hb _].
    constructor; [exact Hb|]. constructor; [exact Ha|]. constructor.
  - cbn [pairwise_no_ov] in *. destruct Tp as [Hab _].
    apply Forall_cons_iff in Hab. destruct Hab as [Hab _].
    rewrite ov_sym in Hab. split; [|split; [constructor | exact I]].
    constructor; [exact Hab | constructor].
  - cbn [map Qcsum] in *. rewrite <- Ta. ring.
Qed.

Corollary tiles_pair : forall a b p la lb,
  tiles [a; b] p -> tiles la a -> tiles lb b -> tiles (lb ++ la) p.
Proof.
  intros a b p la lb T Ta Tb.
  replace (lb ++ la) with (List.concat [lb; la]) by (cbn [List.concat]; rewrite app_nil_r; reflexivity).
  apply (tiles_concat [lb; la] [b; a] p).
  - constructor; [exact Tb|]. constructor; [exact Ta|]. constructor.
  - apply tiles_swap; exact T.
Qed.

Lemma tiles_self p : wf p -> tiles [p] p.
Proof.
  intro W. split; [|split].
  - constructor; [|constructor]. split; [exact W | apply is_inside_refl].
  - cbn [pairwise_no_ov]. split; [constructor | exact I].
  - cbn [map Qcsum]. ring.
Qed.
