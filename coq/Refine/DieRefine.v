(* Model of frame/die/die.py lines 120-158: split_refinable_regions, initial_grid,
   floorplanning_rectangles, on the five lists a Die holds.  Definitions only. *)
From FrameModel Require Import Num.QcTac Geometry.Rect Refine.Phase1 Refine.Phase2.
Open Scope Qc_scope.

Record DieSt := mkDie {
  bbox : Rect;                 (* self._die *)
  spec : list Rect;            (* self._specialized_regions *)
  ground : list Rect;          (* self._ground_regions *)
  blockages : list Rect;       (* self._blockages *)
  fixedr : list Rect }.        (* self._fixed *)

Definition KW_GROUND : string := "_"%string.
Definition is_ground (x : Rect) : bool := String.eqb (region x) KW_GROUND.

(* floorplanning_rectangles(): (specialized + ground, fixed) *)
Definition refinable (d : DieSt) : list Rect := spec d ++ ground d.
Definition floorplanning_rectangles (d : DieSt) : list Rect * list Rect := (refinable d, fixedr d).

(* the loop `for r in rects: if r.region == KW_GROUND: ground.append(r) else: specialized.append(r)` *)
Definition repartition (d : DieSt) (rects : list Rect) : DieSt :=
  mkDie (bbox d) (filter (fun x => negb (is_ground x)) rects) (filter is_ground rects)
        (blockages d) (fixedr d).

(* split_refinable_regions(aspect_ratio, n): its own two asserts are those of split_rectangles *)
Definition die_split_greedy (d : DieSt) (r : Qc) (n : Z) : result DieSt :=
  match split_rectangles_greedy (refinable d) r n with
  | Ok rects => Ok (repartition d rects)
  | OutOfFuel => OutOfFuel
  | Reject => Reject
  end.

(* relational form: d' is an admissible state after d.split_refinable_regions(r, n) *)
Definition die_split_ok (d : DieSt) (r : Qc) (n : Z) (d' : DieSt) : bool :=
  same_rect (bbox d) (bbox d') &&
  rects_eqb (blockages d) (blockages d') && rects_eqb (fixedr d) (fixedr d') &&
  forallb (fun x => negb (is_ground x)) (spec d') && forallb is_ground (ground d') &&
  match phase1 (phase1_fuel (refinable d)) (refinable d) r n with
  | Ok p1 =>
    if (Z.to_nat n <=? List.length p1)%nat
    then perm_rects (spec d') (spec (repartition d p1)) && perm_rects (ground d') (ground (repartition d p1))
    else phase2_ok p1 (refinable d') r (Z.to_nat n)
  | _ => false
  end.

(* initial_grid(nrows, ncols): three asserts, then self._die.rectangle_grid *)
Definition initial_grid (d : DieSt) (nrows ncols : Z) : result DieSt :=
  if negb ((0 <? nrows)%Z && (0 <? ncols)%Z && (1 <? nrows + ncols)%Z) then Reject else
  match fixedr d, spec d, blockages d with
  | [], [], [] =>
    match ground d with
    | [_] =>
      match rectangle_grid (bbox d) (Z.to_nat nrows) (Z.to_nat ncols) with
      | Some g => Ok (mkDie (bbox d) [] g [] [])
      | None => Reject
      end
    | _ => Reject
    end
  | _, _, _ => Reject
  end.
