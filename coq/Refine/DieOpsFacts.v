(* Facts about histories of one Die object (Refine/DieOps.v): every prefix of every history
   accepted by trace_ok keeps the C11 invariants, by induction over the list of operations from
   the per-call theorems of Refine/DieFacts.v; the model's own run is such a history and is
   defined for every list of operations. *)
From FrameModel Require Import Num.QcTac Geometry.Rect Geometry.RectFacts
  Refine.TilesFacts Refine.GridFacts Refine.Phase1 Refine.Phase1Facts
  Refine.Phase2 Refine.Phase2Facts Refine.DieRefine Refine.DieFacts Refine.PermFacts Refine.DieOps.
From FrameModel Require Die.DieFacts.
From Coq Require Import Permutation.
Open Scope Qc_scope.

(* what a Die is between two calls: its refinable regions, blockages and fixed regions tile it
   (the decomposition C01 establishes for the constructor) *)
Definition die_inv (d : DieSt) : Prop :=
  wf (bbox d) /\ tiles (refinable d ++ blockages d ++ fixedr d) (bbox d).

Lemma die_same_eq a b : die_same a b = true -> a = b.
Proof.
  unfold die_same. intro H.
  repeat match type of H with (_ && _) = true => apply andb_true_iff in H; destruct H as [H ?] end.
  apply same_rect_eq in H.
  repeat match goal with H : rects_eqb _ _ = true |- _ => apply rects_eqb_eq in H end.
  destruct a, b. cbn in *. congruence.
Qed.

Lemma die_same_refl a : die_same a a = true.
Proof. unfold die_same. rewrite same_rect_refl, !(proj2 (rects_eqb_eq _ _) eq_refl). reflexivity. Qed.

(* refining some rectangles of a tiling gives a tiling *)
Lemma refines_tiles_app rs out rest D :
  refines rs out -> tiles (rs ++ rest) D -> tiles (out ++ rest) D.
Proof.
  intros (gs & P & F) T.
  assert (Wrest : Forall wf rest).
  { destruct T as (Tin & _). apply Forall_app in Tin. destruct Tin as [_ Tin].
    eapply Forall_impl; [|exact Tin]. cbv beta. tauto. }
  assert (F2 : Forall2 (fun g p => tiles g p) (gs ++ map (fun x => [x]) rest) (rs ++ rest)).
  { apply Forall2_app.
    - apply Forall2_flip. eapply Forall2_impl; [|exact F]. intros p g [Hc _]. exact Hc.
    - clear - Wrest. induction rest as [|x rest IH]; cbn; [constructor|].
      inversion Wrest; subst. constructor; [apply tiles_self; assumption | apply IH; assumption]. }
  pose proof (tiles_concat _ _ D F2 T) as TC.
  rewrite concat_app in TC.
  assert (E : List.concat (map (fun x : Rect => [x]) rest) = rest).
  { clear. induction rest as [|x rest IH]; cbn; [reflexivity|]. rewrite IH. reflexivity. }
  rewrite E in TC.
  eapply FrameModel.Die.DieFacts.tiles_perm; [|exact TC].
  apply Permutation_app_tail. apply Permutation_sym. exact P.
Qed.

(* what one admissible step guarantees: the clauses of the property for THAT call *)
Definition step_post (d : DieSt) (op : die_op) (out : outcome) (d' : DieSt) : Prop :=
  bbox d' = bbox d /\ blockages d' = blockages d /\ fixedr d' = fixedr d /\
  match op, out with
  | OSplit r n, Returned =>
      (0 < n)%Z /\ ar_limit < r /\
      (Z.to_nat n <= List.length (refinable d'))%nat /\
      Forall (fun c => aspect_ratio c <= r) (refinable d') /\
      refines (refinable d) (refinable d') /\
      Forall (fun x => is_ground x = false) (spec d') /\ Forall (fun x => is_ground x = true) (ground d')
  | OGrid nr nc, Returned =>
      grid_request_ok d nr nc /\ spec d' = [] /\
      List.length (ground d') = (Z.to_nat nr * Z.to_nat nc)%nat /\
      tiles (ground d') (bbox d) /\
      Forall (fun c => same_attrs (bbox d) c /\ rloc c = NOPOLY) (ground d')
  | OSplit _ _, Raised | OGrid _ _, Raised => d' = d
  | ORead, Lists refin fixd => d' = d /\ Permutation (refinable d) refin /\ Permutation (fixedr d) fixd
  | _, _ => False
  end.

Lemma die_perm_sound a b : die_perm a b = true ->
  bbox a = bbox b /\ Permutation (spec a) (spec b) /\ Permutation (ground a) (ground b) /\
  blockages a = blockages b /\ fixedr a = fixedr b.
Proof.
  unfold die_perm. intro H.
  repeat match type of H with (_ && _) = true => apply andb_true_iff in H; destruct H as [H ?] end.
  apply same_rect_eq in H.
  repeat match goal with H : rects_eqb _ _ = true |- _ => apply rects_eqb_eq in H end.
  repeat match goal with H : perm_rects _ _ = true |- _ => apply perm_rects_sound in H end.
  splits; assumption.
Qed.
Lemma die_perm_refl a : die_perm a a = true.
Proof.
  unfold die_perm. rewrite same_rect_refl, !perm_rects_refl, !(proj2 (rects_eqb_eq _ _) eq_refl). reflexivity.
Qed.

Theorem step_sound : forall d op out d', die_inv d -> step_ok d op out d' = true ->
  step_post d op out d' /\ die_inv d'.
Proof.
  intros d op out d' [W T] H. unfold step_ok in H.
  destruct op as [r n | nr nc |]; destruct out as [| | refin fixd]; try discriminate.
  - (* split returned *)
    pose proof (die_split_sound d r n d' H) as (Eb & Ebl & Ef & Hn & Hr & L & C & R & S1 & S2).
    split.
    + unfold step_post. splits; auto.
    + split; [rewrite Eb; exact W|]. rewrite Eb, Ebl, Ef. eapply refines_tiles_app; eauto.
  - (* split raised *)
    apply andb_true_iff in H. destruct H as [_ H]. apply die_same_eq in H. subst d'.
    split; [unfold step_post; splits; auto | split; assumption].
  - (* grid returned *)
    destruct (initial_grid d nr nc) as [m| |] eqn:G; try discriminate.
    apply die_perm_sound in H. destruct H as (Pb & Ps & Pg & Pbl & Pf).
    pose proof (initial_grid_sound d nr nc m G W) as (Q & Eb & Es & Ebl & Ef & L & Tg & A).
    assert (Es' : spec d' = []).
    { rewrite Es in Ps. apply Permutation_nil in Ps. exact Ps. }
    assert (Tg' : tiles (ground d') (bbox d)).
    { eapply FrameModel.Die.DieFacts.tiles_perm; [exact Pg | exact Tg]. }
    split.
    + unfold step_post. splits; auto; try congruence.
      * rewrite <- (Permutation_length Pg). exact L.
      * eapply Permutation_Forall; [exact Pg | exact A].
    + split; [rewrite <- Pb, Eb; exact W|].
      destruct Q as (_ & _ & _ & _ & Qb & Qf & _).
      unfold refinable. rewrite Es', <- Pbl, <- Pf, Ebl, Ef, Qb, Qf, <- Pb, Eb. cbn [app]. rewrite app_nil_r. exact Tg'.
  - (* grid raised *)
    apply andb_true_iff in H. destruct H as [_ H]. apply die_same_eq in H. subst d'.
    split; [unfold step_post; splits; auto | split; assumption].
  - (* read *)
    apply andb_true_iff in H. destruct H as [H H3]. apply andb_true_iff in H. destruct H as [H1 H2].
    apply die_same_eq in H1. subst d'. apply perm_rects_sound in H2, H3.
    split; [unfold step_post; splits; auto | split; assumption].
Qed.

(* every prefix of an admissible history: the step's own clauses (count >= n and aspect ratio <= r
   for the r, n of THAT call; refinement of the regions of the state it started from; rows x cols
   cells tiling the die), the die, the blockages and the fixed regions those of the start, and the
   regions still tiling the die *)
Theorem trace_sound : forall tr d0 d, die_inv d ->
  bbox d = bbox d0 -> blockages d = blockages d0 -> fixedr d = fixedr d0 ->
  trace_ok d tr = true ->
  Forall (fun s : DieSt * event =>
            let '(prev, (op, out, next)) := s in
            step_post prev op out next /\ die_inv next /\
            bbox next = bbox d0 /\ blockages next = blockages d0 /\ fixedr next = fixedr d0 /\
            tiles (refinable next ++ blockages d0 ++ fixedr d0) (bbox d0))
         (steps d tr).
Proof.
  induction tr as [|[[op out] d'] rest IH]; intros d0 d I Eb Ebl Ef H; cbn [steps]; [constructor|].
  cbn [trace_ok] in H. apply andb_true_iff in H. destruct H as [H1 H2].
  destruct (step_sound d op out d' I H1) as [P I'].
  pose proof P as (Pb & Pbl & Pf & _).
  assert (Eb' : bbox d' = bbox d0) by congruence.
  assert (Ebl' : blockages d' = blockages d0) by congruence.
  assert (Ef' : fixedr d' = fixedr d0) by congruence.
  constructor.
  - splits; auto. destruct I' as [_ T']. rewrite Eb', Ebl', Ef' in T'. exact T'.
  - apply (IH d0 d' I' Eb' Ebl' Ef' H2).
Qed.

Corollary history_sound : forall d0 tr, die_inv d0 -> trace_ok d0 tr = true ->
  Forall (fun s : DieSt * event =>
            let '(prev, (op, out, next)) := s in
            step_post prev op out next /\ die_inv next /\
            bbox next = bbox d0 /\ blockages next = blockages d0 /\ fixedr next = fixedr d0 /\
            tiles (refinable next ++ blockages d0 ++ fixedr d0) (bbox d0))
         (steps d0 tr).
Proof. intros d0 tr I H. apply (trace_sound tr d0 d0 I eq_refl eq_refl eq_refl H). Qed.

(* a prefix of an admissible history is an admissible history *)
Lemma trace_ok_app d tr1 tr2 : trace_ok d (tr1 ++ tr2) = trace_ok d tr1 && trace_ok (final d tr1) tr2.
Proof.
  revert d. induction tr1 as [|[[op out] d'] rest IH]; intro d; cbn [app trace_ok final]; [reflexivity|].
  rewrite IH, andb_assoc. reflexivity.
Qed.

(* ---------------- the model's own run ---------------- *)
Definition live (d : DieSt) : Prop := die_inv d /\ refinable d <> [].

Lemma live_wf d : live d -> Forall wf (refinable d).
Proof.
  intros [[_ (Tin & _)] _]. apply Forall_app in Tin. destruct Tin as [Tin _].
  eapply Forall_impl; [|exact Tin]. cbv beta. tauto.
Qed.

Lemma nonempty_of_length {A} (l : list A) n : (0 < n)%nat -> (n <= List.length l)%nat -> l <> [].
Proof. intros Hn L E. subst l. cbn in L. lia. Qed.

Lemma split_request_cases r n : ((0 < n)%Z /\ ar_limit < r) \/ ((n <= 0)%Z \/ r <= ar_limit).
Proof.
  destruct (Z.ltb_spec 0 n) as [Hn|Hn]; [|right; left; exact Hn].
  destruct (Qcltb ar_limit r) eqn:E; qb2p; [left; split; assumption | right; right; exact E].
Qed.

Theorem step_greedy_ok : forall d op, live d ->
  exists out d', step_greedy d op = Ok (out, d') /\ step_ok d op out d' = true /\ live d'.
Proof.
  intros d op Lv. pose proof (live_wf d Lv) as Wf. destruct Lv as [I NE].
  destruct op as [r n | nr nc |]; cbn [step_greedy].
  - destruct (split_request_cases r n) as [[Hn Hr]|Bad].
    + destruct (die_split_greedy_ok d r n Wf NE Hn Hr) as (d' & G & K). rewrite G.
      exists Returned, d'. split; [reflexivity|]. split; [exact K|].
      destruct (step_sound d (OSplit r n) Returned d' I K) as [P I'].
      split; [exact I'|]. destruct P as (_ & _ & _ & _ & _ & L & _).
      apply (nonempty_of_length _ (Z.to_nat n)); [lia | exact L].
    + assert (G : die_split_greedy d r n = Reject).
      { unfold die_split_greedy.
        rewrite (proj2 (split_rectangles_reject_iff (refinable d) r n Wf NE) Bad). reflexivity. }
      rewrite G. exists Raised, d. split; [reflexivity|]. split.
      * cbn [step_ok]. rewrite G. cbn [rejects andb]. apply die_same_refl.
      * split; assumption.
  - destruct (initial_grid d nr nc) as [m| |] eqn:G.
    + exists Returned, m. split; [reflexivity|].
      assert (K : step_ok d (OGrid nr nc) Returned m = true) by (cbn [step_ok]; rewrite G; apply die_perm_refl).
      split; [exact K|]. destruct (step_sound d (OGrid nr nc) Returned m I K) as [P I'].
      split; [exact I'|]. destruct P as (_ & _ & _ & Q & Es & L & _).
      destruct Q as (A1 & A2 & _). unfold refinable. rewrite Es. cbn [app].
      apply (nonempty_of_length _ (Z.to_nat nr * Z.to_nat nc)%nat); [nia | rewrite L; lia].
    + exfalso. exact (initial_grid_never_out_of_fuel d nr nc G).
    + exists Raised, d. split; [reflexivity|]. split.
      * cbn [step_ok]. rewrite G. cbn [rejects andb]. apply die_same_refl.
      * split; assumption.
  - exists (Lists (refinable d) (fixedr d)), d. split; [reflexivity|]. split.
    + cbn [step_ok]. rewrite die_same_refl, !perm_rects_refl. reflexivity.
    + split; assumption.
Qed.

(* the model's run is defined for every list of operations (it never runs out of fuel) and is an
   admissible history: every clause of history_sound holds of it *)
Theorem run_ops_ok : forall ops d, live d ->
  exists tr, run_ops d ops = Ok tr /\ trace_ok d tr = true /\ map (fun e : event => fst (fst e)) tr = ops.
Proof.
  induction ops as [|op rest IH]; intros d Lv; cbn [run_ops].
  - exists []. repeat split; reflexivity.
  - destruct (step_greedy_ok d op Lv) as (out & d' & G & K & Lv'). rewrite G.
    destruct (IH d' Lv') as (tr & R & T & M). rewrite R.
    exists ((op, out, d') :: tr). split; [reflexivity|]. split.
    + cbn [trace_ok]. rewrite K, T. reflexivity.
    + cbn [map fst]. rewrite M. reflexivity.
Qed.

(* ---------------- non-vacuity: the history of seeded/C11/r2-2 ---------------- *)
(* an empty 10 x 10 die: split(2, 1) leaves the single ground region, initial_grid(1, 5) gives five
   2 x 10 cells of aspect ratio 5, split(2, 5) must halve them down to aspect ratio <= 2 *)
Definition die10 : DieSt :=
  let b := mkRect (qc 5 1) (qc 5 1) (qc 10 1) (qc 10 1) false false KW_GROUND NOPOLY in
  mkDie b [] [b] [] [].
Definition ops_stale : list die_op := [OSplit (qc 2 1) 1; ORead; OGrid 1 5; OSplit (qc 2 1) 5; ORead].

Lemma die10_live : live die10.
Proof.
  split; [split|].
  - unfold wf, die10. cbn. split; qlra.
  - unfold die10, refinable. cbn [spec ground blockages fixedr bbox app]. apply tiles_self.
    unfold wf. cbn. split; qlra.
  - discriminate.
Qed.

Example stale_history :
  exists tr, run_ops die10 ops_stale = Ok tr /\ trace_ok die10 tr = true /\
    List.length (refinable (final die10 tr)) = 20%nat /\
    forallb (fun c => Qcleb (aspect_ratio c) (qc 2 1)) (refinable (final die10 tr)) = true.
Proof.
  destruct (run_ops_ok ops_stale die10 die10_live) as (tr & R & T & _).
  exists tr. split; [exact R|]. split; [exact T|].
  assert (E : run_ops die10 ops_stale = Ok tr) by exact R.
  vm_compute in E. injection E as <-. vm_compute. split; reflexivity.
Qed.
