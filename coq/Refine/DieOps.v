(* Histories of ONE Die object (frame/die/die.py): any sequence of
     split_refinable_regions(r, n), initial_grid(nrows, ncols), floorplanning_rectangles() / the
     region getters
   applied to the same object.  The Die keeps no state besides its five lists (DieRefine.DieSt),
   so what a call does is a function of the CURRENT lists and of the arguments of THAT call:
   the model of a history is the fold of the per-call models over the list of operations.
   An implementation that remembers anything else between calls (the last aspect ratio, a cached
   list of rectangles, ...) and uses it after the lists have changed is caught by comparing,
   after every step, the object's lists with the per-call model applied to the lists observed
   before the step.

   trace_ok : the verified checker of an observed history (phase 2 of a split is relational, see
              Phase2.v: which of several rectangles of maximum area is halved is not specified);
   run_ops  : the model's own run (largest-first with the first maximum).
   Definitions only; facts in DieOpsFacts.v. *)
From FrameModel Require Import Num.QcTac Geometry.Rect Refine.Phase1 Refine.Phase2 Refine.DieRefine.
Open Scope Qc_scope.

Inductive die_op :=
  | OSplit (r : Qc) (n : Z)            (* split_refinable_regions(r, n) *)
  | OGrid (nrows ncols : Z)            (* initial_grid(nrows, ncols) *)
  | ORead.                             (* floorplanning_rectangles() and the getters: no effect *)

Inductive outcome :=
  | Returned                           (* the call returned *)
  | Raised                             (* an assertion failed (or the empty heap was popped) *)
  | Lists (refin fixd : list Rect).    (* floorplanning_rectangles() returned (refin, fixd) *)

Definition event : Type := die_op * outcome * DieSt.       (* operation, outcome, the lists afterwards *)

Definition die_same (a b : DieSt) : bool :=
  same_rect (bbox a) (bbox b) && rects_eqb (spec a) (spec b) && rects_eqb (ground a) (ground b) &&
  rects_eqb (blockages a) (blockages b) && rects_eqb (fixedr a) (fixedr b).

(* the same die up to the order in which the refinable regions are listed (no order is promised) *)
Definition die_perm (a b : DieSt) : bool :=
  same_rect (bbox a) (bbox b) && perm_rects (spec a) (spec b) && perm_rects (ground a) (ground b) &&
  rects_eqb (blockages a) (blockages b) && rects_eqb (fixedr a) (fixedr b).

Definition rejects {A} (x : result A) : bool := match x with Reject => true | _ => false end.

(* d' is an admissible state after [op] was applied to d with this outcome *)
Definition step_ok (d : DieSt) (op : die_op) (out : outcome) (d' : DieSt) : bool :=
  match op, out with
  | OSplit r n, Returned => die_split_ok d r n d'
  | OSplit r n, Raised => rejects (die_split_greedy d r n) && die_same d d'
  | OGrid nr nc, Returned =>
      match initial_grid d nr nc with Ok m => die_perm m d' | _ => false end
  | OGrid nr nc, Raised => rejects (initial_grid d nr nc) && die_same d d'
  | ORead, Lists refin fixd =>
      die_same d d' && perm_rects (refinable d) refin && perm_rects (fixedr d) fixd
  | _, _ => false
  end.

(* every step of an observed history is admissible from the state the previous step left *)
Fixpoint trace_ok (d : DieSt) (tr : list event) : bool :=
  match tr with
  | [] => true
  | (op, out, d') :: rest => step_ok d op out d' && trace_ok d' rest
  end.

(* the steps of a history with the state each one started from *)
Fixpoint steps (d : DieSt) (tr : list event) : list (DieSt * event) :=
  match tr with
  | [] => []
  | (op, out, d') :: rest => (d, (op, out, d')) :: steps d' rest
  end.

(* ---- the model's own run ---- *)
Definition step_greedy (d : DieSt) (op : die_op) : result (outcome * DieSt) :=
  match op with
  | OSplit r n =>
      match die_split_greedy d r n with
      | Ok d' => Ok (Returned, d')
      | Reject => Ok (Raised, d)
      | OutOfFuel => OutOfFuel
      end
  | OGrid nr nc =>
      match initial_grid d nr nc with
      | Ok d' => Ok (Returned, d')
      | Reject => Ok (Raised, d)
      | OutOfFuel => OutOfFuel
      end
  | ORead => Ok (Lists (refinable d) (fixedr d), d)
  end.

Fixpoint run_ops (d : DieSt) (ops : list die_op) : result (list event) :=
  match ops with
  | [] => Ok []
  | op :: rest =>
      match step_greedy d op with
      | Ok (out, d') =>
          match run_ops d' rest with
          | Ok tr => Ok ((op, out, d') :: tr)
          | OutOfFuel => OutOfFuel
          | Reject => Reject
          end
      | OutOfFuel => OutOfFuel
      | Reject => Reject
      end
  end.

(* the state a history ends in *)
Fixpoint final (d : DieSt) (tr : list event) : DieSt :=
  match tr with
  | [] => d
  | (_, _, d') :: rest => final d' rest
  end.
