(* Facts about phase 2 of split_rectangles (model: Phase2.v): the checker is sound, and it
   accepts what the model's own algorithm produces. *)
From FrameModel Require Import Num.QcTac Geometry.Rect Geometry.RectFacts Geometry.SplitFacts
  Refine.TilesFacts Refine.Phase1 Refine.Phase1Fuel Refine.Phase1Facts Refine.Phase2.
From Coq Require Import Permutation.
Open Scope Qc_scope.

(* ---------------- equality, membership, removal ---------------- *)
Lemma loc_eqb_iff a b : loc_eqb a b = true <-> a = b.
Proof. destruct a, b; cbn; split; intros; try discriminate; reflexivity. Qed.

Lemma same_rect_eq a b : same_rect a b = true <-> a = b.
Proof.
  split.
  - unfold same_rect. intro H. repeat (apply andb_true_iff in H; destruct H as [H ?]). qb2p.
    destruct a as [x1 y1 w1 h1 f1 d1 g1 l1], b as [x2 y2 w2 h2 f2 d2 g2 l2]; cbn [cx cy rw rh fixed hard region rloc] in *.
    repeat match goal with H : Bool.eqb _ _ = true |- _ => apply eqb_prop in H end.
    match goal with H : String.eqb _ _ = true |- _ => apply String.eqb_eq in H end.
    match goal with H : loc_eqb _ _ = true |- _ => apply loc_eqb_iff in H end.
    congruence.
  - intros ->. unfold same_rect. rewrite !andb_true_iff.
    splits; try (apply Qceqb_true; reflexivity); try apply eqb_reflx; try apply String.eqb_refl.
    apply loc_eqb_iff. reflexivity.
Qed.
Lemma same_rect_refl a : same_rect a a = true.
Proof. apply same_rect_eq. reflexivity. Qed.

Lemma rects_eqb_eq a b : rects_eqb a b = true <-> a = b.
Proof.
  revert b. induction a as [|x a IH]; intros [|y b]; cbn [rects_eqb]; split; intro H; try discriminate; auto.
  - apply andb_true_iff in H. destruct H as [E H]. apply same_rect_eq in E. apply IH in H. congruence.
  - injection H as -> ->. rewrite same_rect_refl. apply IH. reflexivity.
Qed.

Lemma mem_In x l : mem x l = true <-> In x l.
Proof.
  induction l as [|y l IH]; cbn [mem In]; [split; [discriminate|tauto]|].
  destruct (same_rect x y) eqn:E.
  - apply same_rect_eq in E. subst. tauto.
  - rewrite IH. split; [tauto|]. intros [->|H]; [|exact H]. rewrite same_rect_refl in E. discriminate.
Qed.
Lemma mem_app x l1 l2 : mem x (l1 ++ l2) = mem x l1 || mem x l2.
Proof. induction l1 as [|y l1 IH]; cbn [mem app orb]; [reflexivity|]. destruct (same_rect x y); auto. Qed.

Lemma remove1_perm x l l' : remove1 x l = Some l' -> Permutation l (x :: l').
Proof.
  revert l'. induction l as [|y l IH]; intros l' H; cbn [remove1] in H; [discriminate|].
  destruct (same_rect x y) eqn:E.
  - injection H as <-. apply same_rect_eq in E. subst. apply Permutation_refl.
  - destruct (remove1 x l) as [l0|]; cbn [option_map] in H; [|discriminate]. injection H as <-.
    eapply Permutation_trans; [apply perm_skip; apply IH; reflexivity|]. apply perm_swap.
Qed.
Lemma remove1_head x l : remove1 x (x :: l) = Some l.
Proof. cbn [remove1]. rewrite same_rect_refl. reflexivity. Qed.

(* the multiset comparison of the correspondence *)
Lemma perm_rects_sound a : forall b, perm_rects a b = true -> Permutation a b.
Proof.
  induction a as [|x a IH]; intros b H; cbn [perm_rects] in H.
  - destruct b; [constructor | discriminate].
  - destruct (remove1 x b) as [b'|] eqn:R; [|discriminate].
    apply remove1_perm in R. apply Permutation_sym in R.
    eapply Permutation_trans; [|exact R]. constructor. apply IH. exact H.
Qed.
Lemma perm_rects_refl a : perm_rects a a = true.
Proof. induction a as [|x a IH]; cbn [perm_rects]; [reflexivity|]. rewrite remove1_head. exact IH. Qed.

(* ---------------- the checker, unfolded ---------------- *)
Lemma tree_ok_cases fuel p g k : tree_ok fuel p g k = true ->
  (exists g', remove1 p g = Some g' /\ k g' = true) \/
  (exists f a b, fuel = S f /\ has_inside p g = true /\ split p = Some (a, b) /\
     tree_ok f b g (fun g1 => tree_ok f a g1 k) = true).
Proof.
  destruct fuel as [|f]; cbn [tree_ok]; intro H.
  - destruct (remove1 p g) as [g'|]; [|discriminate]. destruct (k g') eqn:K; [|discriminate]. left. eauto.
  - destruct (remove1 p g) as [g'|].
    + destruct (k g') eqn:K; [left; eauto|].
      destruct (has_inside p g); [|discriminate]. destruct (split p) as [[a b]|]; [|discriminate].
      right. exists f, a, b. auto.
    + destruct (has_inside p g); [|discriminate]. destruct (split p) as [[a b]|]; [|discriminate].
      right. exists f, a, b. auto.
Qed.
Lemma tree_ok_leaf fuel p g g' k : remove1 p g = Some g' -> k g' = true -> tree_ok fuel p g k = true.
Proof. intros R K. destruct fuel; cbn [tree_ok]; rewrite R, K; reflexivity. Qed.
Lemma tree_ok_node f p a b g k : has_inside p g = true -> split p = Some (a, b) ->
  tree_ok f b g (fun g1 => tree_ok f a g1 k) = true -> tree_ok (S f) p g k = true.
Proof.
  intros I S T. cbn [tree_ok].
  destruct (match remove1 p g with Some g' => k g' | None => false end); [reflexivity|].
  rewrite I, S. exact T.
Qed.

(* ---------------- soundness ---------------- *)
Lemma tree_ok_sound : forall fuel p g k, tree_ok fuel p g k = true ->
  exists l g', Permutation g (l ++ g') /\ htree p l /\ k g' = true.
Proof.
  induction fuel as [|f IH]; intros p g k H; apply tree_ok_cases in H;
    destruct H as [(g' & R & K)|(f' & a & b & E & _ & S & T)]; try discriminate.
  - exists [p], g'. splits; [apply remove1_perm; exact R|constructor|exact K].
  - exists [p], g'. splits; [apply remove1_perm; exact R|constructor|exact K].
  - injection E as <-.
    apply IH in T. destruct T as (lb & g1 & P1 & Hb & T).
    apply IH in T. destruct T as (la & g2 & P2 & Ha & K).
    exists (lb ++ la), g2. splits; [|econstructor; eauto|exact K].
    rewrite <- app_assoc. eapply Permutation_trans; [exact P1|]. apply Permutation_app_head. exact P2.
Qed.

Lemma forest_ok_sound fuel : forall ps g, forest_ok fuel ps g = true ->
  exists gs, Permutation g (List.concat gs) /\ Forall2 (fun p l => htree p l) ps gs.
Proof.
  induction ps as [|p ps IH]; intros g H; cbn [forest_ok] in H.
  - destruct g; [|discriminate]. exists []. split; constructor.
  - apply tree_ok_sound in H. destruct H as (l & g' & P & Hp & H).
    apply IH in H. destruct H as (gs & P' & F). exists (l :: gs). cbn [List.concat]. split.
    + eapply Permutation_trans; [exact P|]. apply Permutation_app_head. exact P'.
    + constructor; auto.
Qed.

Lemma Forall2_htree_tiles ps gs : Forall wf ps -> Forall2 (fun p l => htree p l) ps gs ->
  Forall2 (fun p g => tiles g p /\ Forall (same_attrs p) g) ps gs.
Proof.
  intros W F. induction F as [|p l ps gs H _ IH]; constructor.
  - inversion W; subst. destruct (htree_tiles p l H) as (T & A & _); auto.
  - apply IH. inversion W; auto.
Qed.

Lemma forallb_compliant r l : forallb (compliantb r) l = true <-> Forall (compliant r) l.
Proof.
  rewrite forallb_forall, Forall_forall. unfold compliantb, compliant.
  split; intros H x Hx; specialize (H x Hx); qb2p; exact H.
Qed.

(* whatever the checker accepts has the property's clauses *)
Theorem phase2_sound : forall p1 out r n, Forall wf p1 -> phase2_ok p1 out r n = true ->
  (n <= List.length out)%nat /\ Forall (compliant r) out /\
  exists gs, Permutation out (List.concat gs) /\
    Forall2 (fun p g => htree p g) p1 gs /\
    Forall2 (fun p g => tiles g p /\ Forall (same_attrs p) g) p1 gs.
Proof.
  intros p1 out r n W H. unfold phase2_ok in H.
  apply andb_true_iff in H. destruct H as [H L]. apply andb_true_iff in H. destruct H as [F C].
  apply Nat.leb_le in L. apply forallb_compliant in C. apply forest_ok_sound in F.
  destruct F as (gs & P & F). splits; auto. exists gs. splits; auto. apply Forall2_htree_tiles; auto.
Qed.

(* ---------------- completeness on forests in emission order ---------------- *)
Lemma htree_inside p l : htree p l -> wf p -> Forall (fun c => is_inside c p = true) l.
Proof.
  intros H W. destruct (htree_tiles p l H W) as ((I & _) & _).
  eapply Forall_impl; [|exact I]. cbv beta. tauto.
Qed.

Lemma tree_ok_complete : forall p l, htree p l -> wf p -> forall fuel rest k,
  (List.length l <= fuel)%nat -> k rest = true -> tree_ok fuel p (l ++ rest) k = true.
Proof.
  induction 1 as [p|p a b la lb S Ha IHa Hb IHb]; intros W fuel rest k Hf Hk.
  - eapply tree_ok_leaf; [apply remove1_head|exact Hk].
  - destruct (split_facts p a b W S) as (Wa & Wb & T & _).
    pose proof (htree_length _ _ Ha) as La. pose proof (htree_length _ _ Hb) as Lb.
    rewrite app_length in Hf. destruct fuel as [|f]; [lia|].
    apply tree_ok_node with (a := a) (b := b); auto.
    + destruct lb as [|c lb']; [cbn in Lb; lia|].
      pose proof (htree_inside _ _ Hb Wb) as I. inversion I as [|? ? Ic _]; subst.
      destruct T as (Tin & _). inversion Tin as [|? ? _ Tin']; subst. inversion Tin' as [|? ? [_ Ib] _]; subst.
      cbn [app has_inside existsb]. rewrite (is_inside_trans c b p Ic Ib). reflexivity.
    + rewrite <- app_assoc. apply IHb; [exact Wb|lia|]. apply IHa; [exact Wa|lia|exact Hk].
Qed.

Lemma forest_ok_complete : forall ps gs, Forall2 (fun p l => htree p l) ps gs -> Forall wf ps ->
  forall fuel, (List.length (List.concat gs) <= fuel)%nat -> forest_ok fuel ps (List.concat gs) = true.
Proof.
  induction 1 as [|p l ps gs H _ IH]; intros W fuel Hf; cbn [forest_ok List.concat]; [reflexivity|].
  inversion W; subst. cbn [List.concat] in Hf. rewrite app_length in Hf.
  apply tree_ok_complete; auto; [lia|]. apply IH; auto. lia.
Qed.

(* ---------------- the model's own algorithm ---------------- *)
Lemma replace_first_notin x s l : mem x l = false -> replace_first x s l = l.
Proof.
  induction l as [|y l IH]; cbn [mem replace_first]; [reflexivity|].
  destruct (same_rect x y); [discriminate|]. intro H. rewrite IH; auto.
Qed.
Lemma replace_first_app x s l1 l2 :
  replace_first x s (l1 ++ l2) =
  if mem x l1 then replace_first x s l1 ++ l2 else l1 ++ replace_first x s l2.
Proof.
  induction l1 as [|y l1 IH]; cbn [mem replace_first app]; [reflexivity|].
  destruct (same_rect x y); [rewrite app_assoc; reflexivity|].
  rewrite IH. destruct (mem x l1); reflexivity.
Qed.
Lemma replace_first_length x s l : mem x l = true ->
  (List.length (replace_first x s l) + 1 = List.length l + List.length s)%nat.
Proof.
  induction l as [|y l IH]; cbn [mem replace_first]; [discriminate|].
  destruct (same_rect x y); intro H.
  - rewrite app_length. cbn [List.length]. lia.
  - cbn [List.length]. specialize (IH H). lia.
Qed.
Lemma replace_first_Forall (P : Rect -> Prop) x s l :
  Forall P l -> Forall P s -> Forall P (replace_first x s l).
Proof.
  intros Hl Hs. induction Hl as [|y l Hy Hl IH]; cbn [replace_first]; [constructor|].
  destruct (same_rect x y); [apply Forall_app; auto|constructor; auto].
Qed.

Lemma htree_replace p l : htree p l -> forall x s, mem x l = true -> htree x s ->
  htree p (replace_first x s l).
Proof.
  induction 1 as [p|p a b la lb S Ha IHa Hb IHb]; intros x s M Hx.
  - cbn [mem replace_first] in *. destruct (same_rect x p) eqn:E; [|discriminate].
    apply same_rect_eq in E. subst. rewrite app_nil_r. exact Hx.
  - rewrite replace_first_app. rewrite mem_app in M. destruct (mem x lb) eqn:Mb.
    + econstructor; eauto.
    + cbn [orb] in M. econstructor; eauto.
Qed.

Lemma forest_replace ps gs : Forall2 (fun p l => htree p l) ps gs -> forall x s,
  mem x (List.concat gs) = true -> htree x s ->
  exists gs', replace_first x s (List.concat gs) = List.concat gs' /\
              Forall2 (fun p l => htree p l) ps gs'.
Proof.
  induction 1 as [|p l ps gs H F IH]; intros x s M Hx; cbn [List.concat] in *; [discriminate|].
  rewrite replace_first_app. rewrite mem_app in M. destruct (mem x l) eqn:Ml.
  - exists (replace_first x s l :: gs). split; [reflexivity|]. constructor; auto. apply htree_replace; auto.
  - cbn [orb] in M. destruct (IH x s M Hx) as (gs' & E & F'). exists (l :: gs'). cbn [List.concat].
    rewrite E. split; [reflexivity|]. constructor; auto.
Qed.

Lemma first_max_in l : forall best, In (first_max best l) (best :: l).
Proof.
  induction l as [|y l IH]; intro best; cbn [first_max]; [left; reflexivity|].
  destruct (Qcltb (area best) (area y)).
  - destruct (IH y) as [E|I]; [right; left; exact E|right; right; exact I].
  - destruct (IH best) as [E|I]; [left; exact E|right; right; exact I].
Qed.

(* one step: the pieces are the leaves of a tree rooted at x, at least two, all compliant *)
Lemma unit_split_sound r x ps : unit_split r x = Ok ps ->
  htree x ps /\ Forall (compliant r) ps /\ Forall wf ps /\ (2 <= List.length ps)%nat.
Proof.
  unfold unit_split. destruct (split x) as [[a b]|] eqn:S; [|discriminate]. intro H.
  apply phase1_sound in H. destruct H as (_ & _ & _ & gs & -> & HT & _ & C & W).
  cbn [rev app] in HT. inversion HT as [|? gb ? gs1 Hb HT1]; subst. inversion HT1 as [|? ga ? gs2 Ha HT2]; subst.
  inversion HT2; subst. cbn [List.concat] in *. rewrite app_nil_r in *.
  splits; auto; [econstructor; eauto|].
  rewrite app_length. apply htree_length in Ha. apply htree_length in Hb. lia.
Qed.
Theorem unit_split_len r x ps : unit_split r x = Ok ps -> (2 <= List.length ps)%nat.
Proof. intro H. apply (unit_split_sound r x ps H). Qed.
Lemma unit_split_total r x : ar_limit < r -> wf x -> exists ps, unit_split r x = Ok ps.
Proof.
  intros Hr W. unfold unit_split. destruct (split_total x W) as (a & b & S). rewrite S.
  destruct (split_wf x a b W S) as [Wa Wb]. apply Phase1Facts.phase1_fuel; auto. lia.
Qed.

Lemma greedy_loop_ok r n : ar_limit < r -> forall steps heap ps gs,
  Forall2 (fun p l => htree p l) ps gs -> heap = List.concat gs -> heap <> [] ->
  Forall (compliant r) heap -> Forall wf heap -> (n <= List.length heap + steps)%nat ->
  exists out gs', phase2_greedy_loop steps r n heap = Ok out /\ out = List.concat gs' /\
    Forall2 (fun p l => htree p l) ps gs' /\ Forall (compliant r) out /\ (n <= List.length out)%nat.
Proof.
  intro Hr. induction steps as [|s IH]; intros heap ps gs F E NE C W L; cbn [phase2_greedy_loop];
    destruct (n <=? List.length heap)%nat eqn:Ln.
  - apply Nat.leb_le in Ln. exists heap, gs. auto.
  - apply Nat.leb_gt in Ln. lia.
  - apply Nat.leb_le in Ln. exists heap, gs. auto.
  - apply Nat.leb_gt in Ln. destruct heap as [|y l]; [congruence|]. cbv zeta.
    pose proof (first_max_in l y) as Hin. set (x := first_max y l) in *.
    assert (Wx : wf x) by (rewrite Forall_forall in W; apply W; exact Hin).
    destruct (unit_split_total r x Hr Wx) as (pieces & U). rewrite U.
    destruct (unit_split_sound r x pieces U) as (Hx & Cx & Wp & Lp).
    assert (M : mem x (y :: l) = true) by (apply mem_In; exact Hin).
    pose proof (replace_first_length x pieces (y :: l) M) as RL.
    rewrite E in M. destruct (forest_replace ps gs F x pieces M Hx) as (gs' & E' & F').
    rewrite <- E in E'.
    apply (IH (replace_first x pieces (y :: l)) ps gs'); auto.
    + intro Z. rewrite Z in RL. cbn [List.length] in RL. lia.
    + apply replace_first_Forall; auto.
    + apply replace_first_Forall; auto.
    + cbn [List.length] in *. lia.
Qed.

Lemma concat_singletons (l : list Rect) : List.concat (map (fun p => [p]) l) = l.
Proof. induction l as [|x l IH]; cbn; [reflexivity|]. rewrite IH. reflexivity. Qed.

(* the model's algorithm returns, and the checker accepts what it returns *)
Theorem phase2_greedy_ok : forall p1 r n, ar_limit < r -> Forall wf p1 -> Forall (compliant r) p1 ->
  p1 <> [] -> exists out, phase2_greedy p1 r n = Ok out /\ phase2_ok p1 out r n = true.
Proof.
  intros p1 r n Hr W C NE. unfold phase2_greedy.
  assert (F : Forall2 (fun p l => htree p l) p1 (map (fun p => [p]) p1)).
  { clear. induction p1; constructor; auto. constructor. }
  destruct (greedy_loop_ok r n Hr n p1 p1 _ F (eq_sym (concat_singletons p1)) NE C W ltac:(lia))
    as (out & gs' & G & -> & F' & C' & L).
  exists (List.concat gs'). split; [exact G|]. unfold phase2_ok.
  rewrite forest_ok_complete; auto. cbn [andb].
  rewrite (proj2 (forallb_compliant r _) C'). cbn [andb]. apply Nat.leb_le. exact L.
Qed.

(* hence (soundness of the checker) the algorithm's result has the property's clauses *)
Corollary phase2_greedy_sound : forall p1 r n, ar_limit < r -> Forall wf p1 -> Forall (compliant r) p1 ->
  p1 <> [] -> exists out, phase2_greedy p1 r n = Ok out /\
    (n <= List.length out)%nat /\ Forall (compliant r) out /\
    exists gs, Permutation out (List.concat gs) /\
      Forall2 (fun p g => tiles g p /\ Forall (same_attrs p) g) p1 gs.
Proof.
  intros p1 r n Hr W C NE. destruct (phase2_greedy_ok p1 r n Hr W C NE) as (out & G & K).
  exists out. split; [exact G|]. destruct (phase2_sound p1 out r n W K) as (L & C' & gs & P & _ & T).
  splits; auto. exists gs. auto.
Qed.

(* ---------------- why the repair was needed ---------------- *)
(* halving alone (the unrepaired phase 2) does not keep the limit: a unit square is compliant
   for r = 3/2, its halves are 1:2 (aspect ratio 2); the repaired step yields four squares *)
Definition unit_square : Rect := mkRect half half 1 1 false false "_"%string NOPOLY.
Example halving_alone_refuted :
  compliant (qc 3 2) unit_square /\
  exists a b, split unit_square = Some (a, b) /\ ~ compliant (qc 3 2) a /\ ~ compliant (qc 3 2) b.
Proof.
  split; [unfold compliant; apply Qcleb_true; vm_compute; reflexivity|].
  destruct (split unit_square) as [[a b]|] eqn:S; [|vm_compute in S; discriminate].
  exists a, b. split; [reflexivity|].
  vm_compute in S. injection S as <- <-.
  split; unfold compliant; intro H; apply Qcleb_true in H; vm_compute in H; discriminate.
Qed.
Example repaired_step_example :
  exists ps, unit_split (qc 3 2) unit_square = Ok ps /\ List.length ps = 4%nat /\
             forallb (compliantb (qc 3 2)) ps = true.
Proof.
  destruct (unit_split (qc 3 2) unit_square) as [ps| |] eqn:U; try (vm_compute in U; discriminate).
  exists ps. split; [reflexivity|]. vm_compute in U. injection U as <-. split; vm_compute; reflexivity.
Qed.
Example phase2_example :
  exists out, phase2_greedy [unit_square] (qc 3 2) 6 = Ok out /\ List.length out = 7%nat /\
              phase2_ok [unit_square] out (qc 3 2) 6 = true /\ phase2_tight [unit_square] out (qc 3 2) 6 = true.
Proof.
  destruct (phase2_greedy [unit_square] (qc 3 2) 6) as [out| |] eqn:U; try (vm_compute in U; discriminate).
  exists out. split; [reflexivity|]. vm_compute in U. injection U as <-. splits; vm_compute; reflexivity.
Qed.
