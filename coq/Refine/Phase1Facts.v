(* Facts about phase 1 of split_rectangles (model: Phase1.v). *)
From FrameModel Require Import Num.QcTac Geometry.Rect Geometry.RectFacts Geometry.SplitFacts
  Refine.TilesFacts Refine.Phase1 Refine.Phase1Fuel.
Open Scope Qc_scope.

(* [htree p l]: l lists the leaves of a tree obtained from p by [split] (halving the longer
   side), second half first - the order in which the stack of phase 1 emits them *)
Inductive htree : Rect -> list Rect -> Prop :=
| ht_leaf p : htree p [p]
| ht_node p a b la lb : split p = Some (a, b) -> htree a la -> htree b lb -> htree p (lb ++ la).

Lemma wfb_wf x : wfb x = true -> wf x.
Proof. unfold wfb, wf. intro H. qb2p. auto. Qed.

Lemma same_attrs_refl p : same_attrs p p.
Proof. unfold same_attrs. auto. Qed.
Lemma same_attrs_trans p q c : same_attrs p q -> same_attrs q c -> same_attrs p c.
Proof. unfold same_attrs. intros (A & B & C) (D & E & F). splits; congruence. Qed.

Lemma split_facts p a b : wf p -> split p = Some (a, b) ->
  wf a /\ wf b /\ tiles [a; b] p /\ same_attrs p a /\ same_attrs p b.
Proof.
  intros W S. destruct (split_halves p W) as (r1 & r2 & S' & T & _ & _ & A1 & A2 & _).
  rewrite S in S'. injection S' as <- <-.
  destruct (split_wf p a b W S) as [Wa Wb]. splits; auto.
Qed.

Lemma htree_nonempty p l : htree p l -> l <> [].
Proof.
  induction 1 as [p|p a b la lb S Ha IHa Hb IHb]; [discriminate|].
  intro E. apply app_eq_nil in E. destruct E. auto.
Qed.
Lemma htree_length p l : htree p l -> (1 <= List.length l)%nat.
Proof. intro H. apply htree_nonempty in H. destruct l; [congruence|cbn; lia]. Qed.

(* the leaves tile the root, lie inside it, are well formed and carry its attributes *)
Theorem htree_tiles p l : htree p l -> wf p ->
  tiles l p /\ Forall (same_attrs p) l /\ Forall wf l.
Proof.
  induction 1 as [p|p a b la lb S Ha IHa Hb IHb]; intro W.
  - split; [apply tiles_self; exact W|]. split.
    + constructor; [apply same_attrs_refl|constructor].
    + constructor; [exact W|constructor].
  - destruct (split_facts p a b W S) as (Wa & Wb & T & Aa & Ab).
    destruct (IHa Wa) as (Ta & Sa & Fa). destruct (IHb Wb) as (Tb & Sb & Fb).
    splits.
    + exact (tiles_pair a b p la lb T Ta Tb).
    + apply Forall_app. split.
      * eapply Forall_impl; [|exact Sb]. intros c Hc. exact (same_attrs_trans p b c Ab Hc).
      * eapply Forall_impl; [|exact Sa]. intros c Hc. exact (same_attrs_trans p a c Aa Hc).
    + apply Forall_app. auto.
Qed.

(* ---- the loop invariant ---- *)
Lemma phase1_loop_inv r : forall fuel q heap out, phase1_loop fuel r q heap = Ok out ->
  exists gs, out = rev heap ++ List.concat gs /\
    Forall2 (fun x g => wf x /\ htree x g) q gs /\
    Forall (compliant r) (List.concat gs).
Proof.
  induction fuel as [|f IH]; intros q heap out H.
  - destruct q; cbn in H; [|discriminate]. injection H as <-. exists []. cbn. rewrite app_nil_r. auto.
  - destruct q as [|x q']; cbn [phase1_loop] in H.
    + injection H as <-. exists []. cbn. rewrite app_nil_r. auto.
    + destruct (wfb x) eqn:Wb; cbn [negb] in H; [|discriminate]. apply wfb_wf in Wb.
      destruct (Qcltb r (aspect_ratio x)) eqn:E.
      * destruct (split x) as [[a b]|] eqn:S; [|discriminate].
        apply IH in H. destruct H as (gs & -> & F2 & C).
        inversion F2 as [|? gb ? gs1 [Wb' Hb] F2' ]; subst.
        inversion F2' as [|? ga ? gs2 [Wa' Ha] F2'' ]; subst.
        exists ((gb ++ ga) :: gs2). cbn [List.concat] in *. rewrite <- app_assoc. splits; auto.
        constructor; auto. split; auto. econstructor; eauto.
      * apply IH in H. destruct H as (gs & -> & F2 & C).
        exists ([x] :: gs). cbn [List.concat rev]. rewrite <- app_assoc. cbn [app]. splits; auto.
        -- constructor; auto. split; auto. constructor.
        -- cbn [app]. constructor; auto. qb2p. exact E.
Qed.

(* phase 1 as a whole: the result is, original rectangle by original rectangle (last one
   first - the deque is popped from the right), a list of pieces that tile it, carry its
   attributes, and all have aspect ratio <= r; the asserts held *)
Theorem phase1_sound : forall fuel rs r n out, phase1 fuel rs r n = Ok out ->
  (0 < n)%Z /\ ar_limit < r /\ Forall wf rs /\
  exists gs, out = List.concat gs /\
    Forall2 (fun p g => htree p g) (rev rs) gs /\
    Forall2 (fun p g => tiles g p /\ Forall (same_attrs p) g) (rev rs) gs /\
    Forall (compliant r) out /\ Forall wf out.
Proof.
  unfold phase1. intros fuel rs r n out H.
  destruct (n <=? 0)%Z eqn:En; [discriminate|]. apply Z.leb_gt in En.
  destruct (Qcleb r ar_limit) eqn:Er; [discriminate|]. qb2p.
  apply phase1_loop_inv in H. destruct H as (gs & -> & F2 & C). cbn [rev app].
  assert (W : Forall wf (rev rs)).
  { clear C. induction F2 as [|x g q gs' [Wx _] _ IH]; constructor; auto. }
  splits; auto.
  - apply Forall_rev in W. rewrite rev_involutive in W. exact W.
  - exists gs. splits; auto.
    + clear C W. induction F2 as [|x g q gs' [Wx Hx] _ IH]; constructor; auto.
    + clear C W. induction F2 as [|x g q gs' [Wx Hx] _ IH]; constructor; auto.
      destruct (htree_tiles x g Hx Wx) as (T & A & _). auto.
    + clear C W. induction F2 as [|x g q gs' [Wx Hx] _ IH]; cbn [List.concat]; [constructor|].
      apply Forall_app. split; auto. apply (htree_tiles x g Hx Wx).
Qed.

Corollary phase1_tiles : forall fuel rs r n out, phase1 fuel rs r n = Ok out ->
  exists gs, out = List.concat gs /\
    Forall2 (fun p g => tiles g p /\ Forall (same_attrs p) g) (rev rs) gs.
Proof. intros. apply phase1_sound in H. destruct H as (_ & _ & _ & gs & E & _ & T & _). eauto. Qed.

Corollary phase1_aspect : forall fuel rs r n out, phase1 fuel rs r n = Ok out ->
  Forall (compliant r) out.
Proof. intros. apply phase1_sound in H. destruct H as (_ & _ & _ & gs & _ & _ & _ & C & _). exact C. Qed.

(* nothing is lost: at least as many pieces as rectangles *)
Lemma concat_length_ge {A B} (R : A -> list B -> Prop) q gs :
  Forall2 R q gs -> (forall x g, R x g -> (1 <= List.length g)%nat) ->
  (List.length q <= List.length (List.concat gs))%nat.
Proof.
  intros F H. induction F as [|x g q' gs' Hx _ IH]; cbn [List.concat List.length]; [lia|].
  rewrite app_length. specialize (H x g Hx). lia.
Qed.
Theorem phase1_length : forall fuel rs r n out, phase1 fuel rs r n = Ok out ->
  (List.length rs <= List.length out)%nat.
Proof.
  intros. apply phase1_sound in H. destruct H as (_ & _ & _ & gs & -> & HT & _).
  rewrite <- (rev_length rs). eapply concat_length_ge; [exact HT|]. intros x g. apply htree_length.
Qed.

(* the termination argument: the fuel computed by the model always suffices (r > 1.415 => r*r > 2) *)
Theorem phase1_fuel : forall rs r n, Forall wf rs -> (0 < n)%Z -> ar_limit < r ->
  exists out, phase1 (phase1_fuel rs) rs r n = Ok out.
Proof. intros. eapply phase1_fuel_suffices; eauto. Qed.

(* the only rejections: a failing assert or a rectangle of non-positive size *)
Theorem phase1_reject_iff : forall rs r n, Forall wf rs ->
  (phase1 (Phase1.phase1_fuel rs) rs r n = Reject <-> ((n <= 0)%Z \/ r <= ar_limit)).
Proof.
  intros rs r n W. split.
  - intro H. destruct (Z_le_gt_dec n 0) as [L|G]; [auto|].
    destruct (Qcleb r ar_limit) eqn:E; qb2p; [auto|].
    destruct (phase1_fuel rs r n W ltac:(lia) E) as [out O]. congruence.
  - unfold phase1. intros [L|L].
    + apply Z.leb_le in L. rewrite L. reflexivity.
    + destruct (n <=? 0)%Z; [reflexivity|]. apply Qcleb_true in L. rewrite L. reflexivity.
Qed.

(* non-vacuity: a 4 x 1 strip with limit 3/2 is cut into four squares *)
Example phase1_example :
  exists out, phase1 (Phase1.phase1_fuel [ex_rect]) [ex_rect] (qc 3 2) 1 = Ok out /\ List.length out = 4%nat.
Proof. destruct phase1_ex as (_ & out & H & L & _). eauto. Qed.
