(* rectangle_grid(nrows, ncols) for every size: number of cells, definedness,
   attributes of the cells, and the fact that the cells tile the rectangle.
   The tiling is obtained from a 1-D lemma (equal steps along one axis) used
   twice: the horizontal strips tile the rectangle, the cells of a row tile
   their strip; [tiles_concat] composes the two. *)
From FrameModel Require Import Num.QcTac Geometry.Rect Geometry.RectFacts Geometry.SplitFacts.
From FrameModel Require Import Refine.TilesFacts.
Open Scope Qc_scope.

(* ---------------- naturals as rationals ---------------- *)
Lemma ofnat_0 : ofnat 0 = 0.
Proof. apply Qc_is_canon. reflexivity. Qed.

Lemma ofnat_S n : ofnat (S n) = ofnat n + 1.
Proof.
  apply Qc_is_canon. rewrite this_plus. unfold ofnat. rewrite !this_Q2Qc.
  rewrite Nat2Z.inj_succ. unfold Z.succ. rewrite inject_Z_plus. reflexivity.
Qed.

Lemma ofnat_nonneg n : 0 <= ofnat n.
Proof.
  induction n as [|n IH]; [rewrite ofnat_0; apply Qcle_refl|].
  rewrite ofnat_S. generalize dependent (ofnat n). intros q IH. qlra.
Qed.

Lemma ofnat_pos n : (0 < n)%nat -> 0 < ofnat n.
Proof.
  destruct n as [|n]; [lia|]. intros _. rewrite ofnat_S.
  pose proof (ofnat_nonneg n) as H. generalize dependent (ofnat n). intros q H. qlra.
Qed.

Lemma ofnat_neq0 n : (0 < n)%nat -> ofnat n <> 0.
Proof.
  intro H. apply ofnat_pos in H. generalize dependent (ofnat n). intros q H. qlra.
Qed.

Lemma ofnat_lt a b : (a < b)%nat -> ofnat a + 1 <= ofnat b.
Proof.
  unfold lt. induction 1 as [|m _ IH].
  - rewrite ofnat_S. apply Qcle_refl.
  - rewrite ofnat_S. generalize dependent (ofnat a). generalize (ofnat m). intros p q IH. qlra.
Qed.

Lemma step_le a b xs : 0 <= xs -> a <= b -> a * xs <= b * xs.
Proof. intros H1 H2. apply Qcmult_le_compat_r; assumption. Qed.

Lemma div_mul a b : b <> 0 -> a / b * b = a.
Proof. intro H. field. exact H. Qed.

Lemma div_pos a b : 0 < a -> 0 < b -> 0 < a / b.
Proof.
  intros Ha Hb.
  assert (E : a / b * b = a) by (apply div_mul; intro E; rewrite E in Hb; clear - Hb; qlra).
  destruct (Qcltb 0 (a / b)) eqn:L; qb2p; [exact L|]. exfalso.
  assert (M : a / b * b <= 0 * b) by (apply step_le; [apply Qclt_le_weak; exact Hb | exact L]).
  rewrite E in M. clear E L. qlra.
Qed.

(* ---------------- coordinates vs. centre/shape ---------------- *)
Lemma rw_coords r : xmax r - xmin r = rw r.
Proof. unfold xmax, xmin. qlra. Qed.
Lemma rh_coords r : ymax r - ymin r = rh r.
Proof. unfold ymax, ymin. qlra. Qed.
Lemma area_coords r : area r = (xmax r - xmin r) * (ymax r - ymin r).
Proof. rewrite rw_coords, rh_coords. reflexivity. Qed.

(* ---------------- list helpers ---------------- *)
Lemma sum_const {A : Type} (g : A -> Qc) (c : Qc) (l : list A) :
  (forall x, g x = c) -> Qcsum (map g l) = ofnat (List.length l) * c.
Proof.
  intro H. induction l as [|x l IH]; cbn [map Qcsum List.length].
  - rewrite ofnat_0. ring.
  - rewrite IH, H, ofnat_S. ring.
Qed.

Lemma Forall2_map {A B C : Type} (P : B -> C -> Prop) (f : A -> B) (g : A -> C) (l : list A) :
  (forall x, In x l -> P (f x) (g x)) -> Forall2 P (map f l) (map g l).
Proof.
  induction l as [|x l IH]; intro H; cbn [map]; constructor.
  - apply H. left. reflexivity.
  - apply IH. intros y Hy. apply H. right. exact Hy.
Qed.

Lemma length_flat_map_const {A B : Type} (f : A -> list B) (l : list A) (n : nat) :
  (forall x, List.length (f x) = n) -> List.length (flat_map f l) = (List.length l * n)%nat.
Proof.
  intro H. induction l as [|x l IH]; cbn [flat_map List.length]; [reflexivity|].
  rewrite app_length, IH, H. lia.
Qed.

(* ---------------- 1-D lemma, cells side by side along x ---------------- *)
Definition xcells (s : Rect) (xs : Qc) (f : nat -> Rect) : Prop :=
  forall col, xmin (f col) = xmin s + ofnat col * xs /\
              xmax (f col) = xmin s + (ofnat col + 1) * xs /\
              ymin (f col) = ymin s /\ ymax (f col) = ymax s.

Lemma xcells_wf_inside s xs k f :
  wf s -> 0 < xs -> rw s = ofnat k * xs -> xcells s xs f ->
  forall col, (col < k)%nat -> wf (f col) /\ is_inside (f col) s = true.
Proof.
  intros [Ws Hs] Hx Hk C col Hc. destruct (C col) as (C1 & C2 & C3 & C4).
  split.
  - split.
    + rewrite <- (rw_coords (f col)), C1, C2.
      replace (xmin s + (ofnat col + 1) * xs - (xmin s + ofnat col * xs)) with xs by ring.
      exact Hx.
    + rewrite <- (rh_coords (f col)), C3, C4, rh_coords. exact Hs.
  - apply is_inside_coords. rewrite C1, C2, C3, C4.
    assert (P1 : 0 * xs <= ofnat col * xs)
      by (apply step_le; [apply Qclt_le_weak; exact Hx | apply ofnat_nonneg]).
    assert (P2 : (ofnat col + 1) * xs <= ofnat k * xs)
      by (apply step_le; [apply Qclt_le_weak; exact Hx | apply ofnat_lt; exact Hc]).
    rewrite <- Hk in P2. pose proof (rw_coords s) as R.
    clear C C1 C2 C3 C4 Hk Hc Ws Hs Hx.
    generalize dependent (ofnat col). intros q P1 P2.
    splits; try apply Qcle_refl; qlra.
Qed.

Lemma xcells_pairwise s xs f :
  0 < xs -> xcells s xs f -> forall k a, pairwise_no_ov (map f (seq a k)).
Proof.
  intros Hx C. induction k as [|k IH]; intro a; cbn [seq map pairwise_no_ov]; [exact I|].
  split; [|apply IH].
  apply Forall_forall. intros r Hr. apply in_map_iff in Hr. destruct Hr as (c & <- & Hc).
  apply in_seq in Hc. apply ov_zero_x.
  destruct (C a) as (_ & -> & _). destruct (C c) as (-> & _).
  assert (P : (ofnat a + 1) * xs <= ofnat c * xs)
    by (apply step_le; [apply Qclt_le_weak; exact Hx | apply ofnat_lt; lia]).
  clear C IH Hc Hx. generalize dependent (ofnat a). generalize (ofnat c). intros p q P. qlra.
Qed.

Lemma xcells_area s xs f : xcells s xs f -> forall col, area (f col) = xs * rh s.
Proof.
  intros C col. destruct (C col) as (C1 & C2 & C3 & C4).
  rewrite area_coords, C1, C2, C3, C4, rh_coords. ring.
Qed.

Lemma xcells_tiles s xs k f :
  wf s -> 0 < xs -> rw s = ofnat k * xs -> xcells s xs f -> tiles (map f (seq 0 k)) s.
Proof.
  intros W Hx Hk C. split; [|split].
  - apply Forall_forall. intros r Hr. apply in_map_iff in Hr. destruct Hr as (c & <- & Hc).
    apply in_seq in Hc. apply (xcells_wf_inside s xs k f W Hx Hk C). lia.
  - apply (xcells_pairwise s xs f Hx C).
  - rewrite map_map. rewrite (sum_const (fun x => area (f x)) (xs * rh s)).
    + rewrite seq_length. unfold area. rewrite Hk. ring.
    + apply (xcells_area s xs f C).
Qed.

(* ---------------- 1-D lemma, cells stacked along y ---------------- *)
Definition ycells (s : Rect) (ys : Qc) (f : nat -> Rect) : Prop :=
  forall row, ymin (f row) = ymin s + ofnat row * ys /\
              ymax (f row) = ymin s + (ofnat row + 1) * ys /\
              xmin (f row) = xmin s /\ xmax (f row) = xmax s.

Lemma ycells_wf_inside s ys k f :
  wf s -> 0 < ys -> rh s = ofnat k * ys -> ycells s ys f ->
  forall row, (row < k)%nat -> wf (f row) /\ is_inside (f row) s = true.
Proof.
  intros [Ws Hs] Hy Hk C row Hc. destruct (C row) as (C1 & C2 & C3 & C4).
  split.
  - split.
    + rewrite <- (rw_coords (f row)), C3, C4, rw_coords. exact Ws.
    + rewrite <- (rh_coords (f row)), C1, C2.
      replace (ymin s + (ofnat row + 1) * ys - (ymin s + ofnat row * ys)) with ys by ring.
      exact Hy.
  - apply is_inside_coords. rewrite C1, C2, C3, C4.
    assert (P1 : 0 * ys <= ofnat row * ys)
      by (apply step_le; [apply Qclt_le_weak; exact Hy | apply ofnat_nonneg]).
    assert (P2 : (ofnat row + 1) * ys <= ofnat k * ys)
      by (apply step_le; [apply Qclt_le_weak; exact Hy | apply ofnat_lt; exact Hc]).
    rewrite <- Hk in P2. pose proof (rh_coords s) as R.
    clear C C1 C2 C3 C4 Hk Hc Ws Hs Hy.
    generalize dependent (ofnat row). intros q P1 P2.
    splits; try apply Qcle_refl; qlra.
Qed.

Lemma ycells_pairwise s ys f :
  0 < ys -> ycells s ys f -> forall k a, pairwise_no_ov (map f (seq a k)).
Proof.
  intros Hy C. induction k as [|k IH]; intro a; cbn [seq map pairwise_no_ov]; [exact I|].
  split; [|apply IH].
  apply Forall_forall. intros r Hr. apply in_map_iff in Hr. destruct Hr as (c & <- & Hc).
  apply in_seq in Hc. apply ov_zero_y.
  destruct (C a) as (_ & -> & _). destruct (C c) as (-> & _).
  assert (P : (ofnat a + 1) * ys <= ofnat c * ys)
    by (apply step_le; [apply Qclt_le_weak; exact Hy | apply ofnat_lt; lia]).
  clear C IH Hc Hy. generalize dependent (ofnat a). generalize (ofnat c). intros p q P. qlra.
Qed.

Lemma ycells_area s ys f : ycells s ys f -> forall row, area (f row) = rw s * ys.
Proof.
  intros C row. destruct (C row) as (C1 & C2 & C3 & C4).
  rewrite area_coords, C1, C2, C3, C4, rw_coords. ring.
Qed.

Lemma ycells_tiles s ys k f :
  wf s -> 0 < ys -> rh s = ofnat k * ys -> ycells s ys f -> tiles (map f (seq 0 k)) s.
Proof.
  intros W Hy Hk C. split; [|split].
  - apply Forall_forall. intros r Hr. apply in_map_iff in Hr. destruct Hr as (c & <- & Hc).
    apply in_seq in Hc. apply (ycells_wf_inside s ys k f W Hy Hk C). lia.
  - apply (ycells_pairwise s ys f Hy C).
  - rewrite map_map. rewrite (sum_const (fun x => area (f x)) (rw s * ys)).
    + rewrite seq_length. unfold area. rewrite Hk. ring.
    + apply (ycells_area s ys f C).
Qed.

(* ---------------- the grid ---------------- *)
Definition grid_cell (d : Rect) (nrows ncols row col : nat) : Rect :=
  with_geom d
    (cx d - rw d * half + rw d / ofnat ncols * half + ofnat col * (rw d / ofnat ncols))
    (cy d - rh d * half + rh d / ofnat nrows * half + ofnat row * (rh d / ofnat nrows))
    (rw d / ofnat ncols) (rh d / ofnat nrows).

Definition grid_strip (d : Rect) (nrows row : nat) : Rect :=
  with_geom d (cx d)
    (cy d - rh d * half + rh d / ofnat nrows * half + ofnat row * (rh d / ofnat nrows))
    (rw d) (rh d / ofnat nrows).

Lemma grid_eq d nrows ncols g :
  rectangle_grid d nrows ncols = Some g ->
  (0 < nrows)%nat /\ (0 < ncols)%nat /\
  g = flat_map (fun row => map (grid_cell d nrows ncols row) (seq 0 ncols)) (seq 0 nrows).
Proof.
  destruct nrows as [|n]; [discriminate|]. destruct ncols as [|m]; [discriminate|].
  unfold rectangle_grid. intro H. injection H as <-. splits; try lia. reflexivity.
Qed.

Theorem grid_count : forall d nrows ncols g,
  rectangle_grid d nrows ncols = Some g -> List.length g = (nrows * ncols)%nat.
Proof.
  intros d nrows ncols g H. apply grid_eq in H. destruct H as (_ & _ & ->).
  rewrite (length_flat_map_const _ _ ncols).
  - rewrite seq_length. reflexivity.
  - intro row. rewrite map_length, seq_length. reflexivity.
Qed.

Theorem grid_defined : forall d nrows ncols,
  (0 < nrows)%nat -> (0 < ncols)%nat -> exists g, rectangle_grid d nrows ncols = Some g.
Proof.
  intros d nrows ncols Hr Hc.
  destruct nrows as [|n]; [lia|]. destruct ncols as [|m]; [lia|].
  eexists. reflexivity.
Qed.

Theorem grid_rejects : forall d nrows ncols,
  (nrows = 0 \/ ncols = 0)%nat -> rectangle_grid d nrows ncols = None.
Proof.
  intros d nrows ncols [-> | ->]; [reflexivity|]. destruct nrows; reflexivity.
Qed.

Theorem grid_attrs : forall d nrows ncols g,
  rectangle_grid d nrows ncols = Some g ->
  Forall (fun c => same_attrs d c /\ rloc c = NOPOLY /\
                   rw c = rw d / ofnat ncols /\ rh c = rh d / ofnat nrows) g.
Proof.
  intros d nrows ncols g H. apply grid_eq in H. destruct H as (_ & _ & ->).
  apply Forall_forall. intros c Hc. apply in_flat_map in Hc. destruct Hc as (row & _ & Hc).
  apply in_map_iff in Hc. destruct Hc as (col & <- & _).
  unfold same_attrs, grid_cell. cbn [with_geom fixed hard region rloc rw rh]. splits; reflexivity.
Qed.

Lemma strips_tile d nrows :
  wf d -> (0 < nrows)%nat -> tiles (map (grid_strip d nrows) (seq 0 nrows)) d.
Proof.
  intros W Hn. pose proof W as [Ww Wh].
  pose proof (ofnat_pos nrows Hn) as Pn. pose proof (ofnat_neq0 nrows Hn) as Nn.
  apply (ycells_tiles d (rh d / ofnat nrows) nrows).
  - exact W.
  - apply div_pos; assumption.
  - rewrite Qcmult_comm. symmetry. apply div_mul. exact Nn.
  - intro row. unfold grid_strip, xmin, xmax, ymin, ymax. cbn [with_geom cx cy rw rh].
    generalize (rh d / ofnat nrows). generalize (ofnat row). intros q ys.
    clear. splits; qlra.
Qed.

Lemma row_tiles d nrows ncols row :
  wf d -> (0 < nrows)%nat -> (0 < ncols)%nat ->
  tiles (map (grid_cell d nrows ncols row) (seq 0 ncols)) (grid_strip d nrows row).
Proof.
  intros W Hn Hm. pose proof W as [Ww Wh].
  pose proof (ofnat_pos nrows Hn) as Pn. pose proof (ofnat_pos ncols Hm) as Pm.
  pose proof (ofnat_neq0 ncols Hm) as Nm.
  apply (xcells_tiles (grid_strip d nrows row) (rw d / ofnat ncols) ncols).
  - split; cbn [grid_strip with_geom rw rh]; [exact Ww | apply div_pos; assumption].
  - apply div_pos; assumption.
  - cbn [grid_strip with_geom rw]. rewrite Qcmult_comm. symmetry. apply div_mul. exact Nm.
  - intro col. unfold grid_strip, grid_cell, xmin, xmax, ymin, ymax. cbn [with_geom cx cy rw rh].
    generalize (rh d / ofnat nrows). generalize (rw d / ofnat ncols).
    generalize (ofnat row). generalize (ofnat col). intros p q xs ys.
    clear. splits; qlra.
Qed.

Theorem grid_tiles : forall d nrows ncols g,
  wf d -> rectangle_grid d nrows ncols = Some g -> tiles g d.
Proof.
  intros d nrows ncols g W H. apply grid_eq in H. destruct H as (Hn & Hm & ->).
  rewrite flat_map_concat_map.
  apply (tiles_concat _ (map (grid_strip d nrows) (seq 0 nrows)) d).
  - apply Forall2_map. intros row _. apply row_tiles; assumption.
  - apply strips_tile; assumption.
Qed.

(* ---------------- non-vacuity ---------------- *)
Example grid_2x3_defined :
  exists g, rectangle_grid (mkRect (qc 3 2) 1 (qc 3 1) (qc 2 1) false false "_" NOPOLY) 2 3 = Some g /\
            List.length g = 6%nat.
Proof. eexists. split; [reflexivity | vm_compute; reflexivity]. Qed.

Example grid_2x3_first_cell :
  option_map (fun g => map (fun c => (cx c, cy c, rw c, rh c)) (firstn 1 g))
    (rectangle_grid (mkRect (qc 3 2) 1 (qc 3 1) (qc 2 1) false false "_" NOPOLY) 2 3)
  = Some [(half, half, 1, 1)].
Proof.
  cbn [rectangle_grid option_map seq flat_map map app firstn cx cy rw rh with_geom].
  repeat f_equal; apply Qc_is_canon; vm_compute; reflexivity.
Qed.
