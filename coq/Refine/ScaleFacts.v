(* Absolute scale and small pieces.  The refinement never looks at a tolerance: every decision it
   takes (is the aspect ratio above the limit? which side is halved? which rectangle is larger?) is the
   same for a die measured in other units, and the loop of Die.split_refinable_regions that files the
   pieces under ground / specialised keeps every one of them, however small its area. *)
From Coq Require Import Permutation.
From FrameModel Require Import Num.QcTac Geometry.Rect Refine.Phase1 Refine.Phase2 Refine.DieRefine.
Open Scope Qc_scope.

(* the rectangle in other units: every length multiplied by s *)
Definition scale (s : Qc) (x : Rect) : Rect :=
  mkRect (s * cx x) (s * cy x) (s * rw x) (s * rh x) (fixed x) (hard x) (region x) (rloc x).

Lemma scale_wfb s x : 0 < s -> wfb (scale s x) = wfb x.
Proof.
  intro Hs. unfold wfb, scale. cbn [rw rh].
  destruct (Qcltb 0 (rw x)) eqn:E1; destruct (Qcltb 0 (rh x)) eqn:E2;
  destruct (Qcltb 0 (s * rw x)) eqn:E3; destruct (Qcltb 0 (s * rh x)) eqn:E4; qb2p; try reflexivity; exfalso; qnra.
Qed.

Lemma scale_aspect s x : 0 < s -> aspect_ratio (scale s x) = aspect_ratio x.
Proof.
  intro Hs. unfold aspect_ratio, scale. cbn [rw rh].
  assert (E : s * rh x / (s * rw x) = rh x / rw x).
  { destruct (Qc_eq_dec (rw x) 0) as [Z|NZ].
    - rewrite Z. replace (s * 0) with 0 by ring. unfold Qcdiv. replace (/ 0) with 0 by (apply Qc_is_canon; reflexivity). ring.
    - field. split; [exact NZ|]. intro H. rewrite H in Hs. qlra. }
  rewrite E. reflexivity.
Qed.

Lemma scale_area s x : area (scale s x) = s * s * area x.
Proof. unfold area, scale. cbn [rw rh]. ring. Qed.

Lemma lt_lower c h : Qcltb (c - h * half) c = Qcltb 0 h.
Proof. destruct (Qcltb 0 h) eqn:E1; destruct (Qcltb (c - h * half) c) eqn:E2; qb2p; try reflexivity; exfalso; qlra. Qed.
Lemma lt_upper c h : Qcltb c (c + h * half) = Qcltb 0 h.
Proof. destruct (Qcltb 0 h) eqn:E1; destruct (Qcltb c (c + h * half)) eqn:E2; qb2p; try reflexivity; exfalso; qlra. Qed.
Lemma pos_scale s h : 0 < s -> Qcltb 0 (s * h) = Qcltb 0 h.
Proof. intro Hs. destruct (Qcltb 0 h) eqn:E1; destruct (Qcltb 0 (s * h)) eqn:E2; qb2p; try reflexivity; exfalso; qnra. Qed.

Lemma lt_scale s a b : 0 < s -> Qcltb (s * a) (s * b) = Qcltb a b.
Proof.
  intro Hs. destruct (Qcltb a b) eqn:E1; destruct (Qcltb (s * a) (s * b)) eqn:E2; qb2p; try reflexivity; exfalso.
  - pose proof (Qcmult_lt_compat_r a b s Hs E1). qlra.
  - assert (Hb : b <= a) by qlra. assert (H0 : 0 <= s) by qlra. pose proof (Qcmult_le_compat_r b a s Hb H0). qlra.
Qed.

(* halving commutes with the change of units *)
Lemma scale_split s x : 0 < s ->
  split (scale s x) = option_map (fun p => (scale s (fst p), scale s (snd p))) (split x).
Proof.
  intro Hs. unfold split.
  assert (L : Qcltb (rw (scale s x)) (rh (scale s x)) = Qcltb (rw x) (rh x)).
  { unfold scale. cbn [rw rh]. apply lt_scale. exact Hs. }
  rewrite L. destruct (Qcltb (rw x) (rh x)).
  - unfold split_vertical, minus1. replace (Qcltb (Q2Qc (-1)) 0) with true by reflexivity.
    unfold ymin, ymax, scale. cbn [cx cy rw rh fixed hard region rloc].
    rewrite !lt_lower, !lt_upper, (pos_scale s (rh x) Hs).
    destruct (Qcltb 0 (rh x)); cbn [andb option_map fst snd]; [|reflexivity].
    unfold with_geom. cbn [cx cy rw rh fixed hard region rloc]. f_equal. f_equal; f_equal; ring.
  - unfold split_horizontal, minus1. replace (Qcltb (Q2Qc (-1)) 0) with true by reflexivity.
    unfold xmin, xmax, scale. cbn [cx cy rw rh fixed hard region rloc].
    rewrite !lt_lower, !lt_upper, (pos_scale s (rw x) Hs).
    destruct (Qcltb 0 (rw x)); cbn [andb option_map fst snd]; [|reflexivity].
    unfold with_geom. cbn [cx cy rw rh fixed hard region rloc]. f_equal. f_equal; f_equal; ring.
Qed.

(* which of two rectangles is the larger one does not depend on the units *)
Lemma scale_area_order s x y : 0 < s -> Qcltb (area (scale s x)) (area (scale s y)) = Qcltb (area x) (area y).
Proof.
  intro Hs. rewrite !scale_area. rewrite <- !Qcmult_assoc. rewrite !lt_scale by exact Hs. reflexivity.
Qed.

(* ---- the loop that files the pieces keeps every piece ---- *)
Lemma filter_partition_perm {A} (f : A -> bool) l :
  Permutation (filter (fun x => negb (f x)) l ++ filter f l) l.
Proof.
  induction l as [|a l IH]; cbn [filter]; [constructor|].
  destruct (f a); cbn [negb].
  - apply Permutation_sym. apply Permutation_cons_app. apply Permutation_sym. exact IH.
  - cbn [app]. constructor. exact IH.
Qed.

Theorem repartition_keeps_every_piece d rects : Permutation (refinable (repartition d rects)) rects.
Proof. unfold refinable, repartition. cbn [spec ground]. apply filter_partition_perm. Qed.

Theorem repartition_count d rects : List.length (refinable (repartition d rects)) = List.length rects.
Proof. apply Permutation_length. apply repartition_keeps_every_piece. Qed.

Theorem scale_decisions s x y : 0 < s ->
  wfb (scale s x) = wfb x /\ aspect_ratio (scale s x) = aspect_ratio x /\
  split (scale s x) = option_map (fun p => (scale s (fst p), scale s (snd p))) (split x) /\
  Qcltb (area (scale s x)) (area (scale s y)) = Qcltb (area x) (area y).
Proof.
  intro Hs. split; [apply scale_wfb; exact Hs|]. split; [apply scale_aspect; exact Hs|].
  split; [apply scale_split; exact Hs | apply scale_area_order; exact Hs].
Qed.
