(* Model of frame/geometry/geometry.py: split_rectangles, phase 1 (lines 654-685).

     assert n > 0
     assert aspect_ratio > 1.415
     q = deque(rectangles); heap = []
     while len(q) > 0:
         r = q.pop()                                  # from the RIGHT end: a stack
         if r.aspect_ratio > aspect_ratio: q.extend(r.split())   # both halves, r1 then r2
         else: heap.append(PrioritizedRectangle(-r.area, r))
     if len(heap) >= n: return [p.rect for p in heap]

   The deque is the list [q] with the RIGHT end at the head; [heap] is kept
   reversed (head = last appended).  One unit of fuel per pop.  Definitions only. *)
From FrameModel Require Import Num.QcTac Geometry.Rect.
From Coq Require Import Qround.
Open Scope Qc_scope.

Inductive result (A : Type) : Type :=
| Ok (a : A)
| OutOfFuel                 (* the model's fuel ran out: says nothing about the code *)
| Reject.                   (* an assert of the code fails / the code raises *)
Arguments Ok {A} a.
Arguments OutOfFuel {A}.
Arguments Reject {A}.

(* the binary64 value of the literal 1.415 in the second assert *)
Definition ar_limit : Qc := qc 1593148368182313 1125899906842624.

(* [Reject]: Rectangle.aspect_ratio asserts w > 0 and divides by h/w, split() asserts that the
   cut is strictly inside; both hold exactly for rectangles of positive width and height. *)
Fixpoint phase1_loop (fuel : nat) (r : Qc) (q heap : list Rect) {struct fuel} : result (list Rect) :=
  match q with
  | [] => Ok (rev heap)
  | x :: q' =>
    match fuel with
    | O => OutOfFuel
    | S f =>
      if negb (wfb x) then Reject else
      if Qcltb r (aspect_ratio x) then
        match split x with
        | Some (a, b) => phase1_loop f r (b :: a :: q') heap      (* extend [a; b]: b is now rightmost *)
        | None => Reject
        end
      else phase1_loop f r q' (x :: heap)
    end
  end.

(* ---- a fuel that always suffices when r * r > 2 (Phase1Facts.phase1_fuel) ---- *)
(* least k with a <= 2^k, for a >= 1 *)
Definition lg2up (a : Qc) : nat := Z.to_nat (Z.log2_up (Qceiling (this a))).
(* pops spent on one rectangle and everything cut from it: < 2^(k+2) *)
Definition rect_cost (x : Rect) : nat := Nat.pow 2 (lg2up (aspect_ratio x) + 2).
Definition phase1_fuel (rs : list Rect) : nat := fold_right (fun x s => (rect_cost x + s)%nat) O rs.

(* the two asserts, then the loop on deque(rectangles) *)
Definition phase1 (fuel : nat) (rs : list Rect) (r : Qc) (n : Z) : result (list Rect) :=
  if (n <=? 0)%Z then Reject else
  if Qcleb r ar_limit then Reject else
  phase1_loop fuel r (rev rs) [].

(* specification vocabulary *)
Definition compliant (r : Qc) (x : Rect) : Prop := aspect_ratio x <= r.
Definition compliantb (r : Qc) (x : Rect) : bool := Qcleb (aspect_ratio x) r.
