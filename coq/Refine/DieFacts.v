(* split_rectangles as a whole, and the Die-level operations (model: Phase2.v, DieRefine.v). *)
From FrameModel Require Import Num.QcTac Geometry.Rect Geometry.RectFacts Geometry.SplitFacts
  Refine.TilesFacts Refine.GridFacts Refine.Phase1 Refine.Phase1Fuel Refine.Phase1Facts
  Refine.Phase2 Refine.Phase2Facts Refine.DieRefine.
From Coq Require Import Permutation.
Open Scope Qc_scope.

(* [refines rs out]: out consists, original rectangle by original rectangle, of pieces that
   tile it (inside it, pairwise without common area, areas summing to its area) and carry
   its fixed/hard/region attributes.  This is the property's "tile exactly the area
   covered before, each inside the region it was cut from and carrying its tag". *)
Definition cut_from (p : Rect) (g : list Rect) : Prop := tiles g p /\ Forall (same_attrs p) g.
Definition refines (rs out : list Rect) : Prop :=
  exists gs, Permutation out (List.concat gs) /\ Forall2 cut_from rs gs.

(* ---------------- list plumbing ---------------- *)
Lemma Forall2_flip {A B} (R : A -> B -> Prop) l1 l2 :
  Forall2 R l1 l2 -> Forall2 (fun b a => R a b) l2 l1.
Proof. induction 1; constructor; auto. Qed.
Lemma Forall2_impl {A B} (R S : A -> B -> Prop) l1 l2 :
  (forall a b, R a b -> S a b) -> Forall2 R l1 l2 -> Forall2 S l1 l2.
Proof. intros H. induction 1; constructor; auto. Qed.
Lemma Forall2_rev' {A B} (R : A -> B -> Prop) l1 l2 :
  Forall2 R l1 l2 -> Forall2 R (rev l1) (rev l2).
Proof.
  induction 1 as [|a b l1 l2 H _ IH]; cbn [rev]; [constructor|].
  apply Forall2_app; auto.
Qed.
Lemma concat_rev_perm {A} (gs : list (list A)) : Permutation (List.concat (rev gs)) (List.concat gs).
Proof.
  induction gs as [|g gs IH]; cbn [rev List.concat]; [constructor|].
  rewrite concat_app. cbn [List.concat]. rewrite app_nil_r.
  eapply Permutation_trans; [apply Permutation_app_comm|]. apply Permutation_app_head. exact IH.
Qed.
Lemma concat_concat {A} (hss : list (list (list A))) :
  List.concat (List.concat hss) = List.concat (map (@List.concat A) hss).
Proof.
  induction hss as [|hs hss IH]; cbn [List.concat map]; [reflexivity|].
  rewrite concat_app, IH. reflexivity.
Qed.
Lemma Forall2_concat_split {A B} (R : A -> B -> Prop) : forall (gs1 : list (list A)) (bs : list B),
  Forall2 R (List.concat gs1) bs -> exists bss, bs = List.concat bss /\ Forall2 (Forall2 R) gs1 bss.
Proof.
  induction gs1 as [|g gs1 IH]; cbn [List.concat]; intros bs H.
  - inversion H; subst. exists []. split; [reflexivity|constructor].
  - apply Forall2_app_inv_l in H. destruct H as (b1 & b2 & H1 & H2 & ->).
    destruct (IH b2 H2) as (bss & -> & F). exists (b1 :: bss). split; [reflexivity|constructor; auto].
Qed.
Lemma filter_partition_perm {A} (f : A -> bool) l :
  Permutation (filter (fun x => negb (f x)) l ++ filter f l) l.
Proof.
  induction l as [|x l IH]; cbn [filter app]; [constructor|].
  destruct (f x); cbn [negb app].
  - eapply Permutation_trans; [apply Permutation_sym; apply Permutation_middle|]. constructor. exact IH.
  - constructor. exact IH.
Qed.

(* ---------------- refinement composes ---------------- *)
Lemma cut_from_compose p g1 hs : cut_from p g1 -> Forall2 cut_from g1 hs -> cut_from p (List.concat hs).
Proof.
  intros [T A] F. split.
  - apply tiles_concat with (ps := g1); [|exact T].
    apply Forall2_flip. eapply Forall2_impl; [|exact F]. intros q h [Th _]. exact Th.
  - clear T. induction F as [|q h g1 hs [_ Ah] _ IH]; cbn [List.concat]; [constructor|].
    inversion A as [|? ? Aq A']; subst. apply Forall_app. split; [|apply IH; exact A'].
    eapply Forall_impl; [|exact Ah]. intros c Hc. eapply same_attrs_trans; eauto.
Qed.

Lemma cut_groups_perm : forall q q', Permutation q q' -> forall gs, Forall2 cut_from q gs ->
  exists gs', Permutation (List.concat gs) (List.concat gs') /\ Forall2 cut_from q' gs'.
Proof.
  induction 1 as [| x l l' P IH | x y l | l l' l'' Pa IHa Pb IHb]; intros gs2 F2.
  - exists gs2. split; [apply Permutation_refl|exact F2].
  - inversion F2 as [|? g ? gs F F']; subst. destruct (IH gs F') as (gs' & Pg & Fg).
    exists (g :: gs'). cbn [List.concat]. split; [apply Permutation_app_head; exact Pg|constructor; auto].
  - inversion F2 as [|? g1 ? gs F F']; subst. inversion F' as [|? g2 ? gs0 G G']; subst.
    exists (g2 :: g1 :: gs0). cbn [List.concat]. split.
    + rewrite !app_assoc. apply Permutation_app_tail. apply Permutation_app_comm.
    + constructor; [exact G|]. constructor; [exact F|exact G'].
  - destruct (IHa gs2 F2) as (ga & Pga & Fga). destruct (IHb ga Fga) as (gb & Pgb & Fgb).
    exists gb. split; [eapply Permutation_trans; eauto|exact Fgb].
Qed.

Lemma refines_compose rs p1 out : refines rs p1 -> refines p1 out -> refines rs out.
Proof.
  intros (gs1 & P1 & F1) (gs2 & P2 & F2).
  destruct (cut_groups_perm _ _ P1 gs2 F2) as (gs2' & P2' & F2').
  destruct (Forall2_concat_split cut_from gs1 gs2' F2') as (hss & -> & FF).
  exists (map (@List.concat Rect) hss). split.
  - eapply Permutation_trans; [exact P2|]. eapply Permutation_trans; [exact P2'|].
    rewrite concat_concat. apply Permutation_refl.
  - clear P1 P2 P2' F2 F2'. revert hss FF. induction F1 as [|p g1 rs gs1 C _ IH]; intros hss FF.
    + inversion FF; subst. constructor.
    + inversion FF as [|? hs ? hss' H1 H2]; subst. cbn [map]. constructor; [|apply IH; exact H2].
      eapply cut_from_compose; eauto.
Qed.

Lemma refines_self rs : Forall wf rs -> refines rs rs.
Proof.
  intro W. exists (map (fun p => [p]) rs). rewrite concat_singletons. split; [apply Permutation_refl|].
  induction W as [|p rs Wp _ IH]; cbn [map]; constructor; auto.
  split; [apply tiles_self; exact Wp|]. constructor; [apply same_attrs_refl|constructor].
Qed.

Lemma refines_perm rs out out' : Permutation out out' -> refines rs out -> refines rs out'.
Proof. intros P (gs & P' & F). exists gs. split; auto. eapply Permutation_trans; [apply Permutation_sym; exact P|exact P']. Qed.

Lemma refines_wf_inside rs out : refines rs out ->
  Forall (fun c => wf c /\ exists p, In p rs /\ is_inside c p = true /\ same_attrs p c) out.
Proof.
  intros (gs & P & F). eapply Permutation_Forall; [apply Permutation_sym; exact P|]. clear P.
  induction F as [|p g rs gs [T A] _ IH]; cbn [List.concat]; [constructor|].
  apply Forall_app. split.
  - destruct T as (I & _). rewrite Forall_forall in *. intros c Hc. destruct (I c Hc) as [Wc Ic].
    split; [exact Wc|]. exists p. splits; auto. left. reflexivity.
  - eapply Forall_impl; [|exact IH]. cbv beta. intros c (Wc & q & Hq & R). split; [exact Wc|].
    exists q. split; [right; exact Hq|exact R].
Qed.

(* phase 1 refines the input *)
Lemma phase1_refines fuel rs r n p1 : phase1 fuel rs r n = Ok p1 -> refines rs p1.
Proof.
  intro H. apply phase1_sound in H. destruct H as (_ & _ & _ & gs & -> & _ & T & _).
  exists (rev gs). split; [apply Permutation_sym; apply concat_rev_perm|].
  apply Forall2_rev' in T. rewrite rev_involutive in T. exact T.
Qed.

(* ---------------- split_rectangles ---------------- *)
(* Every admissible result: the asserts held, at least n pieces, all within the limit,
   refining the input. *)
Theorem split_rectangles_sound : forall rs r n out, split_rectangles_ok rs r n out = true ->
  (0 < n)%Z /\ ar_limit < r /\ Forall wf rs /\
  (Z.to_nat n <= List.length out)%nat /\ Forall (compliant r) out /\ refines rs out.
Proof.
  intros rs r n out H. unfold split_rectangles_ok in H.
  destruct (phase1 (Phase1.phase1_fuel rs) rs r n) as [p1| |] eqn:P1; try discriminate.
  pose proof (phase1_refines _ _ _ _ _ P1) as R1.
  pose proof (phase1_sound _ _ _ _ _ P1) as (Hn & Hr & W & gs & _ & _ & _ & C & W1).
  destruct (Z.to_nat n <=? List.length p1)%nat eqn:L.
  - apply perm_rects_sound in H. apply Nat.leb_le in L. splits; auto.
    + rewrite <- (Permutation_length H). exact L.
    + eapply Permutation_Forall; eauto.
    + eapply refines_perm; eauto.
  - destruct (phase2_sound p1 out r (Z.to_nat n) W1 H) as (L2 & C2 & gs2 & P2 & _ & T2).
    splits; auto. eapply refines_compose; [exact R1|]. exists gs2. split; auto.
Qed.

(* The model's own algorithm returns on every admissible request, and its result is admissible. *)
Theorem split_rectangles_greedy_ok : forall rs r n, Forall wf rs -> rs <> [] -> (0 < n)%Z -> ar_limit < r ->
  exists out, split_rectangles_greedy rs r n = Ok out /\ split_rectangles_ok rs r n out = true.
Proof.
  intros rs r n W NE Hn Hr. unfold split_rectangles_greedy, split_rectangles_ok.
  destruct (Phase1Facts.phase1_fuel rs r n W Hn Hr) as (p1 & P1). rewrite P1.
  pose proof (phase1_sound _ _ _ _ _ P1) as (_ & _ & _ & gs & _ & _ & _ & C & W1).
  pose proof (phase1_length _ _ _ _ _ P1) as L1.
  destruct (Z.to_nat n <=? List.length p1)%nat eqn:L.
  - exists p1. split; [reflexivity|]. apply perm_rects_refl.
  - apply phase2_greedy_ok; auto. intro E. subst p1. destruct rs; [congruence|]. cbn in L1. lia.
Qed.

(* the requests that are refused: exactly the failing asserts *)
Theorem split_rectangles_reject_iff : forall rs r n, Forall wf rs -> rs <> [] ->
  (split_rectangles_greedy rs r n = Reject <-> ((n <= 0)%Z \/ r <= ar_limit)).
Proof.
  intros rs r n W NE. split.
  - intro H. destruct (Z_le_gt_dec n 0) as [L|G]; [auto|].
    destruct (Qcleb r ar_limit) eqn:E; qb2p; [auto|].
    destruct (split_rectangles_greedy_ok rs r n W NE ltac:(lia) E) as (out & O & _). congruence.
  - intro H. unfold split_rectangles_greedy. rewrite (proj2 (phase1_reject_iff rs r n W) H). reflexivity.
Qed.

(* ---------------- Die.split_refinable_regions ---------------- *)
Lemma forallb_Forall {A} (f : A -> bool) l : forallb f l = true -> Forall (fun x => f x = true) l.
Proof. rewrite forallb_forall, Forall_forall. auto. Qed.

Theorem die_split_sound : forall d r n d', die_split_ok d r n d' = true ->
  (* blockages, fixed regions and the die itself untouched *)
  bbox d' = bbox d /\ blockages d' = blockages d /\ fixedr d' = fixedr d /\
  (* the asserts held *)
  (0 < n)%Z /\ ar_limit < r /\
  (* count, aspect ratio *)
  (Z.to_nat n <= List.length (refinable d'))%nat /\ Forall (compliant r) (refinable d') /\
  (* tiling, containment, attributes *)
  refines (refinable d) (refinable d') /\
  (* every region is reported in the list its tag says *)
  Forall (fun x => is_ground x = false) (spec d') /\ Forall (fun x => is_ground x = true) (ground d').
Proof.
  intros d r n d' H. unfold die_split_ok in H.
  repeat match type of H with (_ && _) = true => apply andb_true_iff in H; destruct H as [H ?] end.
  match goal with H : same_rect _ _ = true |- _ => apply same_rect_eq in H end.
  repeat match goal with H : rects_eqb _ _ = true |- _ => apply rects_eqb_eq in H end.
  repeat match goal with H : forallb _ _ = true |- _ => apply forallb_Forall in H end.
  match goal with H : Forall (fun x => negb _ = true) _ |- _ =>
    assert (Forall (fun x => is_ground x = false) (spec d')) by
      (eapply Forall_impl; [|exact H]; cbv beta; intros a Ha; apply negb_true_iff; exact Ha) end.
  assert (S : split_rectangles_ok (refinable d) r n (refinable d') = true \/
              exists p1, split_rectangles_ok (refinable d) r n p1 = true /\ Permutation p1 (refinable d')).
  { unfold split_rectangles_ok.
    destruct (phase1 (Phase1.phase1_fuel (refinable d)) (refinable d) r n) as [p1| |]; try discriminate.
    destruct (Z.to_nat n <=? List.length p1)%nat eqn:L; [|left; assumption].
    right. exists p1. split; [apply perm_rects_refl|].
    match goal with H : (_ && _) = true |- _ => apply andb_true_iff in H; destruct H as [E1 E2] end.
    apply perm_rects_sound in E1, E2. unfold refinable. cbn [spec ground repartition] in E1, E2.
    eapply Permutation_trans; [apply Permutation_sym; apply (filter_partition_perm is_ground)|].
    apply Permutation_sym. apply Permutation_app; assumption. }
  destruct S as [S|(p1 & S & P)].
  - apply split_rectangles_sound in S. destruct S as (Hn & Hr & _ & L & C & R). splits; auto.
  - apply split_rectangles_sound in S. destruct S as (Hn & Hr & _ & L & C & R). splits; auto.
    + rewrite <- (Permutation_length P). exact L.
    + eapply Permutation_Forall; eauto.
    + eapply refines_perm; eauto.
Qed.

(* the model's own algorithm: defined on every admissible request, and its result has every
   clause of the property *)
Theorem die_split_greedy_sound : forall d r n, Forall wf (refinable d) -> refinable d <> [] ->
  (0 < n)%Z -> ar_limit < r ->
  exists d', die_split_greedy d r n = Ok d' /\
    bbox d' = bbox d /\ blockages d' = blockages d /\ fixedr d' = fixedr d /\
    (Z.to_nat n <= List.length (refinable d'))%nat /\ Forall (compliant r) (refinable d') /\
    refines (refinable d) (refinable d') /\
    Forall (fun x => is_ground x = false) (spec d') /\ Forall (fun x => is_ground x = true) (ground d').
Proof.
  intros d r n W NE Hn Hr. unfold die_split_greedy.
  destruct (split_rectangles_greedy_ok (refinable d) r n W NE Hn Hr) as (out & G & K). rewrite G.
  exists (repartition d out). split; [reflexivity|].
  apply split_rectangles_sound in K. destruct K as (_ & _ & _ & L & C & R).
  pose proof (filter_partition_perm is_ground out) as P.
  unfold refinable in *. cbn [bbox blockages fixedr spec ground repartition].
  splits; auto.
  - rewrite (Permutation_length P). exact L.
  - eapply Permutation_Forall; [apply Permutation_sym; exact P|exact C].
  - eapply refines_perm; [apply Permutation_sym; exact P|exact R].
  - apply Forall_forall. intros x Hx. apply filter_In in Hx. apply negb_true_iff. tauto.
  - apply Forall_forall. intros x Hx. apply filter_In in Hx. tauto.
Qed.

(* untouched, for the algorithm *)
Theorem untouched : forall d r n d', die_split_greedy d r n = Ok d' ->
  bbox d' = bbox d /\ blockages d' = blockages d /\ fixedr d' = fixedr d.
Proof.
  intros d r n d' H. unfold die_split_greedy in H.
  destruct (split_rectangles_greedy (refinable d) r n); try discriminate. injection H as <-. auto.
Qed.

(* ---------------- Die.initial_grid ---------------- *)
Definition grid_request_ok (d : DieSt) (nrows ncols : Z) : Prop :=
  (0 < nrows)%Z /\ (0 < ncols)%Z /\ (1 < nrows + ncols)%Z /\
  spec d = [] /\ blockages d = [] /\ fixedr d = [] /\ exists g0, ground d = [g0].

(* rows * cols regions that tile the die, all carrying the die's attributes; nothing else in the die *)
Theorem initial_grid_sound : forall d nrows ncols d', initial_grid d nrows ncols = Ok d' -> wf (bbox d) ->
  grid_request_ok d nrows ncols /\
  bbox d' = bbox d /\ spec d' = [] /\ blockages d' = blockages d /\ fixedr d' = fixedr d /\
  List.length (ground d') = (Z.to_nat nrows * Z.to_nat ncols)%nat /\
  tiles (ground d') (bbox d) /\
  Forall (fun c => same_attrs (bbox d) c /\ rloc c = NOPOLY) (ground d').
Proof.
  intros d nrows ncols d' H W. unfold initial_grid in H.
  destruct ((0 <? nrows)%Z && (0 <? ncols)%Z && (1 <? nrows + ncols)%Z) eqn:A; cbn [negb] in H; [|discriminate].
  apply andb_true_iff in A. destruct A as [A A3]. apply andb_true_iff in A. destruct A as [A1 A2].
  apply Z.ltb_lt in A1, A2, A3.
  destruct (fixedr d) eqn:Ef; [|discriminate]. destruct (spec d) eqn:Es; [|discriminate].
  destruct (blockages d) eqn:Eb; [|discriminate].
  destruct (ground d) as [|g0 [|? ?]] eqn:Eg; try discriminate.
  destruct (rectangle_grid (bbox d) (Z.to_nat nrows) (Z.to_nat ncols)) as [g|] eqn:G; [|discriminate].
  injection H as <-. cbn [bbox spec ground blockages fixedr].
  splits; auto; try (unfold grid_request_ok; splits; eauto).
  - eapply grid_count; eauto.
  - eapply grid_tiles; eauto.
  - eapply Forall_impl; [|eapply grid_attrs; eauto]. cbv beta. tauto.
Qed.

Theorem initial_grid_defined : forall d nrows ncols, grid_request_ok d nrows ncols ->
  exists d', initial_grid d nrows ncols = Ok d'.
Proof.
  intros d nrows ncols (A1 & A2 & A3 & Es & Eb & Ef & g0 & Eg). unfold initial_grid.
  apply Z.ltb_lt in A1 as B1. apply Z.ltb_lt in A2 as B2. apply Z.ltb_lt in A3 as B3.
  rewrite B1, B2, B3. cbn [andb negb]. rewrite Ef, Es, Eb, Eg.
  destruct (grid_defined (bbox d) (Z.to_nat nrows) (Z.to_nat ncols)) as (g & G); try lia.
  rewrite G. eauto.
Qed.

Theorem initial_grid_never_out_of_fuel : forall d nrows ncols, initial_grid d nrows ncols <> OutOfFuel.
Proof.
  intros d nrows ncols. unfold initial_grid.
  destruct (negb _); [discriminate|]. destruct (fixedr d); [|discriminate]. destruct (spec d); [|discriminate].
  destruct (blockages d); [|discriminate]. destruct (ground d) as [|? [|? ?]]; try discriminate.
  destruct (rectangle_grid _ _ _); discriminate.
Qed.

(* ---------------- floorplanning_rectangles ---------------- *)
Theorem floorplanning_rectangles_spec : forall d,
  floorplanning_rectangles d = (spec d ++ ground d, fixedr d).
Proof. reflexivity. Qed.

(* ---------------- non-vacuity ---------------- *)
Definition unit_die : DieSt := mkDie unit_square [] [unit_square] [] [].
Example die_split_example :
  exists d', die_split_greedy unit_die (qc 3 2) 2 = Ok d' /\ List.length (ground d') = 4%nat /\
             die_split_ok unit_die (qc 3 2) 2 d' = true.
Proof.
  destruct (die_split_greedy unit_die (qc 3 2) 2) as [d'| |] eqn:U; try (vm_compute in U; discriminate).
  exists d'. split; [reflexivity|]. vm_compute in U. injection U as <-. split; vm_compute; reflexivity.
Qed.
Example grid_example :
  exists d', initial_grid unit_die 2 3 = Ok d' /\ List.length (ground d') = 6%nat.
Proof.
  destruct (initial_grid unit_die 2 3) as [d'| |] eqn:U; try (vm_compute in U; discriminate).
  exists d'. split; [reflexivity|]. vm_compute in U. injection U as <-. reflexivity.
Qed.

(* ---------------- the three clauses one by one ---------------- *)
Corollary split_count : forall rs r n out, split_rectangles_ok rs r n out = true ->
  (Z.to_nat n <= List.length out)%nat.
Proof. intros. apply split_rectangles_sound in H. tauto. Qed.
Corollary split_aspect : forall rs r n out, split_rectangles_ok rs r n out = true ->
  Forall (fun c => aspect_ratio c <= r) out.
Proof. intros. apply split_rectangles_sound in H. destruct H as (_ & _ & _ & _ & C & _). exact C. Qed.
Corollary split_tiling : forall rs r n out, split_rectangles_ok rs r n out = true ->
  exists gs, Permutation out (List.concat gs) /\
    Forall2 (fun p g => tiles g p /\ Forall (same_attrs p) g) rs gs.
Proof. intros. apply split_rectangles_sound in H. destruct H as (_ & _ & _ & _ & _ & R). exact R. Qed.
