(* Termination of phase 1 of split_rectangles (Refine/Phase1.v): the fuel
   [phase1_fuel] always suffices when the limit r satisfies r * r > 2.

   A rectangle of aspect ratio a >= 1 is halved along its longer side into two
   congruent halves of ratio max (a/2) (2/a).  When a > r and r * r > 2: if
   a >= 2 the new ratio is a/2; otherwise it is 2/a < 2/r < r, so both halves
   are compliant.  Hence a rectangle of ratio <= 2^k is fully processed in at
   most 2^(k+2) - 1 pops. *)
From FrameModel Require Import Num.QcTac Geometry.Rect Geometry.RectFacts Geometry.SplitFacts Refine.Phase1.
From Coq Require Import Qround.
Open Scope Qc_scope.

(* ---------------- small arithmetic helpers ---------------- *)
Lemma pos_neq0 a : 0 < a -> a <> 0.
Proof. intros H E. apply (Qclt_not_eq _ _ H). symmetry; exact E. Qed.

Lemma div_mul h w : 0 < w -> h / w * w = h.
Proof. intro H. field. apply pos_neq0; assumption. Qed.

Lemma mul_cancel_r p q w : 0 < w -> p * w = q * w -> p = q.
Proof. intros H E. qnra. Qed.

(* ---------------- the aspect ratio, multiplicatively ---------------- *)
Lemma aspect_char x : wf x ->
  (rw x <= rh x /\ aspect_ratio x * rw x = rh x) \/
  (rh x < rw x /\ aspect_ratio x * rh x = rw x).
Proof.
  intros [Hw Hh]. unfold aspect_ratio. cbv zeta.
  pose proof (div_mul (rh x) (rw x) Hw) as D.
  destruct (Qcltb (rh x / rw x) 1) eqn:E; qb2p.
  - right. split.
    + revert D E. generalize (rh x / rw x). intros d D E. qnra.
    + field. split; apply pos_neq0; assumption.
  - left. split; [|exact D].
    revert D E. generalize (rh x / rw x). intros d D E. qnra.
Qed.

Lemma aspect_ge1 x : wf x -> 1 <= aspect_ratio x.
Proof.
  intros Hwf. pose proof Hwf as [Hw Hh].
  destruct (aspect_char x Hwf) as [[L E]|[L E]];
    revert E; generalize (aspect_ratio x); intros a E; qnra.
Qed.

(* the aspect ratio is determined by the long and the short side *)
Lemma aspect_unique x s l : wf x -> 0 < s -> s <= l ->
  ((rw x = s /\ rh x = l) \/ (rw x = l /\ rh x = s)) ->
  aspect_ratio x * s = l.
Proof.
  intros Hwf Hs Hsl Hd. pose proof Hwf as [Hw Hh].
  destruct (aspect_char x Hwf) as [[L E]|[L E]]; destruct Hd as [[Ew Eh]|[Ew Eh]].
  - rewrite <- Ew, <- Eh. exact E.
  - assert (E1 : s = rw x) by (clear E; qlra). assert (E2 : l = rh x) by (clear E; qlra).
    rewrite E1, E2. exact E.
  - exfalso. clear E. qlra.
  - rewrite <- Ew, <- Eh. exact E.
Qed.

(* ---------------- split ---------------- *)
Lemma split_total x : wf x -> exists a b, split x = Some (a, b).
Proof.
  intro Hwf. destruct (split_halves x Hwf) as (a & b & S & _). exists a, b. exact S.
Qed.

Lemma split_dims x a b : wf x -> split x = Some (a, b) ->
  (rw x < rh x /\ rw a = rw x /\ rw b = rw x /\ rh a = rh x * half /\ rh b = rh x * half) \/
  (rh x <= rw x /\ rh a = rh x /\ rh b = rh x /\ rw a = rw x * half /\ rw b = rw x * half).
Proof.
  intros Hwf S. destruct (split_halves x Hwf) as (a' & b' & S' & _ & _ & _ & _ & _ & V & H).
  rewrite S in S'. injection S' as <- <-.
  destruct (Qcltb (rw x) (rh x)) eqn:E; qb2p.
  - left. split; [exact E|]. apply V; exact E.
  - right. split; [exact E|]. apply H; exact E.
Qed.

Lemma split_wf x a b : wf x -> split x = Some (a, b) -> wf a /\ wf b.
Proof.
  intros Hwf S. pose proof Hwf as [Hw Hh].
  destruct (split_dims x a b Hwf S) as [(L & A1 & B1 & A2 & B2)|(L & A1 & B1 & A2 & B2)];
    unfold wf; rewrite A1, A2, B1, B2; split; split; qlra.
Qed.

Lemma aspect_half y s l : wf y -> 0 < s -> 0 < l ->
  ((rw y = s /\ rh y = l * half) \/ (rw y = l * half /\ rh y = s)) ->
  (s <= l * half /\ aspect_ratio y * s = l * half) \/
  (l * half < s /\ aspect_ratio y * (l * half) = s).
Proof.
  intros Hwf Hs Hl Hd. destruct (Qcleb s (l * half)) eqn:E; qb2p.
  - left. split; [exact E|]. apply aspect_unique; auto.
  - right. split; [exact E|]. apply aspect_unique; auto.
    + qlra.
    + qlra.
    + tauto.
Qed.

Lemma halves_num A A' s l : 0 < s -> s <= l -> A * s = l ->
  ((s <= l * half /\ A' * s = l * half) \/ (l * half < s /\ A' * (l * half) = s)) ->
  (two <= A -> A' = A * half) /\ (A < two -> A' * A = two).
Proof.
  intros Hs Hsl E [[C E']|[C E']].
  - split; intro H.
    + apply (mul_cancel_r _ _ s Hs). rewrite E'. rewrite <- E. ring.
    + exfalso. qnra.
  - split; intro H.
    + exfalso. qnra.
    + apply (mul_cancel_r _ _ s Hs).
      replace (A' * A * s) with (A' * (A * s)) by ring. rewrite E.
      replace (A' * l) with (two * (A' * (l * half))).
      * rewrite E'. reflexivity.
      * replace (two * (A' * (l * half))) with (two * half * (A' * l)) by ring.
        rewrite two_half. ring.
Qed.

Lemma split_aspect x a b : wf x -> split x = Some (a, b) ->
  aspect_ratio a = aspect_ratio b /\
  (two <= aspect_ratio x -> aspect_ratio a = aspect_ratio x * half) /\
  (aspect_ratio x < two -> aspect_ratio a * aspect_ratio x = two).
Proof.
  intros Hwf S. pose proof Hwf as [Hw Hh].
  destruct (split_wf x a b Hwf S) as [Wa Wb].
  pose proof (aspect_ge1 x Hwf) as G1.
  assert (K : exists s l, 0 < s /\ s <= l /\ aspect_ratio x * s = l /\
     ((rw a = s /\ rh a = l * half) \/ (rw a = l * half /\ rh a = s)) /\
     ((rw b = s /\ rh b = l * half) \/ (rw b = l * half /\ rh b = s))).
  { destruct (split_dims x a b Hwf S) as [(L & A1 & B1 & A2 & B2)|(L & A1 & B1 & A2 & B2)].
    - exists (rw x), (rh x). splits; auto. qlra. apply aspect_unique; auto. qlra.
    - exists (rh x), (rw x). splits; auto. apply aspect_unique; auto. }
  destruct K as (s & l & Hs & Hsl & E & Da & Db).
  assert (Hl : 0 < l) by qlra.
  pose proof (halves_num _ _ s l Hs Hsl E (aspect_half a s l Wa Hs Hl Da)) as [Pa Qa].
  pose proof (halves_num _ _ s l Hs Hsl E (aspect_half b s l Wb Hs Hl Db)) as [Pb Qb].
  splits; auto.
  destruct (Qcleb two (aspect_ratio x)) eqn:C; qb2p.
  - rewrite Pa, Pb; auto.
  - apply (mul_cancel_r _ _ (aspect_ratio x)). qlra. rewrite Qa, Qb; auto.
Qed.

(* ---------------- powers of two and lg2up ---------------- *)
Fixpoint pow2 (k : nat) : Qc := match k with O => 1 | S k' => two * pow2 k' end.

Lemma pow2_inject k : (this (pow2 k) == inject_Z (2 ^ Z.of_nat k))%Q.
Proof.
  induction k as [|k IH].
  - reflexivity.
  - cbn [pow2]. rewrite this_mult, IH. unfold two. rewrite this_Q2Qc.
    rewrite Nat2Z.inj_succ, Z.pow_succ_r by apply Nat2Z.is_nonneg.
    rewrite inject_Z_mult. reflexivity.
Qed.

Lemma lg2up_spec a : 1 <= a -> a <= pow2 (lg2up a).
Proof.
  intro H. unfold Qcle. rewrite pow2_inject. unfold lg2up.
  set (c := Qceiling (this a)).
  assert (Hc : (this a <= inject_Z c)%Q) by apply Qle_ceiling.
  assert (C1 : (0 < c)%Z).
  { rewrite Zlt_Qlt. eapply Qlt_le_trans; [|exact Hc].
    unfold Qcle in H. eapply Qlt_le_trans; [|exact H]. reflexivity. }
  rewrite Z2Nat.id by apply Z.log2_up_nonneg.
  eapply Qle_trans; [exact Hc|]. rewrite <- Zle_Qle.
  apply (Z.log2_log2_up_spec c C1).
Qed.

(* ---------------- the loop on one rectangle ---------------- *)
Lemma wf_wfb x : wf x -> wfb x = true.
Proof. intros [Hw Hh]. unfold wfb. apply andb_true_iff. split; qb2p; assumption. Qed.

Lemma loop_keep r x q heap f : wf x -> aspect_ratio x <= r ->
  phase1_loop (S f) r (x :: q) heap = phase1_loop f r q (x :: heap).
Proof.
  intros Hwf Ha. cbn [phase1_loop]. rewrite (wf_wfb x Hwf). cbn [negb].
  destruct (Qcltb r (aspect_ratio x)) eqn:E; qb2p; [exfalso; qlra|reflexivity].
Qed.

Lemma loop_split r x a b q heap f : wf x -> r < aspect_ratio x -> split x = Some (a, b) ->
  phase1_loop (S f) r (x :: q) heap = phase1_loop f r (b :: a :: q) heap.
Proof.
  intros Hwf Ha S. cbn [phase1_loop]. rewrite (wf_wfb x Hwf). cbn [negb].
  destruct (Qcltb r (aspect_ratio x)) eqn:E; qb2p; [|exfalso; qlra].
  rewrite S. reflexivity.
Qed.

Lemma pow2_pos k : 0 < pow2 k.
Proof. induction k as [|k IH]; cbn [pow2]. reflexivity. qlra. Qed.

Lemma pow_ge4 k : (4 <= Nat.pow 2 (k + 2))%nat.
Proof.
  rewrite Nat.pow_add_r. change (Nat.pow 2 2) with 4%nat.
  pose proof (Nat.pow_nonzero 2 k). lia.
Qed.

Definition subtree_done (r : Qc) (bound : nat) (x : Rect) : Prop :=
  forall q heap, exists c heap', (1 <= c)%nat /\ (c + 1 <= bound)%nat /\
    (1 <= List.length heap')%nat /\
    Forall (fun y => aspect_ratio y <= r) heap' /\
    forall f, phase1_loop (c + f) r (x :: q) heap = phase1_loop f r q (heap' ++ heap).

Lemma subtree_keep r x : wf x -> aspect_ratio x <= r -> subtree_done r 4 x.
Proof.
  intros Hwf Ha q heap. exists 1%nat, [x]. splits; try (cbn; lia).
  - constructor; [exact Ha|constructor].
  - intro f. cbn [Nat.add app]. apply loop_keep; assumption.
Qed.

Lemma subtree_small r x : 0 < r -> two < r * r -> wf x ->
  r < aspect_ratio x -> aspect_ratio x < two -> subtree_done r 4 x.
Proof.
  intros Hr Hrr Hwf Ha H2 q heap.
  destruct (split_total x Hwf) as (a & b & S).
  destruct (split_wf x a b Hwf S) as [Wa Wb].
  destruct (split_aspect x a b Hwf S) as (Eab & _ & P). specialize (P H2).
  assert (Ca : aspect_ratio a <= r).
  { revert P Ha. clear - Hr Hrr. generalize (aspect_ratio a) (aspect_ratio x). intros A' A P Ha.
    apply Qcnot_lt_le. intro N. qnra. }
  assert (Cb : aspect_ratio b <= r) by (rewrite <- Eab; exact Ca).
  exists 3%nat, [a; b]. splits; try (cbn; lia).
  - repeat constructor; assumption.
  - intro f. cbn [Nat.add app].
    rewrite (loop_split r x a b) by assumption.
    rewrite loop_keep by assumption. rewrite loop_keep by assumption. reflexivity.
Qed.

Lemma phase1_subtree r : 0 < r -> two < r * r -> forall k x, wf x -> aspect_ratio x <= pow2 k ->
  forall q heap, exists c heap', (1 <= c)%nat /\ (c + 1 <= Nat.pow 2 (k + 2))%nat /\
    (1 <= List.length heap')%nat /\
    Forall (fun y => aspect_ratio y <= r) heap' /\
    forall f, phase1_loop (c + f) r (x :: q) heap = phase1_loop f r q (heap' ++ heap).
Proof.
  intros Hr Hrr.
  assert (W : forall k x, subtree_done r 4 x -> subtree_done r (Nat.pow 2 (k + 2)) x).
  { intros k x D q heap. destruct (D q heap) as (c & h1 & A & B & R1 & R2 & R3). exists c, h1.
    pose proof (pow_ge4 k). splits; auto. lia. }
  induction k as [|k IH]; intros x Hwf Hk.
  - destruct (Qcltb r (aspect_ratio x)) eqn:C; qb2p.
    + apply (W 0%nat), subtree_small; auto. cbn [pow2] in Hk. qlra.
    + apply (W 0%nat), subtree_keep; auto.
  - destruct (Qcltb r (aspect_ratio x)) eqn:C; qb2p; [|apply W, subtree_keep; auto].
    destruct (Qcltb (aspect_ratio x) two) eqn:C2; qb2p; [apply W, subtree_small; auto|].
    intros q heap.
    destruct (split_total x Hwf) as (a & b & Sp).
    destruct (split_wf x a b Hwf Sp) as [Wa Wb].
    destruct (split_aspect x a b Hwf Sp) as (Eab & P & _). specialize (P C2).
    assert (Ka : aspect_ratio a <= pow2 k).
    { rewrite P. cbn [pow2] in Hk. revert Hk. generalize (aspect_ratio x) (pow2 k). intros. qlra. }
    assert (Kb : aspect_ratio b <= pow2 k) by (rewrite <- Eab; exact Ka).
    destruct (IH b Wb Kb (a :: q) heap) as (cb & hb & B1 & B2 & B3 & B4 & B5).
    destruct (IH a Wa Ka q (hb ++ heap)) as (ca & ha & A1 & A2 & A3 & A4 & A5).
    exists (Datatypes.S (cb + ca)%nat), (ha ++ hb). splits.
    + lia.
    + replace (S k + 2)%nat with (S (k + 2)) by lia. rewrite Nat.pow_succ_r'. lia.
    + rewrite app_length. lia.
    + apply Forall_app; split; assumption.
    + intro f. cbn [Nat.add]. rewrite (loop_split r x a b) by assumption.
      replace (cb + ca + f)%nat with (cb + (ca + f))%nat by lia.
      rewrite B5, A5, app_assoc. reflexivity.
Qed.

(* ---------------- the fuel suffices ---------------- *)
Theorem phase1_loop_fuel r : 0 < r -> two < r * r -> forall q heap fuel, Forall wf q ->
  (phase1_fuel q <= fuel)%nat -> exists out, phase1_loop fuel r q heap = Ok out.
Proof.
  intros Hr Hrr. induction q as [|x q IH]; intros heap fuel Hq Hf.
  - exists (rev heap). destruct fuel; reflexivity.
  - inversion Hq as [|x' q' Hx Hq']; subst.
    pose proof (lg2up_spec _ (aspect_ge1 x Hx)) as Hk.
    destruct (phase1_subtree r Hr Hrr _ x Hx Hk q heap) as (c & h' & C1 & C2 & _ & _ & C5).
    change (phase1_fuel (x :: q)) with (rect_cost x + phase1_fuel q)%nat in Hf.
    unfold rect_cost in Hf.
    replace fuel with (c + (fuel - c))%nat by lia. rewrite C5.
    apply IH; [exact Hq'|lia].
Qed.

Lemma phase1_fuel_app l1 l2 : phase1_fuel (l1 ++ l2) = (phase1_fuel l1 + phase1_fuel l2)%nat.
Proof.
  induction l1 as [|x l1 IH]; [reflexivity|].
  change (phase1_fuel ((x :: l1) ++ l2)) with (rect_cost x + phase1_fuel (l1 ++ l2))%nat.
  change (phase1_fuel (x :: l1)) with (rect_cost x + phase1_fuel l1)%nat.
  rewrite IH. lia.
Qed.

Lemma phase1_fuel_rev rs : phase1_fuel (rev rs) = phase1_fuel rs.
Proof.
  induction rs as [|x rs IH]; [reflexivity|].
  cbn [rev]. rewrite phase1_fuel_app, IH.
  change (phase1_fuel (x :: rs)) with (rect_cost x + phase1_fuel rs)%nat.
  change (phase1_fuel [x]) with (rect_cost x + 0)%nat. lia.
Qed.

Lemma ar_limit_sq r : ar_limit < r -> 0 < r /\ two < r * r.
Proof.
  intro H.
  assert (P : 0 < ar_limit) by reflexivity.
  assert (S2 : two < ar_limit * ar_limit) by (vm_compute; reflexivity).
  revert H P S2. generalize ar_limit. intros l H P S2. split; qnra.
Qed.

Theorem phase1_fuel_suffices : forall rs r n fuel, Forall wf rs -> (0 < n)%Z -> ar_limit < r ->
  (phase1_fuel rs <= fuel)%nat -> exists out, phase1 fuel rs r n = Ok out.
Proof.
  intros rs r n fuel Hrs Hn Hr Hf. unfold phase1.
  destruct (n <=? 0)%Z eqn:En; [apply Z.leb_le in En; lia|].
  destruct (Qcleb r ar_limit) eqn:E; qb2p; [exfalso; qlra|].
  destruct (ar_limit_sq r Hr) as [R0 R2].
  apply phase1_loop_fuel; auto.
  - apply Forall_rev; exact Hrs.
  - rewrite phase1_fuel_rev; exact Hf.
Qed.

(* the result does not depend on the fuel, once it is enough *)
Theorem phase1_fuel_indep : forall r q heap f1 f2 o1 o2,
  phase1_loop f1 r q heap = Ok o1 -> phase1_loop f2 r q heap = Ok o2 -> o1 = o2.
Proof.
  intros r q heap f1. revert q heap.
  induction f1 as [|f1 IH]; intros q heap f2 o1 o2 H1 H2.
  - destruct q as [|x q]; [|discriminate].
    destruct f2; cbn [phase1_loop] in *; congruence.
  - destruct q as [|x q].
    + destruct f2; cbn [phase1_loop] in *; congruence.
    + destruct f2 as [|f2]; [discriminate|].
      cbn [phase1_loop] in H1, H2.
      destruct (negb (wfb x)); [discriminate|].
      destruct (Qcltb r (aspect_ratio x)).
      * destruct (split x) as [[a b]|]; [|discriminate]. eapply IH; eassumption.
      * eapply IH; eassumption.
Qed.

(* a 4 x 1 rectangle with limit 3/2: aspect 4 -> two 2 x 1 (aspect 2 > 3/2) -> four 1 x 1 *)
Definition ex_rect : Rect := mkRect (qc 2 1) (qc 1 2) (qc 4 1) 1 false false "_"%string NOPOLY.
Example phase1_ex :
  phase1_fuel [ex_rect] = 16%nat /\
  exists out, phase1 (phase1_fuel [ex_rect]) [ex_rect] (qc 3 2) 1 = Ok out /\
    List.length out = 4%nat /\
    map (fun y => (this (cx y), this (cy y), this (rw y), this (rh y))) out =
      [(7 # 2, 1 # 2, 1, 1); (5 # 2, 1 # 2, 1, 1); (3 # 2, 1 # 2, 1, 1); (1 # 2, 1 # 2, 1, 1)]%Q.
Proof.
  split; [vm_compute; reflexivity|].
  destruct (phase1 (phase1_fuel [ex_rect]) [ex_rect] (qc 3 2) 1) as [out| |] eqn:E;
    try (vm_compute in E; discriminate).
  exists out. split; [reflexivity|].
  vm_compute in E. injection E as <-. split; vm_compute; reflexivity.
Qed.
