(* C08 model, part 3: the order in which solve / enforce_bb register their variables with the
   SATManager (SATManager.vtable: every first [newvar] of a name appends it; the position is the
   DIMACS number of the variable).  [solve_posts_reg] is [solve_posts] with a [PNewVar] post at
   every place where the code's first [sm.newvar(...)] of a name can occur:
     solve:       for b: b_<b>, then b<i>_<b> for i < nboxes
     enforce_bb:  for x: b<i>_x_<x>, b<i>_X_<x>; for y: b<i>_y_<y>, b<i>_Y_<y>; for b: b<i>_<b>;
                  (branch) north, south, east, west; b<t>_<b2> before each neighbour implication
   (aux_<n> and robdd_<n> are registered by the posts themselves, as in C07's model).
   Registration changes nothing but the variable table: [encode_reg_encode] - the store, the clause
   list, the auxiliary counter and the codified set are those of [encode], on which the theorems
   are stated. *)
From Coq Require Import ZArith List Bool String Arith Lia.
From FrameModel Require Import Num.QcTac PB.Expr PB.Cnf PB.Amo PB.Robdd PB.Codify PB.Sat
  RectSearch.Coords RectSearch.Names RectSearch.Encode.
Import ListNotations.
Local Open Scope nat_scope.

Definition reg (v : rv) : post := PNewVar (name v).

Section BBReg.
  Variable mode : border_mode.
  Variable inp : problem.
  Variable C : coords.
  Variable i t : nat.
  Definition box_regs : list post :=
    flat_map (fun x => [reg (xl C i x); reg (xb C i x)]) (xcoords C) ++
    flat_map (fun y => [reg (yl C i y); reg (yb C i y)]) (ycoords C).
  Definition cellposts_reg (b : nat) : list post := reg (VCell i b) :: cellposts inp C i b.
  Definition into_trunk_reg (b1 b2 : nat) (d : dir) : list post :=
    if neighbour inp b1 b2 d then reg (VCell t b2) :: into_trunk inp i t b1 b2 d else [].
  Definition attach_reg (b1 : nat) : list post :=
    excl mode inp C i b1 DW ++ excl mode inp C i b1 DN ++ excl mode inp C i b1 DE ++ excl mode inp C i b1 DS ++
    flat_map (fun b2 => into_trunk_reg b1 b2 DW ++ into_trunk_reg b1 b2 DE ++
                        into_trunk_reg b1 b2 DN ++ into_trunk_reg b1 b2 DS) (blocks C).
  Definition box_posts_reg : list post :=
    box_regs ++
    flat_map cellposts_reg (blocks C) ++
    flat_map (xchain C i) (seq 1 (List.length (xcoords C) - 1)) ++
    flat_map (ychain C i) (seq 1 (List.length (ycoords C) - 1)) ++
    map (converse inp C i) (blocks C) ++
    [atleast1 (map (VCell i) (blocks C))].
  Definition selector_posts_reg : list post :=
    if Nat.eqb i t then []
    else map reg (dirs i) ++ [PAmoH 3 (map pos (dirs i)); atleast1 (dirs i)] ++ flat_map attach_reg (blocks C).
  Definition enforce_bb_reg : list post := box_posts_reg ++ selector_posts_reg.
End BBReg.

Section SolveReg.
  Variable mode : border_mode.
  Variable inp : problem.
  Variable k : nat.
  Variable factor ratio : Qc.
  Variable bound : Z.
  Let C := definecoords inp.
  Definition cellsel_reg (b : nat) : list post :=
    reg (VSel b) :: map (fun i => reg (VCell i b)) (seq 0 k) ++ cellsel k b.
  Definition shape_posts_pre_reg : list post :=
    flat_map cellsel_reg (blocks C) ++ [atleast1 (map VSel (blocks C))].
  Definition shape_posts_post_reg : list post :=
    flat_map (fun i => enforce_bb_reg mode inp C i 0) (seq 0 k) ++ map (cell_amo k) (blocks C).
  Definition solve_posts_reg : option (list post) :=
    if Qcltb ratio 1 then None
    else if (1 <=? k) && negb (forallb (keys_ok inp C) (blocks C)) then None
    else Some (shape_posts_pre_reg ++ [PIneq (obj_ineq inp factor ratio bound) false] ++ shape_posts_post_reg).
  Definition encode_reg (m0 : memory) : option (memory * mgr) :=
    match solve_posts_reg with
    | None => None
    | Some ps => match run_posts m0 empty_mgr ps with
                 | Some (m, s, _) => Some (m, s)
                 | None => None
                 end
    end.
End SolveReg.

(* ---- erasing the registrations gives back the posts of Encode.v ---- *)
Definition not_reg (p : post) : bool := match p with PNewVar _ => false | _ => true end.
Definition strip (ps : list post) : list post := filter not_reg ps.

Lemma strip_app p q : strip (p ++ q) = strip p ++ strip q.
Proof. apply filter_app. Qed.
Lemma strip_flat_map {A} (f : A -> list post) l : strip (flat_map f l) = flat_map (fun x => strip (f x)) l.
Proof. induction l as [|a l IH]; [reflexivity|]. cbn [flat_map]. rewrite strip_app, IH. reflexivity. Qed.
Lemma strip_regs {A} (f : A -> rv) l : strip (map (fun x => reg (f x)) l) = [].
Proof. induction l as [|a l IH]; [reflexivity|]. exact IH. Qed.
Lemma strip_id l : forallb not_reg l = true -> strip l = l.
Proof.
  induction l as [|a l IH]; [reflexivity|]. cbn [forallb strip filter]. intro H. apply andb_prop in H.
  destruct H as [H1 H2]. rewrite H1. f_equal. apply IH. exact H2.
Qed.
Lemma flat_map_nil {A B} (l : list A) : flat_map (fun _ => @nil B) l = [].
Proof. induction l as [|a l IH]; [reflexivity|]. exact IH. Qed.

Lemma app_eq {A} (a a' b b' : list A) : a = a' -> b = b' -> a ++ b = a' ++ b'.
Proof. intros -> ->. reflexivity. Qed.
Lemma flat_map_regs2 {A} (f g : A -> rv) l : flat_map (fun x => strip [reg (f x); reg (g x)]) l = [].
Proof. induction l as [|a l IH]; [reflexivity|]. exact IH. Qed.
Lemma strip_into_trunk inp i t b1 b2 d : strip (into_trunk_reg inp i t b1 b2 d) = into_trunk inp i t b1 b2 d.
Proof. unfold into_trunk_reg, into_trunk. destruct (neighbour inp b1 b2 d); reflexivity. Qed.
Lemma strip_excl mode inp C i b d : strip (excl mode inp C i b d) = excl mode inp C i b d.
Proof. unfold excl. destruct (on_border mode inp C b d); reflexivity. Qed.
Lemma strip_chain_x C i l : strip (flat_map (xchain C i) l) = flat_map (xchain C i) l.
Proof. rewrite strip_flat_map. reflexivity. Qed.
Lemma strip_chain_y C i l : strip (flat_map (ychain C i) l) = flat_map (ychain C i) l.
Proof. rewrite strip_flat_map. reflexivity. Qed.
Lemma strip_map_other {A} (f : A -> post) l : (forall x, not_reg (f x) = true) -> strip (map f l) = map f l.
Proof. intro H. apply strip_id. rewrite forallb_forall. intros p Hp. apply in_map_iff in Hp. destruct Hp as [x [<- _]]. apply H. Qed.

Lemma strip_enforce_bb mode inp C i t : strip (enforce_bb_reg mode inp C i t) = enforce_bb mode inp C i t.
Proof.
  unfold enforce_bb_reg, enforce_bb, box_posts_reg, box_posts, selector_posts_reg, selector_posts, box_regs.
  rewrite !strip_app. f_equal.
  - rewrite !strip_flat_map.
    rewrite (flat_map_regs2 (xl C i) (xb C i)), (flat_map_regs2 (yl C i) (yb C i)). cbn [app].
    apply app_eq; [|apply app_eq; [|apply app_eq; [|apply app_eq; [|reflexivity]]]].
    + apply flat_map_ext. intro b. reflexivity.
    + apply flat_map_ext. intro j. reflexivity.
    + apply flat_map_ext. intro j. reflexivity.
    + apply strip_map_other. intro x. reflexivity.
  - destruct (Nat.eqb i t); [reflexivity|]. rewrite !strip_app.
    change (map reg (dirs i)) with (map (fun d => reg (id d)) (dirs i)). rewrite strip_regs. cbn [app].
    change (strip [PAmoH 3 (map pos (dirs i)); atleast1 (dirs i)]) with [PAmoH 3 (map pos (dirs i)); atleast1 (dirs i)].
    rewrite strip_flat_map. cbn [app]. do 2 f_equal. apply flat_map_ext. intro b1. unfold attach_reg, attach.
    rewrite !strip_app, !strip_excl. do 4 (apply app_eq; [reflexivity|]). rewrite strip_flat_map. apply flat_map_ext. intro b2.
    rewrite !strip_app, !strip_into_trunk. reflexivity.
Qed.

Lemma strip_solve_posts mode inp k factor ratio bound :
  option_map strip (solve_posts_reg mode inp k factor ratio bound) = solve_posts mode inp k factor ratio bound.
Proof.
  unfold solve_posts_reg, solve_posts. destruct (Qcltb ratio 1); [reflexivity|].
  destruct ((1 <=? k) && negb (forallb (keys_ok inp (definecoords inp)) (blocks (definecoords inp)))); [reflexivity|].
  cbn [option_map]. f_equal. rewrite !strip_app. f_equal; [|f_equal].
  - unfold shape_posts_pre_reg, shape_posts_pre. rewrite strip_app. f_equal.
    rewrite strip_flat_map. apply flat_map_ext. intro b. unfold cellsel_reg.
    change (strip (reg (VSel b) :: ?l)) with (strip l).
    cbn [strip filter reg not_reg]. fold (strip (map (fun i => reg (VCell i b)) (seq 0 k) ++ cellsel k b)).
    rewrite strip_app, (strip_regs (fun i => VCell i b)). cbn [app]. unfold cellsel. rewrite strip_app. f_equal.
    apply strip_map_other. intro x. reflexivity.
  - unfold shape_posts_post_reg, shape_posts_post. rewrite strip_app. f_equal.
    + rewrite strip_flat_map. apply flat_map_ext. intro i. apply strip_enforce_bb.
    + apply strip_map_other. intro x. reflexivity.
Qed.

(* ---- registration does not influence anything but the variable table ---- *)
Definition meq (s1 s2 : mgr) : Prop :=
  clauses s1 = clauses s2 /\ auxcount s1 = auxcount s2 /\ codified s1 = codified s2.
Lemma meq_refl s : meq s s. Proof. repeat split. Qed.
Lemma meq_sym s1 s2 : meq s1 s2 -> meq s2 s1. Proof. intros (A & B & D). repeat split; symmetry; assumption. Qed.
Lemma meq_trans s1 s2 s3 : meq s1 s2 -> meq s2 s3 -> meq s1 s3.
Proof. intros (A & B & D) (A' & B' & D'). repeat split; etransitivity; eassumption. Qed.
Lemma newvar_meq v s : meq (newvar v s) s.
Proof. unfold newvar. destruct (existsb (var_eqb v) (vtable s)); repeat split. Qed.
Lemma newvar_meq2 v s1 s2 : meq s1 s2 -> meq (newvar v s1) (newvar v s2).
Proof. intro H. exact (meq_trans _ _ _ (newvar_meq v s1) (meq_trans _ _ _ H (meq_sym _ _ (newvar_meq v s2)))). Qed.
Lemma add_clause_meq c s1 s2 : meq s1 s2 -> meq (add_clause c s1) (add_clause c s2).
Proof. intros (A & B & D). unfold add_clause, meq. cbn. rewrite A. repeat split; assumption. Qed.
Lemma add_clauses_meq cs s1 s2 : meq s1 s2 -> meq (add_clauses cs s1) (add_clauses cs s2).
Proof. intros (A & B & D). unfold add_clauses, meq. cbn. rewrite A. repeat split; assumption. Qed.
Lemma set_codified_meq id s1 s2 : meq s1 s2 -> meq (set_codified id s1) (set_codified id s2).
Proof. intros (A & B & D). unfold set_codified, meq. cbn. rewrite D. repeat split; assumption. Qed.
Lemma set_aux_meq n s1 s2 : meq s1 s2 -> meq (set_aux n s1) (set_aux n s2).
Proof. intros (A & B & D). unfold set_aux, meq. cbn. repeat split; assumption. Qed.
Lemma register_aux_meq lo hi s1 s2 : meq s1 s2 -> meq (register_aux lo hi s1) (register_aux lo hi s2).
Proof.
  unfold register_aux. generalize (seq (S lo) (hi - lo)). intro l. revert s1 s2.
  induction l as [|a l IH]; intros s1 s2 H; cbn [fold_left]; [exact H|]. apply IH. apply newvar_meq2. exact H.
Qed.

Lemma codify_meq fuel (m : memory) : forall id s1 s2 a, meq s1 s2 -> codify fuel m id s1 = Some a ->
  exists b, codify fuel m id s2 = Some b /\ meq a b.
Proof.
  induction fuel as [|f IH]; intros id s1 s2 a H E; [discriminate E|]. cbn [codify] in *.
  assert (Ec : is_codified id s1 = is_codified id s2) by (unfold is_codified; destruct H as (_ & _ & D); rewrite D; reflexivity).
  rewrite <- Ec. destruct (is_codified id s1).
  - injection E as <-. exists s2. split; [reflexivity|exact H].
  - pose proof (newvar_meq2 (Node id) _ _ (set_codified_meq id _ _ H)) as H0.
    destruct id as [|[|j]].
    + injection E as <-. eexists. split; [reflexivity|]. apply add_clause_meq. exact H0.
    + injection E as <-. eexists. split; [reflexivity|]. apply add_clause_meq. exact H0.
    + destruct (nth_error m j) as [[[v hi] lo]|]; [|discriminate E].
      destruct (codify f m hi (newvar (Node (S (S j))) (set_codified (S (S j)) s1))) as [a1|] eqn:E1; [|discriminate E].
      destruct (IH _ _ _ _ H0 E1) as [b1 [F1 M1]]. rewrite F1.
      destruct (codify f m lo a1) as [a2|] eqn:E2; [|discriminate E].
      destruct (IH _ _ _ _ M1 E2) as [b2 [F2 M2]]. rewrite F2.
      injection E as <-. eexists. split; [reflexivity|].
      do 2 apply add_clause_meq. do 3 apply newvar_meq2. exact M2.
Qed.

Lemma run_post_meq p (m : memory) s1 s2 m' s1' st : meq s1 s2 -> run_post m s1 p = Some (m', s1', st) ->
  exists s2', run_post m s2 p = Some (m', s2', st) /\ meq s1' s2'.
Proof.
  intros H E. destruct p as [v|c|l x|l|k l|i d]; cbn [run_post] in *.
  - injection E as <- <- <-. eexists. split; [reflexivity|]. apply newvar_meq2. exact H.
  - injection E as <- <- <-. eexists. split; [reflexivity|]. apply add_clause_meq. exact H.
  - injection E as <- <- <-. eexists. split; [reflexivity|]. apply add_clause_meq. exact H.
  - injection E as <- <- <-. eexists. split; [reflexivity|]. apply add_clauses_meq. exact H.
  - destruct (k <? 3)%Z.
    + injection E as <- <- <-. eexists. split; [reflexivity|exact H].
    + assert (Ea : auxcount s1 = auxcount s2) by (destruct H as (_ & B & _); exact B). rewrite <- Ea.
      destruct (heule (List.length l) (Z.to_nat k) (auxcount s1) (ulits l)) as [[cs aux']|]; [|discriminate E].
      injection E as <- <- <-. eexists. split; [reflexivity|].
      apply set_aux_meq, register_aux_meq, add_clauses_meq. exact H.
  - unfold pseudobool in *. destruct (isclause i) as [| |c].
    + destruct (is_ge (iop i)).
      * destruct (getrobdd d i m) as [[root m1]|]; [|discriminate E].
        destruct (codify (S root) m1 root s1) as [a|] eqn:E1; [|discriminate E].
        destruct (codify_meq _ _ _ _ _ _ H E1) as [b [F M]]. rewrite F.
        injection E as <- <- <-. eexists. split; [reflexivity|]. apply add_clause_meq, newvar_meq2. exact M.
      * injection E as <- <- <-. eexists. split; [reflexivity|exact H].
    + injection E as <- <- <-. eexists. split; [reflexivity|exact H].
    + injection E as <- <- <-. eexists. split; [reflexivity|]. apply add_clause_meq. exact H.
Qed.

Lemma run_posts_strip : forall ps (m : memory) s1 s2 m' s1' sts, meq s1 s2 ->
  run_posts m s1 ps = Some (m', s1', sts) ->
  exists s2' sts', run_posts m s2 (strip ps) = Some (m', s2', sts') /\ meq s1' s2'.
Proof.
  induction ps as [|p ps IH]; intros m s1 s2 m' s1' sts H E.
  - cbn in E. injection E as <- <- <-. exists s2, []. split; [reflexivity|exact H].
  - cbn [run_posts] in E. destruct (run_post m s1 p) as [[[m1 t1] st]|] eqn:E1; [|discriminate E].
    destruct (run_posts m1 t1 ps) as [[[m2 t2] sts2]|] eqn:E2; [|discriminate E]. injection E as <- <- <-.
    destruct p as [v|c|l x|l|k l|i d];
      try (destruct (run_post_meq _ _ _ _ _ _ _ H E1) as [u1 [F1 M1]];
           destruct (IH _ _ _ _ _ _ M1 E2) as (u2 & sts' & F2 & M2);
           cbn [strip filter not_reg]; fold (strip ps); cbn [run_posts]; rewrite F1, F2;
           eexists; eexists; split; [reflexivity|exact M2]).
    cbn [run_post] in E1. injection E1 as <- <- <-.
    cbn [strip filter not_reg]. fold (strip ps).
    exact (IH _ _ _ _ _ _ (meq_trans _ _ _ (newvar_meq _ _) H) E2).
Qed.
Lemma run_posts_unstrip : forall ps (m : memory) s1 s2 m' s2' sts, meq s1 s2 ->
  run_posts m s2 (strip ps) = Some (m', s2', sts) ->
  exists s1' sts', run_posts m s1 ps = Some (m', s1', sts') /\ meq s1' s2'.
Proof.
  induction ps as [|p ps IH]; intros m s1 s2 m' s2' sts H E.
  - cbn in E. injection E as <- <- <-. exists s1, []. split; [reflexivity|exact H].
  - destruct p as [v|c|l x|l|k l|i d];
      try (cbn [strip filter not_reg] in E; fold (strip ps) in E; cbn [run_posts] in E;
           match type of E with context [run_post m s2 ?p] => destruct (run_post m s2 p) as [[[m1 t1] st]|] eqn:E1; [|discriminate E] end;
           destruct (run_posts m1 t1 (strip ps)) as [[[m2 t2] sts2]|] eqn:E2; [|discriminate E]; injection E as <- <- <-;
           destruct (run_post_meq _ _ _ _ _ _ _ (meq_sym _ _ H) E1) as [u1 [F1 M1]];
           destruct (IH _ _ _ _ _ _ (meq_sym _ _ M1) E2) as (u2 & sts' & F2 & M2);
           cbn [run_posts]; rewrite F1, F2; eexists; eexists; split; [reflexivity|exact M2]).
    cbn [strip filter not_reg] in E. fold (strip ps) in E. cbn [run_posts run_post].
    destruct (IH m (newvar (User v) s1) s2 m' s2' sts (meq_trans _ _ _ (newvar_meq _ _) H) E) as (u & sts' & F & M).
    rewrite F. eexists; eexists; split; [reflexivity|exact M].
Qed.

(* the formula with registrations is the formula of [encode] *)
Theorem encode_reg_encode mode inp k factor ratio bound (m0 : memory) :
  match encode_reg mode inp k factor ratio bound m0, encode mode inp k factor ratio bound m0 with
  | Some (m, s), Some (m', s') => m = m' /\ clauses s = clauses s' /\ auxcount s = auxcount s' /\ codified s = codified s'
  | None, None => True
  | _, _ => False
  end.
Proof.
  unfold encode_reg, encode. rewrite <- strip_solve_posts.
  destruct (solve_posts_reg mode inp k factor ratio bound) as [ps|]; cbn [option_map]; [|exact I].
  destruct (run_posts m0 empty_mgr ps) as [[[m s] sts]|] eqn:E.
  - destruct (run_posts_strip _ _ _ _ _ _ _ (meq_refl empty_mgr) E) as (s' & sts' & F & M). rewrite F.
    split; [reflexivity|exact M].
  - destruct (run_posts m0 empty_mgr (strip ps)) as [[[m s] sts]|] eqn:F; [|exact I].
    destruct (run_posts_unstrip _ _ _ _ _ _ _ (meq_refl empty_mgr) F) as (s' & sts' & E' & _). congruence.
Qed.
