(* C08 facts, part 7: the statements at the level of the generated clause list
   (attach_exact, shapes_exact) and the search (solve) with the solver's contract. *)
From Coq Require Import ZArith List Bool String Arith Lia.
From FrameModel Require Import Num.QcTac PB.Expr PB.Cnf PB.Robdd PB.Codify PB.Sat PB.SatFacts
  RectSearch.Coords RectSearch.CoordsFacts RectSearch.Names RectSearch.Encode RectSearch.EncodeFacts
  RectSearch.GridFacts RectSearch.Shapes RectSearch.BoxFacts RectSearch.AttachFacts RectSearch.ShapesFacts.
Import ListNotations.
Local Open Scope nat_scope.

(* (ii) enforce_bb of a branch (btag <> cbtag), the trunk being a rectangle T that shares no
   cell with the branch: the models, projected on the branch's cell variables, are the
   rectangles that abut T along one side within T's extent *)
Theorem attach_exact : forall inp i (m0 : memory) T, full_grid inp = true -> i <> 0 -> mem_wf m0 ->
  rect_okb (ncols (definecoords inp)) (nrows (definecoords inp)) T = true ->
  exists m s sts, run_posts m0 empty_mgr (enforce_bb Repaired inp (definecoords inp) i 0) = Some (m, s, sts) /\
    forall sigma, (forall b, b < List.length inp -> sigma b = true -> in_rect T (colb inp b) (rowb inp b) = false) ->
      ((exists a, (forall b, b < List.length inp -> a (name (VCell i b)) = sigma b) /\
                  (forall b, b < List.length inp -> a (name (VCell 0 b)) = in_rect T (colb inp b) (rowb inp b)) /\
                  ext a (clauses s)) <->
       (exists B, rect_okb (ncols (definecoords inp)) (nrows (definecoords inp)) B = true /\
                  (forall b, b < List.length inp -> sigma b = in_rect B (colb inp b) (rowb inp b)) /\
                  abutsb T B = true)).
Proof.
  intros inp i m0 T FG Ni W OkT.
  destruct (good_posts_exact m0 (enforce_bb Repaired inp (definecoords inp) i 0) W) as (m & s & sts & Er & Hx).
  { intros p Hp. exact (enforce_good _ _ _ _ _ _ Hp). }
  exists m, s, sts. split; [exact Er|]. intros sigma Dj. split.
  - intros [a [Ha [HT Hext]]]. apply Hx in Hext. unfold enforce_bb in Hext. apply posts_hold_app in Hext.
    destruct Hext as [Hb Hs]. apply (box_posts_sem inp FG i a) in Hb.
    apply (selector_posts_sem Repaired inp i 0 a Ni) in Hs.
    destruct (box_sem_rect inp FG i _ Hb) as [B [OkB HB]].
    exists B. split; [exact OkB|]. split; [intros b Hlt; rewrite <- (Ha b Hlt); exact (HB b Hlt)|].
    apply (attach_sound inp FG i Ni (fun v => a (name v)) T B); try assumption.
    intros b Hlt Fb. cbn beta in *. rewrite (HT b Hlt). apply Dj; [exact Hlt|]. rewrite <- (Ha b Hlt). exact Fb.
  - intros [B [OkB [HB Ab]]].
    set (f := fun v => match v with
                       | VCell j b => if Nat.eqb j 0 then in_rect T (colb inp b) (rowb inp b) else sigma b
                       | VDir _ d => dir_eqb d (dir_of T B)
                       | other => box_asg B sigma other
                       end).
    exists (asg_of f). split; [|split].
    + intros b Hlt. rewrite asg_of_name. cbn. apply Nat.eqb_neq in Ni. rewrite Ni. reflexivity.
    + intros b Hlt. rewrite asg_of_name. reflexivity.
    + apply Hx. unfold enforce_bb. apply posts_hold_app. split.
      * apply (box_posts_sem inp FG i). apply (rect_box_sem inp FG i B); [exact OkB|..]; intros; rewrite asg_of_name; cbn.
        -- apply Nat.eqb_neq in Ni. rewrite Ni. apply HB. assumption.
        -- reflexivity.
        -- reflexivity.
        -- reflexivity.
        -- reflexivity.
      * apply (selector_posts_sem Repaired inp i 0 _ Ni).
        apply (attach_complete inp FG i Ni _ T B); try assumption.
        -- intros b Hlt. rewrite asg_of_name. reflexivity.
        -- intros b Hlt. rewrite asg_of_name. cbn. apply Nat.eqb_neq in Ni. rewrite Ni. apply HB. exact Hlt.
        -- intro d. rewrite asg_of_name. reflexivity.
Qed.

(* (iii) the whole shape formula *)
Theorem shapes_exact : forall inp k (m0 : memory), full_grid inp = true -> 1 <= k -> mem_wf m0 ->
  exists m s sts, run_posts m0 empty_mgr (shape_posts Repaired inp k) = Some (m, s, sts) /\
    forall sigma,
      (exists a, (forall i b, i < k -> b < List.length inp -> a (name (VCell i b)) = sigma i b) /\
                 ext a (clauses s)) <-> shape k inp sigma.
Proof.
  intros inp k m0 FG Hk W.
  destruct (good_posts_exact m0 (shape_posts Repaired inp k) W) as (m & s & sts & Er & Hx).
  { intros p Hp. exact (shape_posts_good _ _ _ _ Hp). }
  exists m, s, sts. split; [exact Er|]. intro sigma. rewrite <- (shapes_exact_posts inp FG k Hk sigma).
  split; intros [a [Ha H]]; exists a; (split; [exact Ha|]); apply Hx; exact H.
Qed.

(* ---- the search ---- *)
Definition cells_bbox (inp : problem) (s : nat -> bool) : option box :=
  fold_left (fun acc b => if s b then grow acc (cel inp b) else acc) (blocks (definecoords inp)) None.

Lemma sel_selected inp k f : shape_sem inp k f -> forall b, b < List.length inp ->
  f (VSel b) = selected k (fun i b => f (VCell i b)) b.
Proof.
  intros (H1 & _) b Hb. destruct (H1 b Hb) as [A B]. unfold selected.
  destruct (existsb (fun i => f (VCell i b)) (seq 0 k)) eqn:E.
  - apply existsb_exists in E. destruct E as [i [Hi Fi]]. apply in_seq in Hi. apply (A i); [lia|exact Fi].
  - apply B. intros i Hi. destruct (f (VCell i b)) eqn:Fi; [|reflexivity].
    assert (existsb (fun i => f (VCell i b)) (seq 0 k) = true)
      by (apply existsb_exists; exists i; split; [apply in_seq; lia|exact Fi]). congruence.
Qed.

Lemma existsb_ext_in {A} (f g : A -> bool) l : (forall x, In x l -> f x = g x) -> existsb f l = existsb g l.
Proof.
  induction l as [|a l IH]; intro H; [reflexivity|]. cbn [existsb]. rewrite (H a (or_introl eq_refl)), IH; [reflexivity|].
  intros x Hx. apply H. right. exact Hx.
Qed.

Lemma solve_posts_some inp k factor ratio bound : full_grid inp = true -> ~ (ratio < 1)%Qc ->
  solve_posts Repaired inp k factor ratio bound =
  Some (shape_posts_pre inp k ++ [PIneq (obj_ineq inp factor ratio bound) false] ++ shape_posts_post Repaired inp k).
Proof.
  intros FG Hr. unfold solve_posts.
  replace (Qcltb ratio 1) with false by (symmetry; apply Qcltb_false; apply Qcnot_lt_le; exact Hr).
  replace (forallb (keys_ok inp (definecoords inp)) (blocks (definecoords inp))) with true.
  - rewrite andb_false_r. reflexivity.
  - symmetry. apply forallb_forall. intros b Hb. apply in_seq in Hb. apply (keys_ok_b inp FG). lia.
Qed.

Lemma split_posts a mode inp k factor ratio bound :
  posts_hold a (shape_posts_pre inp k ++ [PIneq (obj_ineq inp factor ratio bound) false] ++ shape_posts_post mode inp k) <->
  posts_hold a (shape_posts mode inp k) /\ (bound <= cost_of inp factor ratio (fun b => a (name (VSel b))))%Z.
Proof.
  unfold shape_posts. rewrite !posts_hold_app, posts_hold_cons, posts_hold_nil, obj_holds. tauto.
Qed.

Section Search.
  (* the SAT solver is not modelled: any function with this contract (as in C07) *)
  Variable sat_o : cnf -> option valuation.
  Hypothesis sat_o_sound : forall f e, sat_o f = Some e -> sat e f.
  Hypothesis sat_o_complete : forall f, sat_o f = None -> forall e, ~ sat e f.

  Definition cells_of (e : valuation) (i b : nat) : bool := e (User (name (VCell i b))).

  Theorem search_exact : forall inp k factor ratio bound (m0 : memory),
    full_grid inp = true -> 1 <= k -> mem_wf m0 -> ~ (ratio < 1)%Qc ->
    exists r, solve_with Repaired inp k factor ratio bound sat_o m0 = Some r /\
      match r with
      | Insat => forall sigma, shape k inp sigma -> (cost_of inp factor ratio (selected k sigma) < bound)%Z
      | Found c1 rects =>
          exists sigma, shape k inp sigma /\
            (bound <= cost_of inp factor ratio (selected k sigma))%Z /\
            c1 = (cost_of inp factor ratio (selected k sigma) + 1)%Z /\
            rects = map (fun i => cells_bbox inp (sigma i)) (seq 0 k)
      end.
  Proof.
    intros inp k factor ratio bound m0 FG Hk W Hr.
    pose proof (solve_posts_some inp k factor ratio bound FG Hr) as Eps.
    destruct (encode_exact Repaired inp k factor ratio bound m0 _ W Eps) as (m & s & Ee & Hx).
    unfold solve_with. rewrite Ee. eexists. split; [reflexivity|].
    destruct (sat_o (clauses s)) as [e|] eqn:Es; cbn [result_of].
    - pose proof (sat_o_sound _ _ Es) as Se.
      assert (Hext : ext (user_part e) (clauses s)) by (exists e; split; [intro v; reflexivity|exact Se]).
      apply Hx in Hext. apply split_posts in Hext. destruct Hext as [Hs Hc].
      apply (shape_posts_sem inp FG k Hk) in Hs. pose proof (shape_sem_shape inp FG k Hk _ Hs) as Sh.
      exists (cells_of e). split; [exact Sh|].
      assert (Ec : cost_of inp factor ratio (fun b => user_part e (name (VSel b))) =
                   cost_of inp factor ratio (selected k (cells_of e))).
      { apply cost_of_ext. intros b Hb. exact (sel_selected inp k _ Hs b Hb). }
      split; [rewrite <- Ec; exact Hc|]. split.
      + rewrite evalexpr_eval, objective_eval, Ec. reflexivity.
      + reflexivity.
    - intros sigma Sh. destruct (Z.lt_ge_cases (cost_of inp factor ratio (selected k sigma)) bound) as [L|G]; [exact L|].
      exfalso. apply (shapes_exact_posts inp FG k Hk sigma) in Sh. destruct Sh as [a [Ha Hp]].
      assert (Hall : ext a (clauses s)).
      { apply Hx. apply split_posts. split; [exact Hp|].
        apply (shape_posts_sem inp FG k Hk) in Hp.
        replace (cost_of inp factor ratio (fun b => a (name (VSel b)))) with (cost_of inp factor ratio (selected k sigma)); [exact G|].
        apply cost_of_ext. intros b Hb. rewrite (sel_selected inp k _ Hp b Hb). unfold selected.
        apply existsb_ext_in. intros i Hi. apply in_seq in Hi. symmetry. apply Ha; lia. }
      destruct Hall as [e [_ Se]]. exact (sat_o_complete _ Es e Se).
  Qed.
End Search.
