(* C08 model, part 5: how the numbers of the input problem are WRITTEN.
   An InputBox is a tuple of Python numbers.  One and the same grid line may be written as the int 1 by
   the cells on one side and as the float 1.0 by the cells on the other (or 0, 0.0 and -0.0; a numpy
   scalar; in an allocation file 1, 1.0, 1.00, 10e-1, 0.1e1): the objects differ, their str() differs
   ('1' / '1.0' / '-0.0'), but Python's ==, hash, set, dict and sorted go by the numeric VALUE, and these
   are all rect.py uses on coordinates - the variable names, the only place where str(coordinate) occurs,
   are taken from the representative that definecoords keeps in xcoords / ycoords, through dictionaries
   keyed by value.  So the model reads a written number by its value and everything downstream
   (Coords.v, Encode.v, SelectBox.v) is a function of the values: [read_problem].
   Conversely NO two different values are one line: 0.1 + 0.2 (= 0.3000000000000000444...) and 0.3
   (= 0.299999999999999988...) are different numbers, the cells between them are a column of the grid
   like any other (ex_near below).
   The harness's correspondence hands the model the problem exactly as it was written to the
   implementation (int / float / numpy scalars / -0.0 chosen per cell and per coordinate) through
   [read_problem], and the parsed input file of the allocation path through [read_arect]. *)
From Coq Require Import ZArith List Bool String Arith Lia Sorted Permutation.
From FrameModel Require Import Num.QcTac PB.Expr PB.Cnf PB.Robdd PB.Codify PB.Sat
  RectSearch.Coords RectSearch.Names RectSearch.Encode RectSearch.Shapes RectSearch.EncodeFacts
  RectSearch.SearchFacts RectSearch.SelectBox.
Import ListNotations.
Local Open Scope nat_scope.

Inductive num :=
| NInt (z : Z)        (* int, numpy integer scalar; the literal 3 in a file *)
| NFloat (q : Qc)     (* float, numpy.float64 with the exact value q; the literals 3.0, 3.00, 30e-1, 0.3e1 *)
| NNegZero.           (* the float -0.0 *)
Definition value (n : num) : Qc :=
  match n with NInt z => qc z 1 | NFloat q => q | NNegZero => 0%Qc end.

Record scell := mkSCell { sx1 : num; sy1 : num; sx2 : num; sy2 : num; socc : num }.
Definition read_cell (c : scell) : cell :=
  mkCell (value (sx1 c)) (value (sy1 c)) (value (sx2 c)) (value (sy2 c)) (value (socc c)).
Definition read_problem (ws : list scell) : problem := map read_cell ws.

(* an entry of the parsed input file: dim = [xc, yc, w, h] and the ratios, as written *)
Definition read_arect (xc yc w h : num) (mods : list (string * num)) : arect :=
  mkA (value xc) (value yc) (value w) (value h) (map (fun e => (fst e, value (snd e))) mods).

(* the same number written differently *)
Lemma value_int_float z : value (NInt z) = value (NFloat (qc z 1)).
Proof. reflexivity. Qed.
Lemma value_zeros : value NNegZero = value (NFloat 0%Qc) /\ value NNegZero = value (NInt 0).
Proof. split; [reflexivity|]. apply Qc_is_canon. reflexivity. Qed.

Definition same_values (a b : scell) : Prop :=
  value (sx1 a) = value (sx1 b) /\ value (sy1 a) = value (sy1 b) /\ value (sx2 a) = value (sx2 b) /\
  value (sy2 a) = value (sy2 b) /\ value (socc a) = value (socc b).

(* two ways of writing the same grid are the same input of the model: the formula, its models and the
   answer of the search cannot depend on how the numbers were written *)
Lemma spelling_irrelevant : forall ws ws', Forall2 same_values ws ws' -> read_problem ws = read_problem ws'.
Proof.
  induction 1 as [|a b l l' (E1 & E2 & E3 & E4 & E5) _ IH]; [reflexivity|].
  cbn [read_problem map]. unfold read_cell at 1 3. rewrite E1, E2, E3, E4, E5. f_equal. exact IH.
Qed.

Lemma spelled_encode_same : forall mode ws ws' k factor ratio bound (m0 : memory),
  Forall2 same_values ws ws' ->
  encode mode (read_problem ws) k factor ratio bound m0 = encode mode (read_problem ws') k factor ratio bound m0.
Proof. intros. rewrite (spelling_irrelevant ws ws'); [reflexivity|assumption]. Qed.

(* the shape theorem for a grid written in any way *)
Theorem spelled_shapes_exact : forall ws k (m0 : memory),
  full_grid (read_problem ws) = true -> 1 <= k -> mem_wf m0 ->
  exists m s sts, run_posts m0 empty_mgr (shape_posts Repaired (read_problem ws) k) = Some (m, s, sts) /\
    forall sigma,
      (exists a, (forall i b, i < k -> b < List.length ws -> a (name (VCell i b)) = sigma i b) /\
                 ext a (clauses s)) <-> shape k (read_problem ws) sigma.
Proof.
  intros ws k m0 G K W. destruct (shapes_exact (read_problem ws) k m0 G K W) as (m & s & sts & R & H).
  exists m, s, sts. split; [exact R|]. intro sigma. rewrite <- (H sigma). unfold read_problem. rewrite map_length.
  reflexivity.
Qed.

(* ---- examples ---- *)
(* the 2 x 3 grid of unit cells whose line x = 1 is the int 1 for the cells on its left and the float 1.0
   for the cells on its right, the line y = 0 written 0, 0.0 and -0.0 *)
Definition ex_spelled : list scell :=
  [mkSCell (NInt 0) (NInt 0) (NInt 1) (NInt 1) (NFloat 0%Qc);
   mkSCell (NFloat (qc 1 1)) NNegZero (NInt 2) (NInt 1) (NInt 1);
   mkSCell (NInt 0) (NInt 1) (NInt 1) (NInt 2) (NFloat 0%Qc);
   mkSCell (NFloat (qc 1 1)) (NFloat (qc 1 1)) (NFloat (qc 2 1)) (NInt 2) (NFloat 0%Qc);
   mkSCell (NFloat 0%Qc) (NInt 2) (NInt 1) (NInt 3) NNegZero;
   mkSCell (NFloat (qc 1 1)) (NInt 2) (NInt 2) (NFloat (qc 3 1)) (NFloat (qc 1 1))].
Example ex_spelled_grid :
  full_grid (read_problem ex_spelled) = true /\
  xcoords (definecoords (read_problem ex_spelled)) = [0%Qc; qc 1 1; qc 2 1] /\
  ycoords (definecoords (read_problem ex_spelled)) = [0%Qc; qc 1 1; qc 2 1; qc 3 1].
Proof. vm_compute. repeat split; reflexivity. Qed.
Example ex_spelled_same :
  read_problem ex_spelled =
  with_occ (grid_cells [0%Qc; qc 1 1; qc 2 1] [0%Qc; qc 1 1; qc 2 1; qc 3 1]) [0%Qc; qc 1 1; 0%Qc; 0%Qc; 0%Qc; qc 1 1].
Proof. vm_compute. reflexivity. Qed.

(* 0.1 + 0.2 and 0.3 in binary64 (exact values): different numbers, hence different lines - the row of
   cells 0.1 | 0.3 | 0.1 + 0.2 | 0.5 is a 3 x 1 grid whose middle cell is 2^-54 wide *)
Definition f03 : Qc := qc 5404319552844595 18014398509481984.
Definition f0102 : Qc := qc 1351079888211149 4503599627370496.
Definition ex_near : list scell :=
  [mkSCell (NFloat (qc 3602879701896397 36028797018963968)) (NInt 0) (NFloat f03) (NInt 1) (NInt 1);
   mkSCell (NFloat f03) (NInt 0) (NFloat f0102) (NInt 1) (NInt 1);
   mkSCell (NFloat f0102) (NInt 0) (NFloat (qc 1 2)) (NInt 1) (NInt 1)].
Example ex_near_grid :
  value (NFloat f03) <> value (NFloat f0102) /\
  full_grid (read_problem ex_near) = true /\ ncols (definecoords (read_problem ex_near)) = 3.
Proof. split; [intro E; vm_compute in E; discriminate E|]. vm_compute. split; reflexivity. Qed.
