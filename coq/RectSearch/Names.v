(* C08 model: the variables of the rectilinear-shape formula.
   The implementation names its variables by strings: "b<i>_<b>" (cell b in box i),
   "b_<b>" (cell b selected), "b<i>_x_<x>", "b<i>_X_<x>", "b<i>_y_<y>", "b<i>_Y_<y>"
   (interval variables of box i at a coordinate; <x> is str(float)), "b<i>_north" ...
   The model uses structured variables [rv] (a coordinate is represented by its
   position in the sorted coordinate list) and the injective, parseable string
   code [name]; the harness maps the implementation's names onto it
   ("b2_x_3.5" -> name (VxL 2 (position of 3.5 in xcoords))) and checks that the
   mapping is one-to-one on the names that occur. *)
From Coq Require Import List Bool String Ascii Arith Lia.
Import ListNotations.
Local Open Scope string_scope.

Inductive dir := DN | DS | DE | DW.
Inductive rv :=
| VCell (i b : nat)          (* b<i>_<b> *)
| VSel (b : nat)             (* b_<b> *)
| VxL (i j : nat)            (* b<i>_x_<xcoords[j]> : "the box reaches at least up to xcoords[j]" *)
| VxB (i j : nat)            (* b<i>_X_<xcoords[j]> : "the box starts at or before xcoords[j]" *)
| VyL (i j : nat)
| VyB (i j : nat)
| VDir (i : nat) (d : dir).  (* b<i>_north / south / east / west *)

Definition dir_eqb (a b : dir) : bool :=
  match a, b with DN, DN | DS, DS | DE, DE | DW, DW => true | _, _ => false end.
Definition rv_eqb (a b : rv) : bool :=
  match a, b with
  | VCell i j, VCell i' j' | VxL i j, VxL i' j' | VxB i j, VxB i' j'
  | VyL i j, VyL i' j' | VyB i j, VyB i' j' => Nat.eqb i i' && Nat.eqb j j'
  | VSel b, VSel b' => Nat.eqb b b'
  | VDir i d, VDir i' d' => Nat.eqb i i' && dir_eqb d d'
  | _, _ => false
  end.

(* unary numerals *)
Fixpoint tally (n : nat) (s : string) : string :=
  match n with 0 => s | S m => String "1"%char (tally m s) end.
Definition two (k : ascii) (i j : nat) : string := String k (tally i (String "_"%char (tally j ""))).
Definition one (k : ascii) (i : nat) : string := String k (tally i "").

Definition name (v : rv) : string :=
  match v with
  | VCell i b => two "c" i b
  | VSel b => one "u" b
  | VxL i j => two "x" i j
  | VxB i j => two "X" i j
  | VyL i j => two "y" i j
  | VyB i j => two "Y" i j
  | VDir i DN => one "N" i
  | VDir i DS => one "S" i
  | VDir i DE => one "E" i
  | VDir i DW => one "W" i
  end.

(* the parser *)
Fixpoint untally (s : string) : nat * string :=
  match s with
  | String c r => if Ascii.eqb c "1" then let (n, t) := untally r in (S n, t) else (0, s)
  | EmptyString => (0, s)
  end.
Definition parse2 (s : string) : option (nat * nat) :=
  let (i, t) := untally s in
  match t with
  | String c r => if Ascii.eqb c "_" then
                    let (j, u) := untally r in
                    match u with EmptyString => Some (i, j) | _ => None end
                  else None
  | EmptyString => None
  end.
Definition parse1 (s : string) : option nat :=
  let (i, t) := untally s in match t with EmptyString => Some i | _ => None end.
Definition unname (s : string) : option rv :=
  match s with
  | EmptyString => None
  | String k r =>
      if Ascii.eqb k "c" then option_map (fun p => VCell (fst p) (snd p)) (parse2 r)
      else if Ascii.eqb k "x" then option_map (fun p => VxL (fst p) (snd p)) (parse2 r)
      else if Ascii.eqb k "X" then option_map (fun p => VxB (fst p) (snd p)) (parse2 r)
      else if Ascii.eqb k "y" then option_map (fun p => VyL (fst p) (snd p)) (parse2 r)
      else if Ascii.eqb k "Y" then option_map (fun p => VyB (fst p) (snd p)) (parse2 r)
      else if Ascii.eqb k "u" then option_map VSel (parse1 r)
      else if Ascii.eqb k "N" then option_map (fun i => VDir i DN) (parse1 r)
      else if Ascii.eqb k "S" then option_map (fun i => VDir i DS) (parse1 r)
      else if Ascii.eqb k "E" then option_map (fun i => VDir i DE) (parse1 r)
      else if Ascii.eqb k "W" then option_map (fun i => VDir i DW) (parse1 r)
      else None
  end.

Lemma untally_tally n s : (forall c r, s = String c r -> Ascii.eqb c "1" = false) ->
  untally (tally n s) = (n, s).
Proof.
  intro H. induction n as [|n IH]; cbn [tally untally].
  - destruct s as [|c r]; [reflexivity|]. cbn [untally]. rewrite (H c r eq_refl). reflexivity.
  - cbn. rewrite IH. reflexivity.
Qed.
Lemma parse2_two i j : parse2 (tally i (String "_"%char (tally j ""))) = Some (i, j).
Proof.
  unfold parse2. rewrite untally_tally.
  - cbn. rewrite untally_tally; [reflexivity|]. intros c r E. discriminate E.
  - intros c r E. injection E as <- _. reflexivity.
Qed.
Lemma parse1_one i : parse1 (tally i "") = Some i.
Proof. unfold parse1. rewrite untally_tally; [reflexivity|]. intros c r E. discriminate E. Qed.

Theorem unname_name v : unname (name v) = Some v.
Proof.
  destruct v as [i b|b|i j|i j|i j|i j|i d]; try destruct d; cbn [name unname two one];
    cbn -[parse2 parse1]; rewrite ?parse2_two, ?parse1_one; reflexivity.
Qed.
Theorem name_inj v w : name v = name w -> v = w.
Proof. intro E. assert (H : Some v = Some w) by (rewrite <- !unname_name, E; reflexivity). injection H as H. exact H. Qed.

(* an assignment of the structured variables as an assignment of the strings *)
Definition asg_of (f : rv -> bool) : string -> bool :=
  fun s => match unname s with Some v => f v | None => false end.
Lemma asg_of_name f v : asg_of f (name v) = f v.
Proof. unfold asg_of. rewrite unname_name. reflexivity. Qed.
