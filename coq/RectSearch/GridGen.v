(* C08 facts, part 9: every rectangular grid of cells is a [full_grid].
   For ALL strictly increasing coordinate lists xs, ys (at least one column and one row;
   uniform or not, any origin, integer or fractional) the list [grid_cells xs ys] - and
   every list with the same cells in another order and with arbitrary occupancy values -
   satisfies the decidable hypothesis [full_grid] of box_exact / attach_exact /
   shapes_exact / search_exact, and definecoords recovers exactly xs and ys. *)
From Coq Require Import ZArith List Bool Arith Lia Sorted Permutation.
From FrameModel Require Import Num.QcTac RectSearch.Coords RectSearch.CoordsFacts.
Import ListNotations.
Local Open Scope nat_scope.

(* the geometry of a cell (the occupancy value is irrelevant for being a grid) *)
Definition geom := (Qc * Qc * Qc * Qc)%type.
Definition geom_of (c : cell) : geom := (cx1 c, cy1 c, cx2 c, cy2 c).
(* [inp] lists, in any order and with any occupancy values, exactly the cells of the grid
   whose column boundaries are xs and whose row boundaries are ys *)
Definition is_grid (xs ys : list Qc) (inp : problem) : Prop :=
  Permutation (map geom_of inp) (map geom_of (grid_cells xs ys)).

(* ---- sort_set: membership; strictly increasing lists are determined by their elements ---- *)
Lemma ins_In x y l : In y (ins x l) <-> y = x \/ In y l.
Proof.
  split; [apply In_ins|]. induction l as [|z r IH]; cbn [ins].
  - intros [->|[]]. left. reflexivity.
  - destruct (Qceqb x z) eqn:E1.
    + apply Qceqb_true in E1. subst z. intros [->|H]; [left; reflexivity|exact H].
    + destruct (Qcltb x z).
      * intros [->|H]; [left; reflexivity|right; exact H].
      * intros [->|[->|H]]; [right; apply IH; left; reflexivity|left; reflexivity|right; apply IH; right; exact H].
Qed.
Lemma In_sort_set y l : In y (sort_set l) <-> In y l.
Proof.
  unfold sort_set.
  assert (G : forall acc, In y (fold_left (fun acc x => ins x acc) l acc) <-> In y l \/ In y acc).
  { induction l as [|x r IH]; intro acc; cbn [fold_left].
    - split; [intro H; right; exact H|intros [[]|H]; exact H].
    - rewrite IH, ins_In. cbn [In]. split.
      + intros [H|[->|H]]; [left; right; exact H|left; left; reflexivity|right; exact H].
      + intros [[<-|H]|H]; [right; left; reflexivity|left; exact H|right; right; exact H]. }
  rewrite G. cbn [In]. tauto.
Qed.

Lemma inc_head_lt_In a l x : inc (a :: l) -> In x l -> (a < x)%Qc.
Proof. intros S Hx. inversion S as [|? ? _ F]; subst. rewrite Forall_forall in F. apply F. exact Hx. Qed.
Lemma inc_ext l1 : forall l2, inc l1 -> inc l2 -> (forall x, In x l1 <-> In x l2) -> l1 = l2.
Proof.
  induction l1 as [|a r1 IH]; intros l2 S1 S2 H.
  - destruct l2 as [|b r2]; [reflexivity|]. destruct (proj2 (H b) (or_introl eq_refl)).
  - destruct l2 as [|b r2]; [destruct (proj1 (H a) (or_introl eq_refl))|].
    assert (E : a = b).
    { destruct (proj1 (H a) (or_introl eq_refl)) as [E|Ia]; [symmetry; exact E|].
      destruct (proj2 (H b) (or_introl eq_refl)) as [E|Ib]; [exact E|].
      pose proof (inc_head_lt_In b r2 a S2 Ia) as L1. pose proof (inc_head_lt_In a r1 b S1 Ib) as L2.
      exfalso. exact (Qclt_not_eq _ _ (Qclt_trans _ _ _ L1 L2) eq_refl). }
    subst b. f_equal. apply IH; [exact (inc_tail _ _ S1)|exact (inc_tail _ _ S2)|].
    intro x. split; intro Hx.
    + destruct (proj1 (H x) (or_intror Hx)) as [E|I]; [|exact I].
      pose proof (inc_head_lt_In a r1 x S1 Hx) as L. rewrite E in L. exfalso. exact (Qclt_not_eq _ _ L eq_refl).
    + destruct (proj2 (H x) (or_intror Hx)) as [E|I]; [|exact I].
      pose proof (inc_head_lt_In a r2 x S2 Hx) as L. rewrite E in L. exfalso. exact (Qclt_not_eq _ _ L eq_refl).
Qed.

(* ---- counting ---- *)
Lemma filter_map_swap {A B} (P : B -> bool) (f : A -> B) l :
  filter P (map f l) = map f (filter (fun x => P (f x)) l).
Proof. induction l as [|a l IH]; [reflexivity|]. cbn [map filter]. destruct (P (f a)); cbn [map]; rewrite IH; reflexivity. Qed.
Lemma filter_false {A} (P : A -> bool) l : (forall x, In x l -> P x = false) -> filter P l = [].
Proof.
  induction l as [|a l IH]; intro H; [reflexivity|]. cbn [filter]. rewrite (H a (or_introl eq_refl)).
  apply IH. intros x Hx. apply H. right. exact Hx.
Qed.
Lemma flat_map_map {A B C} (f : B -> list C) (g : A -> B) l : flat_map f (map g l) = flat_map (fun x => f (g x)) l.
Proof. induction l as [|a l IH]; [reflexivity|]. cbn [map flat_map]. rewrite IH. reflexivity. Qed.
Lemma list_sum_cons a l : list_sum (a :: l) = a + list_sum l.
Proof. reflexivity. Qed.
Lemma count_flat_map {A B} (P : B -> bool) (f : A -> list B) l :
  List.length (filter P (flat_map f l)) = list_sum (map (fun j => List.length (filter P (f j))) l).
Proof.
  induction l as [|a l IH]; [reflexivity|]. cbn [flat_map map]. rewrite list_sum_cons, filter_app, app_length, IH. reflexivity.
Qed.
Lemma sum_indicator j0 n : forall s,
  list_sum (map (fun j => if Nat.eqb j j0 then 1 else 0) (seq s n)) = if (s <=? j0) && (j0 <? s + n) then 1 else 0.
Proof.
  induction n as [|n IH]; intro s; cbn [seq map].
  - destruct (Nat.leb_spec s j0), (Nat.ltb_spec j0 (s + 0)); cbn; try reflexivity; lia.
  - rewrite list_sum_cons, IH. destruct (Nat.eqb_spec s j0), (Nat.leb_spec s j0), (Nat.leb_spec (S s) j0),
      (Nat.ltb_spec j0 (S s + n)), (Nat.ltb_spec j0 (s + S n)); cbn; try reflexivity; lia.
Qed.
Lemma count_eq_seq i0 n : forall s,
  List.length (filter (fun i => Nat.eqb i i0) (seq s n)) = if (s <=? i0) && (i0 <? s + n) then 1 else 0.
Proof.
  induction n as [|n IH]; intro s; cbn [seq filter].
  - destruct (Nat.leb_spec s i0), (Nat.ltb_spec i0 (s + 0)); cbn; try reflexivity; lia.
  - destruct (Nat.eqb_spec s i0); cbn [List.length]; rewrite IH;
      destruct (Nat.leb_spec s i0), (Nat.leb_spec (S s) i0), (Nat.ltb_spec i0 (S s + n)), (Nat.ltb_spec i0 (s + S n));
      cbn; try reflexivity; lia.
Qed.
Lemma Permutation_filter {A} (P : A -> bool) l l' : Permutation l l' -> Permutation (filter P l) (filter P l').
Proof.
  induction 1 as [|x l l' _ IH|x y l|l l' l'' _ IH1 _ IH2]; cbn [filter].
  - constructor.
  - destruct (P x); [constructor; exact IH|exact IH].
  - destruct (P x), (P y); try apply Permutation_refl. constructor.
  - exact (Permutation_trans IH1 IH2).
Qed.

Lemma Qceqb_nth' l : inc l -> forall i j, i < List.length l -> j < List.length l ->
  Qceqb (nth i l 0%Qc) (nth j l 0%Qc) = Nat.eqb i j.
Proof.
  intros S i j Hi Hj. destruct (Nat.eqb_spec i j) as [->|N].
  - apply Qceqb_refl.
  - apply Qceqb_false. intro E. apply N. exact (inc_nth_inj l S i j Hi Hj E).
Qed.

(* ---- grids given by their coordinate lists ---- *)
Section OnGrid.
  Variables xs ys : list Qc.
  Definition cell_geom (i j : nat) : geom := (nth i xs 0%Qc, nth j ys 0%Qc, nth (S i) xs 0%Qc, nth (S j) ys 0%Qc).
  Definition on_grid (g : geom) : Prop :=
    exists i j, S i < List.length xs /\ S j < List.length ys /\ g = cell_geom i j.
  Definition at_pos (i j : nat) (g : geom) : bool :=
    match g with (x1, y1, _, _) => Qceqb x1 (nth i xs 0%Qc) && Qceqb y1 (nth j ys 0%Qc) end.
  (* every listed cell spans consecutive coordinates, every position carries exactly one cell *)
  Definition grid_on (gl : list geom) : Prop :=
    Forall on_grid gl /\
    forall i j, S i < List.length xs -> S j < List.length ys -> List.length (filter (at_pos i j) gl) = 1.

  Lemma grid_on_perm gl gl' : Permutation gl gl' -> grid_on gl -> grid_on gl'.
  Proof.
    intros P [F Cn]. split; [exact (Permutation_Forall P F)|].
    intros i j Hi Hj. rewrite <- (Cn i j Hi Hj). symmetry. apply Permutation_length. apply Permutation_filter. exact P.
  Qed.

  Hypothesis Sx : inc xs.
  Hypothesis Sy : inc ys.

  Lemma at_pos_cell i j i0 j0 : S i < List.length xs -> S j < List.length ys ->
    S i0 < List.length xs -> S j0 < List.length ys ->
    at_pos i0 j0 (cell_geom i j) = Nat.eqb i i0 && Nat.eqb j j0.
  Proof.
    intros. unfold at_pos, cell_geom. rewrite (Qceqb_nth' xs Sx), (Qceqb_nth' ys Sy) by lia. reflexivity.
  Qed.

  (* the grid generator, cell by cell *)
  Lemma row_cells_seq y1 y2 : forall l, map geom_of (row_cells y1 y2 l) =
    map (fun i => (nth i l 0%Qc, y1, nth (S i) l 0%Qc, y2)) (seq 0 (List.length l - 1)).
  Proof.
    induction l as [|a r IH]; [reflexivity|]. destruct r as [|b r']; [reflexivity|].
    change (row_cells y1 y2 (a :: b :: r')) with (mkCell a y1 b y2 0%Qc :: row_cells y1 y2 (b :: r')).
    cbn [map]. rewrite IH. cbn [List.length].
    replace (S (S (List.length r')) - 1) with (S (S (List.length r') - 1)) by lia.
    cbn [seq map]. f_equal. rewrite <- seq_shift, map_map. reflexivity.
  Qed.
  Lemma grid_cells_seq : forall l, map geom_of (grid_cells xs l) =
    flat_map (fun j => map (fun i => (nth i xs 0%Qc, nth j l 0%Qc, nth (S i) xs 0%Qc, nth (S j) l 0%Qc))
                           (seq 0 (List.length xs - 1))) (seq 0 (List.length l - 1)).
  Proof.
    induction l as [|a r IH]; [reflexivity|]. destruct r as [|b r']; [reflexivity|].
    change (grid_cells xs (a :: b :: r')) with (row_cells a b xs ++ grid_cells xs (b :: r')).
    rewrite map_app, IH, row_cells_seq. cbn [List.length].
    replace (S (S (List.length r')) - 1) with (S (S (List.length r') - 1)) by lia.
    cbn [seq flat_map]. f_equal. rewrite <- seq_shift, flat_map_map. reflexivity.
  Qed.

  Theorem grid_cells_grid_on : grid_on (map geom_of (grid_cells xs ys)).
  Proof.
    rewrite grid_cells_seq. fold cell_geom. split.
    - apply Forall_forall. intros g Hg. apply in_flat_map in Hg. destruct Hg as [j [Hj Hg]].
      apply in_map_iff in Hg. destruct Hg as [i [<- Hi]]. apply in_seq in Hj, Hi. exists i, j. repeat split; lia.
    - intros i0 j0 Hi0 Hj0. rewrite count_flat_map.
      rewrite (map_ext_in _ (fun j => if Nat.eqb j j0 then 1 else 0)).
      + rewrite sum_indicator. destruct (Nat.leb_spec 0 j0), (Nat.ltb_spec j0 (0 + (List.length ys - 1))); cbn; try reflexivity; lia.
      + intros j Hj. apply in_seq in Hj. rewrite filter_map_swap, map_length.
        destruct (Nat.eqb_spec j j0) as [->|Nj].
        * rewrite (filter_ext_in _ (fun i => Nat.eqb i i0)).
          -- rewrite count_eq_seq. destruct (Nat.leb_spec 0 i0), (Nat.ltb_spec i0 (0 + (List.length xs - 1))); cbn; try reflexivity; lia.
          -- intros i Hi. apply in_seq in Hi. change (at_pos i0 j0 (cell_geom i j0) = Nat.eqb i i0).
             rewrite (at_pos_cell i j0 i0 j0) by lia.
             rewrite Nat.eqb_refl, andb_true_r. reflexivity.
        * rewrite filter_false; [reflexivity|]. intros i Hi. apply in_seq in Hi. change (at_pos i0 j0 (cell_geom i j) = false).
          rewrite (at_pos_cell i j i0 j0) by lia.
          apply Nat.eqb_neq in Nj. rewrite Nj, andb_false_r. reflexivity.
  Qed.

  (* ---- a list of cells that is a grid on xs, ys satisfies full_grid ---- *)
  Hypothesis Lx : 2 <= List.length xs.
  Hypothesis Ly : 2 <= List.length ys.
  Variable inp : problem.
  Hypothesis G : grid_on (map geom_of inp).

  Lemma cell_on_grid c : In c inp -> exists i j, S i < List.length xs /\ S j < List.length ys /\
    cx1 c = nth i xs 0%Qc /\ cy1 c = nth j ys 0%Qc /\ cx2 c = nth (S i) xs 0%Qc /\ cy2 c = nth (S j) ys 0%Qc.
  Proof.
    intro Hc. destruct G as [F _]. rewrite Forall_forall in F.
    destruct (F (geom_of c) (in_map geom_of _ _ Hc)) as (i & j & Hi & Hj & E).
    exists i, j. unfold geom_of, cell_geom in E. injection E as E1 E2 E3 E4. repeat split; assumption.
  Qed.
  Lemma cell_at_pos i j : S i < List.length xs -> S j < List.length ys ->
    exists c, In c inp /\ cx1 c = nth i xs 0%Qc /\ cy1 c = nth j ys 0%Qc.
  Proof.
    intros Hi Hj. destruct G as [_ Cn]. specialize (Cn i j Hi Hj).
    destruct (filter (at_pos i j) (map geom_of inp)) as [|g t] eqn:E; [discriminate|].
    assert (I : In g (filter (at_pos i j) (map geom_of inp))) by (rewrite E; left; reflexivity).
    apply filter_In in I. destruct I as [I P]. apply in_map_iff in I. destruct I as [c [<- Hc]].
    exists c. split; [exact Hc|]. unfold at_pos, geom_of in P. apply andb_prop in P. destruct P as [P1 P2].
    apply Qceqb_true in P1, P2. split; assumption.
  Qed.

  Lemma coords_x : xcoords (definecoords inp) = xs.
  Proof.
    apply inc_ext; [apply xcoords_inc|exact Sx|]. intro x.
    change (xcoords (definecoords inp)) with (sort_set (flat_map (fun c => [cx1 c; cx2 c]) inp)).
    rewrite In_sort_set, in_flat_map. split.
    - intros [c [Hc Hx]]. destruct (cell_on_grid c Hc) as (i & j & Hi & Hj & E1 & _ & E3 & _).
      destruct Hx as [<-|[<-|[]]]; [rewrite E1|rewrite E3]; apply nth_In; lia.
    - intro Hx. destruct (In_nth _ _ 0%Qc Hx) as [m [Hm Em]].
      destruct (Nat.lt_ge_cases (S m) (List.length xs)) as [L|L].
      + destruct (cell_at_pos m 0 L ltac:(lia)) as (c & Hc & E1 & _). exists c. split; [exact Hc|]. left. congruence.
      + destruct m as [|m]; [lia|].
        destruct (cell_at_pos m 0 ltac:(lia) ltac:(lia)) as (c & Hc & E1 & _).
        destruct (cell_on_grid c Hc) as (i & j & Hi & Hj & E1' & _ & E3 & _).
        assert (i = m) by (apply (inc_nth_inj xs Sx); [lia|lia|congruence]). subst i.
        exists c. split; [exact Hc|]. right. left. congruence.
  Qed.
  Lemma coords_y : ycoords (definecoords inp) = ys.
  Proof.
    apply inc_ext; [apply ycoords_inc|exact Sy|]. intro y.
    change (ycoords (definecoords inp)) with (sort_set (flat_map (fun c => [cy1 c; cy2 c]) inp)).
    rewrite In_sort_set, in_flat_map. split.
    - intros [c [Hc Hy]]. destruct (cell_on_grid c Hc) as (i & j & Hi & Hj & _ & E2 & _ & E4).
      destruct Hy as [<-|[<-|[]]]; [rewrite E2|rewrite E4]; apply nth_In; lia.
    - intro Hy. destruct (In_nth _ _ 0%Qc Hy) as [m [Hm Em]].
      destruct (Nat.lt_ge_cases (S m) (List.length ys)) as [L|L].
      + destruct (cell_at_pos 0 m ltac:(lia) L) as (c & Hc & _ & E2). exists c. split; [exact Hc|]. left. congruence.
      + destruct m as [|m]; [lia|].
        destruct (cell_at_pos 0 m ltac:(lia) ltac:(lia)) as (c & Hc & _ & E2).
        destruct (cell_on_grid c Hc) as (i & j & Hi & Hj & _ & E2' & _ & E4).
        assert (j = m) by (apply (inc_nth_inj ys Sy); [lia|lia|congruence]). subst j.
        exists c. split; [exact Hc|]. right. left. congruence.
  Qed.

  Theorem grid_on_full_grid : full_grid inp = true.
  Proof.
    unfold full_grid, cell_ok, count_at, col, row, ncols, nrows. rewrite coords_x, coords_y.
    apply andb_true_intro. split; [apply andb_true_intro; split; [apply andb_true_intro; split|]|].
    - apply forallb_forall. intros c Hc.
      destruct (cell_on_grid c Hc) as (i & j & Hi & Hj & E1 & E2 & E3 & E4).
      rewrite E1, E2, E3, E4, (idx_nth xs Sx i), (idx_nth ys Sy j) by lia.
      rewrite (nth_indep xs (nth i xs 0%Qc) 0%Qc Hi), (nth_indep ys (nth j ys 0%Qc) 0%Qc Hj), !Qceqb_refl.
      apply Nat.ltb_lt in Hi, Hj. rewrite Hi, Hj. reflexivity.
    - apply forallb_forall. intros c Hc. apply in_seq in Hc. apply forallb_forall. intros r Hr. apply in_seq in Hr.
      apply Nat.eqb_eq. destruct G as [_ Cn]. rewrite <- (Cn c r ltac:(lia) ltac:(lia)).
      rewrite filter_map_swap, map_length. f_equal. apply filter_ext_in. intros x Hx.
      destruct (cell_on_grid x Hx) as (i & j & Hi & Hj & E1 & E2 & _).
      unfold at_pos, geom_of. rewrite E1, E2, (idx_nth xs Sx i), (idx_nth ys Sy j) by lia.
      rewrite (Qceqb_nth' xs Sx), (Qceqb_nth' ys Sy) by lia. reflexivity.
    - apply Nat.leb_le. lia.
    - apply Nat.leb_le. lia.
  Qed.
End OnGrid.

(* ---- the general lemma ---- *)
Theorem full_grid_general xs ys inp : inc xs -> inc ys -> 2 <= List.length xs -> 2 <= List.length ys ->
  is_grid xs ys inp ->
  full_grid inp = true /\ xcoords (definecoords inp) = xs /\ ycoords (definecoords inp) = ys.
Proof.
  intros Sx Sy Lx Ly P.
  assert (G : grid_on xs ys (map geom_of inp)).
  { apply (grid_on_perm xs ys _ _ (Permutation_sym P)). apply grid_cells_grid_on; assumption. }
  split; [apply (grid_on_full_grid xs ys); assumption|].
  split; [apply (coords_x xs ys); assumption|apply (coords_y xs ys); assumption].
Qed.

Lemma is_grid_grid_cells xs ys : is_grid xs ys (grid_cells xs ys).
Proof. apply Permutation_refl. Qed.
Lemma geom_with_occ cs : forall ps, List.length ps = List.length cs -> map geom_of (with_occ cs ps) = map geom_of cs.
Proof.
  unfold with_occ. induction cs as [|c cs IH]; intros [|p ps] L; try discriminate L; [reflexivity|].
  cbn [combine map]. rewrite IH by (cbn in L; lia). reflexivity.
Qed.
(* any occupancy values on the cells *)
Lemma is_grid_with_occ xs ys inp ps : List.length ps = List.length inp -> is_grid xs ys inp -> is_grid xs ys (with_occ inp ps).
Proof. intros L P. unfold is_grid. rewrite (geom_with_occ inp ps L). exact P. Qed.
(* any order of the cells *)
Lemma is_grid_perm xs ys inp inp' : Permutation inp inp' -> is_grid xs ys inp -> is_grid xs ys inp'.
Proof. intros P Gd. unfold is_grid. apply Permutation_trans with (map geom_of inp); [apply Permutation_sym, Permutation_map, P|exact Gd]. Qed.

Corollary full_grid_grid_cells xs ys : inc xs -> inc ys -> 2 <= List.length xs -> 2 <= List.length ys ->
  full_grid (grid_cells xs ys) = true.
Proof. intros Sx Sy Lx Ly. exact (proj1 (full_grid_general xs ys _ Sx Sy Lx Ly (is_grid_grid_cells xs ys))). Qed.
