(* C08 facts, part 4: one enforce_bb without the selector (the trunk): the models projected
   on the cell variables are exactly the non-empty full rectangles of cells - all grid sizes. *)
From Coq Require Import ZArith List Bool String Arith Lia.
From FrameModel Require Import Num.QcTac PB.Expr PB.Cnf PB.Robdd PB.Codify PB.Sat PB.SatFacts
  RectSearch.Coords RectSearch.CoordsFacts RectSearch.Names RectSearch.Encode RectSearch.EncodeFacts
  RectSearch.GridFacts RectSearch.Shapes.
Import ListNotations.
Local Open Scope nat_scope.

Lemma posts_hold_cons a p ps : posts_hold a (p :: ps) <-> post_holds a p /\ posts_hold a ps.
Proof. apply Forall_cons_iff. Qed.
Lemma posts_hold_nil a : posts_hold a [] <-> True.
Proof. split; [intros _; exact I|intros _; constructor]. Qed.
Lemma posts_hold_flat_seq a (g : nat -> list post) s len :
  posts_hold a (flat_map g (seq s len)) <-> forall j, s <= j < s + len -> posts_hold a (g j).
Proof.
  unfold posts_hold. rewrite Forall_flat_map, Forall_forall. split.
  - intros H j Hj. apply H. apply in_seq. exact Hj.
  - intros H j Hj. apply H. apply in_seq. exact Hj.
Qed.
Lemma posts_hold_map_seq a (g : nat -> post) s len :
  posts_hold a (map g (seq s len)) <-> forall j, s <= j < s + len -> post_holds a (g j).
Proof.
  unfold posts_hold. rewrite Forall_map, Forall_forall. split.
  - intros H j Hj. apply H. apply in_seq. exact Hj.
  - intros H j Hj. apply H. apply in_seq. exact Hj.
Qed.
Lemma imp1 a v w : post_holds a (PImply [pos v] (pos w)) <-> (a (name v) = true -> a (name w) = true).
Proof. rewrite imply_holds. cbn [forallb]. rewrite !lv_pos, andb_true_r. reflexivity. Qed.
Lemma imp4 a v1 v2 v3 v4 w : post_holds a (PImply [pos v1; pos v2; pos v3; pos v4] (pos w)) <->
  (a (name v1) = true -> a (name v2) = true -> a (name v3) = true -> a (name v4) = true -> a (name w) = true).
Proof.
  rewrite imply_holds. cbn [forallb]. rewrite !lv_pos, andb_true_r, !andb_true_iff. tauto.
Qed.

Lemma and_iff_both (A B X Y : Prop) : (A <-> B) -> (X <-> Y) -> (A /\ X <-> B /\ Y).
Proof. tauto. Qed.

(* ---- intervals of naturals ---- *)
Lemma least_true (P : nat -> bool) : forall m, (exists c, c < m /\ P c = true) ->
  exists lo, lo < m /\ P lo = true /\ forall c, c < lo -> P c = false.
Proof.
  induction m as [|m IH]; intros [c [Hc Pc]]; [lia|].
  destruct (existsb P (seq 0 m)) eqn:E.
  - apply existsb_exists in E. destruct E as [x [Hx Px]]. apply in_seq in Hx.
    assert (Hx' : x < m) by lia.
    destruct (IH (ex_intro _ x (conj Hx' Px))) as [lo [H1 [H2 H3]]].
    exists lo. split; [lia|]. split; assumption.
  - exists m. split; [lia|].
    assert (F : forall x, x < m -> P x = false).
    { intros x Hx. destruct (P x) eqn:Px; [|reflexivity].
      assert (existsb P (seq 0 m) = true) by (apply existsb_exists; exists x; split; [apply in_seq; lia|exact Px]).
      congruence. }
    split; [|exact F]. destruct (Nat.eq_dec c m) as [->|N]; [exact Pc|]. rewrite F in Pc by lia. discriminate.
Qed.
Lemma greatest_true (P : nat -> bool) : forall m, (exists c, c < m /\ P c = true) ->
  exists hi, hi < m /\ P hi = true /\ forall c, hi < c -> c < m -> P c = false.
Proof.
  induction m as [|m IH]; intros [c [Hc Pc]]; [lia|].
  destruct (P m) eqn:Pm.
  - exists m. split; [lia|]. split; [exact Pm|]. intros; lia.
  - assert (c < m). { destruct (Nat.eq_dec c m) as [->|N]; [congruence|lia]. }
    destruct (IH (ex_intro _ c (conj H Pc))) as [hi [H1 [H2 H3]]].
    exists hi. split; [lia|]. split; [exact H2|]. intros x Hx Hm.
    destruct (Nat.eq_dec x m) as [->|N]; [exact Pm|apply H3; lia].
Qed.
Lemma convex_interval (P : nat -> bool) m : (exists c, c < m /\ P c = true) ->
  (forall c c' x, c <= x <= c' -> c' < m -> P c = true -> P c' = true -> P x = true) ->
  exists lo hi, lo <= hi /\ hi < m /\ forall c, c < m -> P c = (lo <=? c) && (c <=? hi).
Proof.
  intros Ex Cv. destruct (least_true P m Ex) as [lo [L1 [L2 L3]]].
  destruct (greatest_true P m Ex) as [hi [H1 [H2 H3]]].
  assert (lo <= hi). { destruct (Nat.le_gt_cases lo hi); [assumption|]. rewrite L3 in H2 by lia. discriminate. }
  exists lo, hi. split; [assumption|]. split; [assumption|]. intros c Hc.
  destruct (Nat.leb_spec lo c) as [A|A]; destruct (Nat.leb_spec c hi) as [B|B]; cbn [andb].
  - apply (Cv lo hi c); [lia|assumption..].
  - apply H3; lia.
  - apply L3; lia.
  - apply L3; lia.
Qed.

Ltac b2p := rewrite ?andb_true_iff, ?Nat.leb_le, ?Nat.ltb_lt, ?Nat.eqb_eq in *.

Section Box.
  Variable inp : problem.
  Hypothesis FG : full_grid inp = true.
  Notation C := (definecoords inp).
  Notation n := (List.length inp).
  Notation nx := (ncols (definecoords inp)).
  Notation ny := (nrows (definecoords inp)).
  Variable i : nat.
  Notation cb := (colb inp).
  Notation rb := (rowb inp).

  (* what the constraints of the box part say about an assignment of the structured variables *)
  Definition box_sem (f : rv -> bool) : Prop :=
    (forall b, b < n -> (f (VCell i b) = true -> f (VxL i (S (cb b))) = true) /\
                        (f (VCell i b) = true -> f (VxB i (cb b)) = true) /\
                        (f (VCell i b) = true -> f (VyL i (S (rb b))) = true) /\
                        (f (VCell i b) = true -> f (VyB i (rb b)) = true)) /\
    (forall j, j < nx -> (f (VxB i j) = true -> f (VxB i (S j)) = true) /\
                         (f (VxL i (S j)) = true -> f (VxL i j) = true)) /\
    (forall j, j < ny -> (f (VyB i j) = true -> f (VyB i (S j)) = true) /\
                         (f (VyL i (S j)) = true -> f (VyL i j) = true)) /\
    (forall b, b < n -> f (VxL i (S (cb b))) = true -> f (VxB i (cb b)) = true ->
                        f (VyL i (S (rb b))) = true -> f (VyB i (rb b)) = true -> f (VCell i b) = true) /\
    (exists b, b < n /\ f (VCell i b) = true).

  Lemma box_posts_sem a : posts_hold a (box_posts inp C i) <-> box_sem (fun v => a (name v)).
  Proof.
    pose proof (len_xs inp FG) as Lx. pose proof (len_ys inp FG) as Ly.
    unfold box_posts, box_sem. rewrite !posts_hold_app. rewrite (blocks_seq inp).
    rewrite !posts_hold_flat_seq, posts_hold_map_seq, posts_hold_cons, posts_hold_nil, atleast1_holds.
    rewrite Lx, Ly. replace (S nx - 1) with nx by lia. replace (S ny - 1) with ny by lia.
    repeat apply and_iff_both.
    - split.
      + intros H b Hb. specialize (H b ltac:(lia)). rewrite (cellposts_eq inp FG i b Hb) in H.
        rewrite !posts_hold_cons, !imp1 in H. tauto.
      + intros H b Hb. specialize (H b ltac:(lia)). rewrite (cellposts_eq inp FG i b ltac:(lia)).
        rewrite !posts_hold_cons, !imp1, posts_hold_nil. tauto.
    - split.
      + intros H j Hj. specialize (H (S j) ltac:(lia)). rewrite (xchain_eq inp FG i j Hj) in H.
        rewrite !posts_hold_cons, !imp1 in H. tauto.
      + intros H j Hj. destruct j as [|j]; [lia|]. specialize (H j ltac:(lia)).
        rewrite (xchain_eq inp FG i j ltac:(lia)). rewrite !posts_hold_cons, !imp1, posts_hold_nil. tauto.
    - split.
      + intros H j Hj. specialize (H (S j) ltac:(lia)). rewrite (ychain_eq inp FG i j Hj) in H.
        rewrite !posts_hold_cons, !imp1 in H. tauto.
      + intros H j Hj. destruct j as [|j]; [lia|]. specialize (H j ltac:(lia)).
        rewrite (ychain_eq inp FG i j ltac:(lia)). rewrite !posts_hold_cons, !imp1, posts_hold_nil. tauto.
    - split.
      + intros H b Hb. specialize (H b ltac:(lia)). rewrite (converse_eq inp FG i b Hb), imp4 in H. exact H.
      + intros H b Hb. rewrite (converse_eq inp FG i b ltac:(lia)), imp4. apply H. lia.
    - split.
      + intros [[v [Hv Av]] _]. apply in_map_iff in Hv. destruct Hv as [b [<- Hb]]. apply in_seq in Hb.
        exists b. split; [lia|exact Av].
      + intros [b [Hb Av]]. split; [|exact I]. exists (VCell i b). split; [|exact Av].
        apply in_map. apply in_seq. lia.
  Qed.

  (* chains *)
  Lemma chain_down f : box_sem f -> forall d j, j + d <= nx -> f (VxL i (j + d)) = true -> f (VxL i j) = true.
  Proof.
    intros (_ & H & _) d. induction d as [|d IH]; intros j Hj Hf; [rewrite Nat.add_0_r in Hf; exact Hf|].
    apply IH; [lia|]. apply (H (j + d)); [lia|]. rewrite <- Nat.add_succ_r. exact Hf.
  Qed.
  Lemma chain_up f : box_sem f -> forall d j, j + d <= nx -> f (VxB i j) = true -> f (VxB i (j + d)) = true.
  Proof.
    intros (_ & H & _) d. induction d as [|d IH]; intros j Hj Hf; [rewrite Nat.add_0_r; exact Hf|].
    rewrite Nat.add_succ_r. apply (H (j + d)); [lia|]. apply IH; [lia|exact Hf].
  Qed.
  Lemma chain_down_y f : box_sem f -> forall d j, j + d <= ny -> f (VyL i (j + d)) = true -> f (VyL i j) = true.
  Proof.
    intros (_ & _ & H & _) d. induction d as [|d IH]; intros j Hj Hf; [rewrite Nat.add_0_r in Hf; exact Hf|].
    apply IH; [lia|]. apply (H (j + d)); [lia|]. rewrite <- Nat.add_succ_r. exact Hf.
  Qed.
  Lemma chain_up_y f : box_sem f -> forall d j, j + d <= ny -> f (VyB i j) = true -> f (VyB i (j + d)) = true.
  Proof.
    intros (_ & _ & H & _) d. induction d as [|d IH]; intros j Hj Hf; [rewrite Nat.add_0_r; exact Hf|].
    rewrite Nat.add_succ_r. apply (H (j + d)); [lia|]. apply IH; [lia|exact Hf].
  Qed.

  Theorem box_sem_rect f : box_sem f ->
    exists R, rect_okb nx ny R = true /\ forall b, b < n -> f (VCell i b) = in_rect R (cb b) (rb b).
  Proof.
    intro BS. pose proof BS as (S1 & _ & _ & S4 & [b0 [Hb0 F0]]).
    set (Px := fun c => f (VxL i (S c)) && f (VxB i c)).
    set (Py := fun r => f (VyL i (S r)) && f (VyB i r)).
    assert (Sig : forall b, b < n -> f (VCell i b) = Px (cb b) && Py (rb b)).
    { intros b Hb. apply Bool.eq_iff_eq_true. unfold Px, Py. rewrite !andb_true_iff.
      destruct (S1 b Hb) as (A1 & A2 & A3 & A4). split; [intro H; auto|].
      intros [[B1 B2] [B3 B4]]. apply (S4 b Hb); assumption. }
    destruct (cell_ok_b inp FG b0 Hb0) as [Hc0 Hr0 _ _ _ _]. 
    assert (Ex : exists c, c < nx /\ Px c = true).
    { exists (cb b0). split; [exact Hc0|]. pose proof (Sig b0 Hb0) as E. rewrite F0 in E. symmetry in E.
      apply andb_prop in E. exact (proj1 E). }
    assert (Ey : exists r, r < ny /\ Py r = true).
    { exists (rb b0). split; [exact Hr0|]. pose proof (Sig b0 Hb0) as E. rewrite F0 in E. symmetry in E.
      apply andb_prop in E. exact (proj2 E). }
    assert (Cx : forall c c' x, c <= x <= c' -> c' < nx -> Px c = true -> Px c' = true -> Px x = true).
    { intros c c' x Hx Hc' P1 P2. unfold Px in *. apply andb_prop in P1, P2. apply andb_true_intro. split.
      - apply (chain_down f BS (c' - x) (S x)); [lia|]. replace (S x + (c' - x)) with (S c') by lia. exact (proj1 P2).
      - replace x with (c + (x - c)) by lia. apply (chain_up f BS); [lia|exact (proj2 P1)]. }
    assert (Cy : forall c c' x, c <= x <= c' -> c' < ny -> Py c = true -> Py c' = true -> Py x = true).
    { intros c c' x Hx Hc' P1 P2. unfold Py in *. apply andb_prop in P1, P2. apply andb_true_intro. split.
      - apply (chain_down_y f BS (c' - x) (S x)); [lia|]. replace (S x + (c' - x)) with (S c') by lia. exact (proj1 P2).
      - replace x with (c + (x - c)) by lia. apply (chain_up_y f BS); [lia|exact (proj2 P1)]. }
    destruct (convex_interval Px nx Ex Cx) as (xl & xh & X1 & X2 & X3).
    destruct (convex_interval Py ny Ey Cy) as (yl & yh & Y1 & Y2 & Y3).
    exists (mkR xl xh yl yh). split.
    - unfold rect_okb. cbn [c0 c1 r0 r1]. b2p. lia.
    - intros b Hb. destruct (cell_ok_b inp FG b Hb) as [Hc Hr _ _ _ _]. 
      rewrite (Sig b Hb), (X3 (cb b) Hc), (Y3 (rb b) Hr). unfold in_rect. cbn [c0 c1 r0 r1].
      rewrite !andb_assoc. reflexivity.
  Qed.

  Theorem rect_box_sem R f : rect_okb nx ny R = true ->
    (forall b, b < n -> f (VCell i b) = in_rect R (cb b) (rb b)) ->
    (forall j, f (VxL i j) = (j <=? S (c1 R))) -> (forall j, f (VxB i j) = (c0 R <=? j)) ->
    (forall j, f (VyL i j) = (j <=? S (r1 R))) -> (forall j, f (VyB i j) = (r0 R <=? j)) ->
    box_sem f.
  Proof.
    intros Ok Hc HxL HxB HyL HyB. unfold rect_okb in Ok. b2p. unfold box_sem.
    split; [|split; [|split; [|split]]].
    - intros b Hb. rewrite (Hc b Hb), HxL, HxB, HyL, HyB. unfold in_rect. b2p. lia.
    - intros j Hj. rewrite !HxL, !HxB. b2p. lia.
    - intros j Hj. rewrite !HyL, !HyB. b2p. lia.
    - intros b Hb. rewrite (Hc b Hb), HxL, HxB, HyL, HyB. unfold in_rect. b2p. lia.
    - destruct (cell_at inp FG (c0 R) (r0 R)) as [b [Hb [E1 E2]]]; [lia..|].
      exists b. split; [exact Hb|]. rewrite (Hc b Hb). rewrite E1, E2. unfold in_rect. b2p. lia.
  Qed.

  (* the assignment of the interval variables that goes with a rectangle *)
  Definition box_asg (R : irect) (s : nat -> bool) (v : rv) : bool :=
    match v with
    | VCell _ b => s b
    | VxL _ j => j <=? S (c1 R)
    | VxB _ j => c0 R <=? j
    | VyL _ j => j <=? S (r1 R)
    | VyB _ j => r0 R <=? j
    | _ => false
    end.

  Theorem box_exact_posts s :
    (exists a, (forall b, b < n -> a (name (VCell i b)) = s b) /\ posts_hold a (box_posts inp C i)) <->
    is_box inp s.
  Proof.
    unfold is_box. split.
    - intros [a [Ha Hp]]. apply box_posts_sem in Hp. destruct (box_sem_rect _ Hp) as [R [Ok HR]].
      exists R. split; [exact Ok|]. intros b Hb. rewrite <- (Ha b Hb). exact (HR b Hb).
    - intros [R [Ok HR]]. exists (asg_of (box_asg R s)). split.
      + intros b Hb. rewrite asg_of_name. reflexivity.
      + apply box_posts_sem. apply (rect_box_sem R); [exact Ok|..]; intros; rewrite asg_of_name; cbn [box_asg]; auto; apply HR; assumption.
  Qed.
End Box.

(* (i) the clause list of one enforce_bb (trunk form, btag = cbtag): produced from every
   well-formed store, and its models projected on the cell variables are exactly the
   non-empty full rectangles of cells; every grid size *)
Theorem box_exact : forall inp i (m0 : memory), full_grid inp = true -> mem_wf m0 ->
  exists m s sts, run_posts m0 empty_mgr (enforce_bb Repaired inp (definecoords inp) i i) = Some (m, s, sts) /\
    forall sigma,
      (exists a, (forall b, b < List.length inp -> a (name (VCell i b)) = sigma b) /\ ext a (clauses s)) <->
      is_box inp sigma.
Proof.
  intros inp i m0 FG W.
  destruct (good_posts_exact m0 (enforce_bb Repaired inp (definecoords inp) i i) W) as (m & s & sts & Er & Hx).
  { intros p Hp. exact (enforce_good _ _ _ _ _ _ Hp). }
  exists m, s, sts. split; [exact Er|]. intro sigma. rewrite <- (box_exact_posts inp FG i sigma).
  assert (E : enforce_bb Repaired inp (definecoords inp) i i = box_posts inp (definecoords inp) i).
  { unfold enforce_bb, selector_posts. rewrite Nat.eqb_refl, app_nil_r. reflexivity. }
  split; intros [a [Ha H]]; exists a; (split; [exact Ha|]).
  - rewrite <- E. apply Hx. exact H.
  - apply Hx. rewrite E. exact H.
Qed.
