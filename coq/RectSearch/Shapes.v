(* C08 specification: the k-box single-trunk orthogons on a full grid.
   A box is an index rectangle (columns c0..c1, rows r0..r1, inclusive); box 0 is the
   trunk; a shape is a list of k boxes, each non-empty and inside the grid, pairwise
   disjoint, every box after the first abutting the trunk along one side with its extent
   (in the other direction) contained in the trunk's. *)
From Coq Require Import ZArith List Bool Arith Lia.
From FrameModel Require Import Num.QcTac RectSearch.Coords.
Import ListNotations.
Local Open Scope nat_scope.

Record irect := mkR { c0 : nat; c1 : nat; r0 : nat; r1 : nat }.
Definition in_rect (R : irect) (c r : nat) : bool :=
  (c0 R <=? c) && (c <=? c1 R) && (r0 R <=? r) && (r <=? r1 R).
Definition rect_okb (nx ny : nat) (R : irect) : bool :=
  (c0 R <=? c1 R) && (c1 R <? nx) && (r0 R <=? r1 R) && (r1 R <? ny).
Definition disjointb (R R' : irect) : bool :=
  (c1 R <? c0 R') || (c1 R' <? c0 R) || (r1 R <? r0 R') || (r1 R' <? r0 R).
(* B abuts the trunk T: left of it, right of it, above it or below it *)
Definition abuts_w (T B : irect) : bool := (c1 B + 1 =? c0 T) && (r0 T <=? r0 B) && (r1 B <=? r1 T).
Definition abuts_e (T B : irect) : bool := (c1 T + 1 =? c0 B) && (r0 T <=? r0 B) && (r1 B <=? r1 T).
Definition abuts_n (T B : irect) : bool := (r1 B + 1 =? r0 T) && (c0 T <=? c0 B) && (c1 B <=? c1 T).
Definition abuts_s (T B : irect) : bool := (r1 T + 1 =? r0 B) && (c0 T <=? c0 B) && (c1 B <=? c1 T).
Definition abutsb (T B : irect) : bool := abuts_w T B || abuts_e T B || abuts_n T B || abuts_s T B.
Fixpoint pairwise {A} (f : A -> A -> bool) (l : list A) : bool :=
  match l with [] => true | x :: r => forallb (f x) r && pairwise f r end.
Definition shape_rects (nx ny : nat) (Rs : list irect) : bool :=
  forallb (rect_okb nx ny) Rs && pairwise disjointb Rs &&
  match Rs with [] => false | T :: Bs => forallb (abutsb T) Bs end.

(* the cells of a box: sigma i b = "cell number b belongs to box i" *)
Definition R0 : irect := mkR 1 0 1 0.
Definition sigma_of (C : coords) (inp : problem) (Rs : list irect) (i b : nat) : bool :=
  in_rect (nth i Rs R0) (col C (nth b inp cell0)) (row C (nth b inp cell0)).
Definition shape (k : nat) (inp : problem) (sigma : nat -> nat -> bool) : Prop :=
  let C := definecoords inp in
  exists Rs, List.length Rs = k /\ shape_rects (ncols C) (nrows C) Rs = true /\
             forall i b, i < k -> b < List.length inp -> sigma i b = sigma_of C inp Rs i b.
(* a single box *)
Definition is_box (inp : problem) (s : nat -> bool) : Prop :=
  let C := definecoords inp in
  exists R, rect_okb (ncols C) (nrows C) R = true /\
            forall b, b < List.length inp -> s b = in_rect R (col C (nth b inp cell0)) (row C (nth b inp cell0)).

(* ---- enumeration (small grids) ---- *)
Definition all_rects (nx ny : nat) : list irect :=
  flat_map (fun a => flat_map (fun b => flat_map (fun c => flat_map (fun d =>
    if (a <=? b) && (c <=? d) then [mkR a b c d] else []) (seq 0 ny)) (seq 0 ny)) (seq 0 nx)) (seq 0 nx).
Fixpoint branches (nx ny : nat) (T : irect) (n : nat) : list (list irect) :=
  match n with
  | 0 => [[]]
  | S m => flat_map (fun rest =>
             flat_map (fun B => if abutsb T B && disjointb T B && forallb (disjointb B) rest
                                then [B :: rest] else []) (all_rects nx ny))
           (branches nx ny T m)
  end.
Definition enum_shapes (nx ny k : nat) : list (list irect) :=
  match k with
  | 0 => []
  | S m => flat_map (fun T => map (cons T) (branches nx ny T m)) (all_rects nx ny)
  end.

(* ---- deciding whether a cell assignment is a shape: bounding boxes ---- *)
Definition grow_r (acc : option irect) (c r : nat) : option irect :=
  match acc with
  | None => Some (mkR c c r r)
  | Some R => Some (mkR (Nat.min (c0 R) c) (Nat.max (c1 R) c) (Nat.min (r0 R) r) (Nat.max (r1 R) r))
  end.
Definition bound_rect (C : coords) (inp : problem) (s : nat -> bool) : option irect :=
  fold_left (fun acc b => if s b then grow_r acc (col C (nth b inp cell0)) (row C (nth b inp cell0)) else acc)
            (seq 0 (List.length inp)) None.
Fixpoint all_some {A} (l : list (option A)) : option (list A) :=
  match l with
  | [] => Some []
  | Some x :: r => match all_some r with Some t => Some (x :: t) | None => None end
  | None :: _ => None
  end.
Definition shapeb (k : nat) (inp : problem) (sigma : nat -> nat -> bool) : bool :=
  let C := definecoords inp in
  match all_some (map (fun i => bound_rect C inp (sigma i)) (seq 0 k)) with
  | None => false
  | Some Rs => shape_rects (ncols C) (nrows C) Rs &&
               forallb (fun i => forallb (fun b => Bool.eqb (sigma i b) (sigma_of C inp Rs i b))
                                         (seq 0 (List.length inp))) (seq 0 k)
  end.

(* the cost of a cell selection: sum over the selected cells of ratio*sel - real *)
Definition selected (k : nat) (sigma : nat -> nat -> bool) (b : nat) : bool :=
  existsb (fun i => sigma i b) (seq 0 k).
