(* C08 facts, part 2: definecoords - the coordinate lists are strictly increasing, positions
   and prev/next lookups behave as on an array. *)
From Coq Require Import ZArith List Bool Arith Lia Sorted.
From FrameModel Require Import Num.QcTac RectSearch.Coords.
Import ListNotations.
Local Open Scope nat_scope.

Notation inc := (StronglySorted Qclt).

Lemma In_ins x y l : In y (ins x l) -> y = x \/ In y l.
Proof.
  induction l as [|z r IH]; cbn [ins].
  - intros [<-|[]]. left. reflexivity.
  - destruct (Qceqb x z); [intro H; right; exact H|].
    destruct (Qcltb x z).
    + intros [<-|H]; [left; reflexivity|right; exact H].
    + intros [<-|H]; [right; left; reflexivity|]. destruct (IH H) as [E|I]; [left; exact E|right; right; exact I].
Qed.
Lemma ins_inc x l : inc l -> inc (ins x l).
Proof.
  induction l as [|z r IH]; intro S; cbn [ins].
  - constructor; constructor.
  - destruct (Qceqb x z) eqn:E1; [exact S|]. destruct (Qcltb x z) eqn:E2.
    + inversion S as [|? ? Sr Fr]; subst. apply Qcltb_true in E2. constructor; [exact S|].
      constructor; [exact E2|]. rewrite Forall_forall in *. intros w Hw. apply Qclt_trans with z; [exact E2|apply Fr; exact Hw].
    + inversion S as [|? ? Sr Fr]; subst. apply Qcltb_false in E2. apply Qceqb_false in E1.
      assert (L : (z < x)%Qc). { destruct (Qcle_lt_or_eq _ _ E2) as [L|L]; [exact L|congruence]. }
      constructor; [apply IH; exact Sr|]. rewrite Forall_forall in *. intros w Hw.
      destruct (In_ins _ _ _ Hw) as [->|I]; [exact L|apply Fr; exact I].
Qed.
Lemma sort_set_inc l : inc (sort_set l).
Proof.
  unfold sort_set. assert (G : forall acc, inc acc -> inc (fold_left (fun acc x => ins x acc) l acc)).
  { induction l as [|x r IH]; intros acc S; cbn [fold_left]; [exact S|]. apply IH. apply ins_inc. exact S. }
  apply G. constructor.
Qed.

Lemma inc_nth_lt l : inc l -> forall i j, i < j -> j < List.length l -> (nth i l 0 < nth j l 0)%Qc.
Proof.
  induction 1 as [|a r S IH F]; intros i j Hij Hj; [cbn in Hj; lia|].
  destruct j as [|j]; [lia|]. cbn [List.length] in Hj. destruct i as [|i]; cbn [nth].
  - rewrite Forall_forall in F. apply F. apply nth_In. lia.
  - apply IH; lia.
Qed.
Lemma inc_nth_inj l : inc l -> forall i j, i < List.length l -> j < List.length l ->
  nth i l 0%Qc = nth j l 0%Qc -> i = j.
Proof.
  intros S i j Hi Hj E. destruct (Nat.lt_trichotomy i j) as [L|[L|L]]; [|exact L|].
  - pose proof (inc_nth_lt l S i j L Hj) as H. rewrite E in H. exfalso. exact (Qclt_not_eq _ _ H eq_refl).
  - pose proof (inc_nth_lt l S j i L Hi) as H. rewrite E in H. exfalso. exact (Qclt_not_eq _ _ H eq_refl).
Qed.
Lemma inc_nth_lt_inv l : inc l -> forall i j, i < List.length l -> j < List.length l ->
  (nth i l 0 < nth j l 0)%Qc -> i < j.
Proof.
  intros S i j Hi Hj H. destruct (Nat.lt_trichotomy i j) as [L|[L|L]]; [exact L| |].
  - subst. exfalso. exact (Qclt_not_eq _ _ H eq_refl).
  - pose proof (inc_nth_lt l S j i L Hi) as H'. exfalso.
    exact (Qclt_not_eq _ _ (Qclt_trans _ _ _ H H') eq_refl).
Qed.

Lemma nth_idx x l : idx x l < List.length l -> nth (idx x l) l 0%Qc = x.
Proof.
  induction l as [|y r IH]; cbn [idx List.length]; [lia|].
  destruct (Qceqb x y) eqn:E; cbn [nth].
  - intros _. apply Qceqb_true in E. symmetry. exact E.
  - intro H. apply IH. lia.
Qed.
Lemma idx_le x l : idx x l <= List.length l.
Proof. induction l as [|y r IH]; cbn [idx List.length]; [lia|]. destruct (Qceqb x y); lia. Qed.
Lemma idx_nth l : inc l -> forall j, j < List.length l -> idx (nth j l 0%Qc) l = j.
Proof.
  intros S j Hj. pose proof (idx_le (nth j l 0%Qc) l) as Le.
  assert (Hlt : idx (nth j l 0%Qc) l < List.length l).
  { clear S Le. revert j Hj. induction l as [|y r IH]; intros j Hj; cbn [List.length] in *; [lia|].
    cbn [idx]. destruct j as [|j]; cbn [nth].
    - replace (Qceqb y y) with true by (symmetry; apply Qceqb_true; reflexivity). lia.
    - destruct (Qceqb (nth j r 0%Qc) y); [lia|]. specialize (IH j). lia. }
  apply (inc_nth_inj l S); [exact Hlt|exact Hj|]. apply nth_idx. exact Hlt.
Qed.

Lemma inc_tail a l : inc (a :: l) -> inc l.
Proof. intro S. inversion S; assumption. Qed.
Lemma inc_head_lt a l j : inc (a :: l) -> j < List.length l -> (a < nth j l 0)%Qc.
Proof. intros S Hj. inversion S as [|? ? _ F]; subst. rewrite Forall_forall in F. apply F. apply nth_In. exact Hj. Qed.

Lemma pairs_cons a b r : pairs (a :: b :: r) = (a, b) :: pairs (b :: r).
Proof. reflexivity. Qed.
Lemma lookup_cons k k' v d : lookup k ((k', v) :: d) = if Qceqb k k' then Some v else lookup k d.
Proof. reflexivity. Qed.
Lemma Qceqb_refl x : Qceqb x x = true.
Proof. apply Qceqb_true. reflexivity. Qed.
Lemma nth_S {A} j (a : A) l d : nth (S j) (a :: l) d = nth j l d.
Proof. reflexivity. Qed.
Lemma nth_O {A} (a : A) l d : nth 0 (a :: l) d = a.
Proof. reflexivity. Qed.

Lemma lookup_next l : inc l -> forall j, S j < List.length l ->
  lookup (nth j l 0%Qc) (pairs l) = Some (nth (S j) l 0%Qc).
Proof.
  induction l as [|a r IH]; intros Hs j Hj; [cbn in Hj; lia|].
  destruct r as [|b r']; [cbn in Hj; lia|]. rewrite pairs_cons, lookup_cons.
  destruct j as [|j].
  - rewrite !nth_S, !nth_O, Qceqb_refl. reflexivity.
  - rewrite (nth_S (S j)), (nth_S j a).
    replace (Qceqb (nth j (b :: r') 0%Qc) a) with false.
    + apply (IH (inc_tail _ _ Hs)). cbn [List.length] in *. lia.
    + symmetry. apply Qceqb_false. intro E.
      pose proof (inc_head_lt a (b :: r') j Hs ltac:(cbn [List.length] in *; lia)) as H.
      rewrite E in H. exact (Qclt_not_eq _ _ H eq_refl).
Qed.
Lemma lookup_prev l : inc l -> forall j, S j < List.length l ->
  lookup (nth (S j) l 0%Qc) (map (fun p => (snd p, fst p)) (pairs l)) = Some (nth j l 0%Qc).
Proof.
  induction l as [|a r IH]; intros Hs j Hj; [cbn in Hj; lia|].
  destruct r as [|b r']; [cbn in Hj; lia|]. rewrite pairs_cons. cbn [map fst snd]. rewrite lookup_cons.
  rewrite (nth_S j a). destruct j as [|j].
  - rewrite !nth_O, Qceqb_refl. reflexivity.
  - rewrite (nth_S j b), (nth_S j a).
    replace (Qceqb (nth j r' 0%Qc) b) with false.
    + rewrite <- (nth_S j b r'). apply (IH (inc_tail _ _ Hs) j). cbn [List.length] in *. lia.
    + symmetry. apply Qceqb_false. intro E.
      pose proof (inc_head_lt b r' j (inc_tail _ _ Hs) ltac:(cbn [List.length] in *; lia)) as H.
      rewrite E in H. exact (Qclt_not_eq _ _ H eq_refl).
Qed.

Lemma hd_nth (l : list Qc) : hd 0%Qc l = nth 0 l 0%Qc.
Proof. destruct l; reflexivity. Qed.
Lemma last_nth (l : list Qc) : last l 0%Qc = nth (List.length l - 1) l 0%Qc.
Proof.
  induction l as [|a r IH]; [reflexivity|]. destruct r as [|b r']; [reflexivity|].
  change (last (a :: b :: r') 0%Qc) with (last (b :: r') 0%Qc). rewrite IH. cbn [List.length].
  replace (S (S (List.length r')) - 1) with (S (S (List.length r') - 1)) by lia. reflexivity.
Qed.

(* ---- the coordinate lists of a problem ---- *)
Lemma xcoords_inc inp : inc (xcoords (definecoords inp)).
Proof. apply sort_set_inc. Qed.
Lemma ycoords_inc inp : inc (ycoords (definecoords inp)).
Proof. apply sort_set_inc. Qed.
