(* C08 facts, part 6: the whole shape formula (cell-selection variables, one enforce_bb per
   box, per-cell at-most-one over the boxes): its models projected on the per-box cell
   variables are exactly the k-box single-trunk orthogons - every k >= 1, all grid sizes. *)
From Coq Require Import ZArith List Bool String Arith Lia FinFun.
From FrameModel Require Import Num.QcTac PB.Expr PB.Cnf PB.Robdd PB.Codify PB.Sat PB.SatFacts
  RectSearch.Coords RectSearch.CoordsFacts RectSearch.Names RectSearch.Encode RectSearch.EncodeFacts
  RectSearch.GridFacts RectSearch.Shapes RectSearch.BoxFacts RectSearch.AttachFacts.
Import ListNotations.
Local Open Scope nat_scope.

(* ---- lists ---- *)
Lemma filter_one {A} (P : A -> bool) l y : In y l -> P y = true -> 1 <= List.length (filter P l).
Proof.
  induction l as [|a l IH]; intros I Py; [destruct I|]. cbn [filter]. destruct I as [->|I].
  - rewrite Py. cbn. lia.
  - specialize (IH I Py). destruct (P a); cbn [List.length]; lia.
Qed.
Lemma filter_two {A} (P : A -> bool) l x y : In x l -> In y l -> x <> y -> P x = true -> P y = true ->
  2 <= List.length (filter P l).
Proof.
  induction l as [|a l IH]; intros Ix Iy Ne Px Py; [destruct Ix|]. cbn [filter].
  destruct Ix as [->|Ix], Iy as [->|Iy].
  - congruence.
  - rewrite Px. cbn [List.length]. pose proof (filter_one P l y Iy Py). lia.
  - rewrite Py. cbn [List.length]. pose proof (filter_one P l x Ix Px). lia.
  - specialize (IH Ix Iy Ne Px Py). destruct (P a); cbn [List.length]; lia.
Qed.
Lemma filter_none {A} (P : A -> bool) l : (forall y, In y l -> P y = false) -> filter P l = [].
Proof.
  induction l as [|a l IH]; intro H; [reflexivity|]. cbn [filter]. rewrite (H a (or_introl eq_refl)).
  apply IH. intros y Hy. apply H. right. exact Hy.
Qed.
Lemma filter_le_one {A} (P : A -> bool) l : NoDup l ->
  (forall x y, In x l -> In y l -> P x = true -> P y = true -> x = y) -> List.length (filter P l) <= 1.
Proof.
  induction 1 as [|a l Na Nd IH]; intro H; [cbn; lia|]. cbn [filter]. destruct (P a) eqn:Pa.
  - rewrite filter_none; [cbn; lia|]. intros y Hy. destruct (P y) eqn:Py; [|reflexivity].
    exfalso. apply Na. rewrite (H a y (or_introl eq_refl) (or_intror Hy) Pa Py). exact Hy.
  - apply IH. intros x y Hx Hy. apply H; right; assumption.
Qed.

Lemma pairwise_nth {A} (g : A -> A -> bool) d l :
  pairwise g l = true <-> forall i j, i < j -> j < List.length l -> g (nth i l d) (nth j l d) = true.
Proof.
  induction l as [|a l IH]; cbn [pairwise].
  - split; [intros _ i j _ H; cbn in H; lia|reflexivity].
  - rewrite andb_true_iff, forallb_forall, IH. split.
    + intros [H1 H2] i j Hij Hj. cbn [List.length] in Hj. destruct j as [|j]; [lia|]. destruct i as [|i]; cbn [nth].
      * apply H1. apply nth_In. lia.
      * apply H2; lia.
    + intro H. split.
      * intros x Hx. destruct (In_nth _ _ d Hx) as [j [Hj <-]]. apply (H 0 (S j)); cbn [List.length]; lia.
      * intros i j Hij Hj. apply (H (S i) (S j)); cbn [List.length]; lia.
Qed.
Lemma forallb_nth {A} (g : A -> bool) d l :
  forallb g l = true <-> forall i, i < List.length l -> g (nth i l d) = true.
Proof.
  rewrite forallb_forall. split.
  - intros H i Hi. apply H. apply nth_In. exact Hi.
  - intros H x Hx. destruct (In_nth _ _ d Hx) as [j [Hj <-]]. apply H. exact Hj.
Qed.

Lemma shape_rects_iff nx ny Rs : shape_rects nx ny Rs = true <->
  (forall i, i < List.length Rs -> rect_okb nx ny (nth i Rs R0) = true) /\
  (forall i j, i < j -> j < List.length Rs -> disjointb (nth i Rs R0) (nth j Rs R0) = true) /\
  1 <= List.length Rs /\
  (forall i, 0 < i -> i < List.length Rs -> abutsb (nth 0 Rs R0) (nth i Rs R0) = true).
Proof.
  unfold shape_rects. rewrite !andb_true_iff, (forallb_nth _ R0), (pairwise_nth _ R0).
  destruct Rs as [|T Bs].
  - split; [intros [_ H]; discriminate H|intros (_ & _ & H & _); cbn in H; lia].
  - rewrite (forallb_nth _ R0). cbn [List.length nth]. split.
    + intros [[H1 H2] H3]. repeat split; try assumption; try lia.
      intros i Hi Hl. destruct i as [|i]; [lia|]. apply H3. lia.
    + intros (H1 & H2 & _ & H4). repeat split; try assumption.
      intros i Hi. apply (H4 (S i)); lia.
Qed.

Lemma list_choice (P : nat -> irect -> Prop) k : (forall i, i < k -> exists R, P i R) ->
  exists Rs, List.length Rs = k /\ forall i, i < k -> P i (nth i Rs R0).
Proof.
  induction k as [|k IH]; intro H.
  - exists []. split; [reflexivity|intros; lia].
  - destruct IH as [Rs [L HR]]; [intros i Hi; apply H; lia|]. destruct (H k ltac:(lia)) as [R HRk].
    exists (Rs ++ [R]). split; [rewrite app_length; cbn; lia|]. intros i Hi.
    destruct (Nat.eq_dec i k) as [->|Ne].
    + rewrite app_nth2 by lia. rewrite L, Nat.sub_diag. exact HRk.
    + rewrite app_nth1 by lia. apply HR. lia.
Qed.

Lemma rect_disjoint nx ny R R' : rect_okb nx ny R = true -> rect_okb nx ny R' = true ->
  (forall c r, c < nx -> r < ny -> in_rect R c r = true -> in_rect R' c r = false) -> disjointb R R' = true.
Proof.
  intros O1 O2 H. destruct (disjointb R R') eqn:E; [reflexivity|]. exfalso.
  unfold rect_okb, disjointb in *. b2p'.
  specialize (H (Nat.max (c0 R) (c0 R')) (Nat.max (r0 R) (r0 R')) ltac:(lia) ltac:(lia)).
  unfold in_rect in H. rewrite !andb_true_iff, !andb_false_iff, !Nat.leb_le, !Nat.leb_gt in H. lia.
Qed.
Lemma disjoint_cells R R' c r : disjointb R R' = true -> in_rect R c r = true -> in_rect R' c r = false.
Proof. unfold disjointb, in_rect. intros D I. b2p'. lia. Qed.
Lemma disjointb_sym R R' : disjointb R R' = disjointb R' R.
Proof. unfold disjointb. destruct (c1 R <? c0 R'), (c1 R' <? c0 R), (r1 R <? r0 R'), (r1 R' <? r0 R); reflexivity. Qed.

Lemma VCell_NoDup b k : NoDup (map (fun i => VCell i b) (seq 0 k)).
Proof.
  apply FinFun.Injective_map_NoDup; [|apply seq_NoDup]. intros x y E. injection E as E. exact E.
Qed.

Section Shapes.
  Variable inp : problem.
  Hypothesis FG : full_grid inp = true.
  Variable k : nat.
  Hypothesis Hk : 1 <= k.
  Notation C := (definecoords inp).
  Notation n := (List.length inp).
  Notation nx := (ncols (definecoords inp)).
  Notation ny := (nrows (definecoords inp)).
  Notation cb := (colb inp).
  Notation rb := (rowb inp).

  Definition shape_sem (f : rv -> bool) : Prop :=
    (forall b, b < n -> (forall i, i < k -> f (VCell i b) = true -> f (VSel b) = true) /\
                        ((forall i, i < k -> f (VCell i b) = false) -> f (VSel b) = false)) /\
    (exists b, b < n /\ f (VSel b) = true) /\
    (forall i, i < k -> box_sem inp i f /\ (i <> 0 -> sel_sem Repaired inp i 0 f)) /\
    (forall b, b < n -> List.length (filter f (map (fun i => VCell i b) (seq 0 k))) <= 1).

  Lemma cellsel_sem a b : posts_hold a (cellsel k b) <->
    (forall i, i < k -> a (name (VCell i b)) = true -> a (name (VSel b)) = true) /\
    ((forall i, i < k -> a (name (VCell i b)) = false) -> a (name (VSel b)) = false).
  Proof.
    unfold cellsel. rewrite posts_hold_app, posts_hold_map_seq, posts_hold_cons, posts_hold_nil.
    rewrite imply_holds, lv_ngt, negb_true_iff, forallb_map', forallb_forall.
    apply and_iff_both.
    - split; intros H i Hi; [apply imp1; apply H; lia|apply imp1; apply H; lia].
    - split.
      + intros [H _] Hall. apply H. intros i Hi. apply in_seq in Hi. rewrite lv_ngt, negb_true_iff. apply Hall. lia.
      + intro H. split; [|exact I]. intro Hall. apply H. intros i Hi.
        specialize (Hall i ltac:(apply in_seq; lia)). rewrite lv_ngt, negb_true_iff in Hall. exact Hall.
  Qed.

  Lemma shape_posts_sem a : posts_hold a (shape_posts Repaired inp k) <-> shape_sem (fun v => a (name v)).
  Proof.
    unfold shape_posts, shape_posts_pre, shape_posts_post, shape_sem.
    rewrite !posts_hold_app, posts_hold_cons, posts_hold_nil. change (blocks C) with (seq 0 n).
    rewrite !posts_hold_flat_seq, posts_hold_map_seq, atleast1_holds.
    split.
    - intros [[H1 [H2 _]] [H3 H4]]. split; [|split; [|split]].
      + intros b Hb. apply cellsel_sem. apply H1. lia.
      + destruct H2 as [v [Hv Av]]. apply in_map_iff in Hv. destruct Hv as [b [<- Hb]]. apply in_seq in Hb.
        exists b. split; [lia|exact Av].
      + intros i Hi. specialize (H3 i ltac:(lia)). unfold enforce_bb in H3. rewrite posts_hold_app in H3.
        destruct H3 as [B S]. split; [apply (box_posts_sem inp FG i a); exact B|].
        intro Ne. apply (selector_posts_sem Repaired inp i 0 a Ne). exact S.
      + intros b Hb. specialize (H4 b ltac:(lia)). unfold cell_amo in H4.
        rewrite <- (map_map (fun i => VCell i b) pos), amo_holds in H4. exact H4.
    - intros (H1 & [b [Hb Ab]] & H3 & H4). split; [split; [|split; [|exact I]]|split].
      + intros b' Hb'. apply cellsel_sem. apply H1. lia.
      + exists (VSel b). split; [apply in_map; apply in_seq; lia|exact Ab].
      + intros i Hi. destruct (H3 i ltac:(lia)) as [B S]. unfold enforce_bb. rewrite posts_hold_app. split.
        * apply (box_posts_sem inp FG i a). exact B.
        * destruct (Nat.eq_dec i 0) as [->|Ne]; [unfold selector_posts; cbn; constructor|].
          apply (selector_posts_sem Repaired inp i 0 a Ne). apply S. exact Ne.
      + intros b' Hb'. unfold cell_amo. rewrite <- (map_map (fun i => VCell i b') pos), amo_holds. apply H4. lia.
  Qed.

  (* from a model to the rectangles *)
  Theorem shape_sem_shape f : shape_sem f -> shape k inp (fun i b => f (VCell i b)).
  Proof.
    intros (_ & _ & H3 & H4).
    destruct (list_choice (fun i R => rect_okb nx ny R = true /\ is_rect_of inp f i R) k) as [Rs [L HR]].
    { intros i Hi. destruct (H3 i Hi) as [B _]. destruct (box_sem_rect inp FG i f B) as [R [Ok HRi]].
      exists R. split; [exact Ok|exact HRi]. }
    assert (NoCommon : forall i j, i < k -> j < k -> i <> j -> forall c r, c < nx -> r < ny ->
              in_rect (nth i Rs R0) c r = true -> in_rect (nth j Rs R0) c r = false).
    { intros i j Hi Hj Ne c r Hc Hr I. destruct (cell_at inp FG c r Hc Hr) as [b [Hb [E1 E2]]].
      destruct (HR i Hi) as [_ Ri]. destruct (HR j Hj) as [_ Rj].
      specialize (Ri b Hb). specialize (Rj b Hb). rewrite E1, E2 in Ri, Rj.
      destruct (in_rect (nth j Rs R0) c r) eqn:Ij; [|reflexivity]. exfalso.
      pose proof (filter_two f (map (fun i => VCell i b) (seq 0 k)) (VCell i b) (VCell j b)) as F2.
      specialize (H4 b Hb).
      assert (2 <= List.length (filter f (map (fun i0 : nat => VCell i0 b) (seq 0 k)))); [|lia].
      apply F2; [apply in_map_iff; exists i; split; [reflexivity|apply in_seq; lia]
                |apply in_map_iff; exists j; split; [reflexivity|apply in_seq; lia]
                |intro E; injection E as E; exact (Ne E)|congruence|congruence]. }
    exists Rs. split; [exact L|]. split.
    - apply shape_rects_iff. rewrite L. split; [|split; [|split]].
      + intros i Hi. exact (proj1 (HR i Hi)).
      + intros i j Hij Hj. apply (rect_disjoint nx ny); [exact (proj1 (HR i ltac:(lia)))|exact (proj1 (HR j Hj))|].
        apply NoCommon; lia.
      + exact Hk.
      + intros i Hi Hl. destruct (H3 i Hl) as [_ S]. specialize (S ltac:(lia)).
        destruct (HR 0 ltac:(lia)) as [OkT RT]. destruct (HR i Hl) as [OkB RB].
        apply (attach_sound inp FG i ltac:(lia) f (nth 0 Rs R0) (nth i Rs R0) RT RB S OkT OkB).
        intros b Hb Fb. rewrite (RT b Hb). rewrite (RB b Hb) in Fb.
        destruct (cell_ok_b inp FG b Hb) as [Hc Hr _ _ _ _].
        apply (NoCommon i 0 Hl ltac:(lia) ltac:(lia) _ _ Hc Hr Fb).
    - intros i b Hi Hb. unfold sigma_of. exact (proj2 (HR i Hi) b Hb).
  Qed.

  (* from the rectangles to a model *)
  Definition shape_asg (Rs : list irect) (sigma : nat -> nat -> bool) (v : rv) : bool :=
    match v with
    | VCell i b => sigma i b
    | VSel b => selected k sigma b
    | VxL i j => j <=? S (c1 (nth i Rs R0))
    | VxB i j => c0 (nth i Rs R0) <=? j
    | VyL i j => j <=? S (r1 (nth i Rs R0))
    | VyB i j => r0 (nth i Rs R0) <=? j
    | VDir i d => dir_eqb d (dir_of (nth 0 Rs R0) (nth i Rs R0))
    end.

  Theorem shape_shape_sem Rs sigma : List.length Rs = k -> shape_rects nx ny Rs = true ->
    (forall i b, i < k -> b < n -> sigma i b = sigma_of C inp Rs i b) -> shape_sem (shape_asg Rs sigma).
  Proof.
    intros L SR HS. apply shape_rects_iff in SR. rewrite L in SR. destruct SR as (Ok & Dj & _ & Ab).
    assert (IR : forall i, i < k -> is_rect_of inp (shape_asg Rs sigma) i (nth i Rs R0)).
    { intros i Hi b Hb. cbn [shape_asg]. rewrite (HS i b Hi Hb). reflexivity. }
    unfold shape_sem. split; [|split; [|split]].
    - intros b Hb. cbn [shape_asg]. unfold selected. split.
      + intros i Hi Si. apply existsb_exists. exists i. split; [apply in_seq; lia|exact Si].
      + intro Hall. destruct (existsb (fun i => sigma i b) (seq 0 k)) eqn:E; [|reflexivity].
        apply existsb_exists in E. destruct E as [i [Hi Si]]. apply in_seq in Hi. rewrite Hall in Si by lia. discriminate.
    - pose proof (Ok 0 ltac:(lia)) as O0. unfold rect_okb in O0. b2p'.
      destruct (cell_at inp FG (c0 (nth 0 Rs R0)) (r0 (nth 0 Rs R0)) ltac:(lia) ltac:(lia)) as [b [Hb [E1 E2]]].
      exists b. split; [exact Hb|]. cbn [shape_asg]. unfold selected. apply existsb_exists.
      exists 0. split; [apply in_seq; lia|]. rewrite (HS 0 b ltac:(lia) Hb). unfold sigma_of.
      change (col C (nth b inp cell0)) with (cb b). change (row C (nth b inp cell0)) with (rb b).
      rewrite E1, E2. unfold in_rect. b2p'. lia.
    - intros i Hi. split.
      + apply (rect_box_sem inp FG i (nth i Rs R0)); [exact (Ok i Hi)|exact (IR i Hi)|..]; intros; reflexivity.
      + intro Ne. apply (attach_complete inp FG i Ne (shape_asg Rs sigma) (nth 0 Rs R0) (nth i Rs R0));
          [exact (IR 0 ltac:(lia))|exact (IR i Hi)|exact (Ok 0 ltac:(lia))|exact (Ok i Hi)|apply Ab; lia|].
        intros d. reflexivity.
    - intros b Hb. apply filter_le_one; [apply VCell_NoDup|].
      intros x y Hx Hy Px Py. apply in_map_iff in Hx, Hy. destruct Hx as [i [<- Hi]]. destruct Hy as [j [<- Hj]].
      apply in_seq in Hi, Hj. cbn [shape_asg] in Px, Py. destruct (Nat.eq_dec i j) as [->|Ne]; [reflexivity|]. exfalso.
      rewrite (HS i b ltac:(lia) Hb) in Px. rewrite (HS j b ltac:(lia) Hb) in Py. unfold sigma_of in Px, Py.
      assert (D : disjointb (nth i Rs R0) (nth j Rs R0) = true).
      { destruct (Nat.lt_ge_cases i j); [apply Dj; lia|]. rewrite disjointb_sym. apply Dj; lia. }
      rewrite (disjoint_cells _ _ _ _ D Px) in Py. discriminate.
  Qed.

  Lemma shape_sem_ext f g : (forall v, f v = g v) -> shape_sem f -> shape_sem g.
  Proof.
    intros E (H1 & [b [Hb H2]] & H3 & H4). unfold shape_sem. split; [|split; [|split]].
    - intros b0 Hb0. destruct (H1 b0 Hb0) as [A B]. split.
      + intros i Hi. rewrite <- !E. apply A. exact Hi.
      + intro Hall. rewrite <- E. apply B. intros i Hi. rewrite E. apply Hall. exact Hi.
    - exists b. split; [exact Hb|]. rewrite <- E. exact H2.
    - intros i Hi. destruct (H3 i Hi) as [B S]. split.
      + destruct B as (B1 & B2 & B3 & B4 & [b0 [Hb0 B5]]). unfold box_sem. split; [|split; [|split; [|split]]].
        * intros b1 Hb1. rewrite <- !E. apply B1. exact Hb1.
        * intros j Hj. rewrite <- !E. apply B2. exact Hj.
        * intros j Hj. rewrite <- !E. apply B3. exact Hj.
        * intros b1 Hb1. rewrite <- !E. apply B4. exact Hb1.
        * exists b0. split; [exact Hb0|]. rewrite <- E. exact B5.
      + intro Ne. destruct (S Ne) as (A1 & [v [Hv A2]] & A3 & A4). unfold sel_sem. split; [|split; [|split]].
        * rewrite <- (filter_ext f g E). exact A1.
        * exists v. split; [exact Hv|]. rewrite <- E. exact A2.
        * intros b1 d Hb1 Ob. rewrite <- !E. apply A3; assumption.
        * intros b1 b2 d Hb1 Hb2 Nb. rewrite <- !E. apply A4; assumption.
    - intros b0 Hb0. rewrite <- (filter_ext f g E). apply H4. exact Hb0.
  Qed.

  Theorem shapes_exact_posts sigma :
    (exists a, (forall i b, i < k -> b < n -> a (name (VCell i b)) = sigma i b) /\
               posts_hold a (shape_posts Repaired inp k)) <-> shape k inp sigma.
  Proof.
    split.
    - intros [a [Ha Hp]]. apply shape_posts_sem in Hp. apply shape_sem_shape in Hp.
      destruct Hp as [Rs [L [SR HS]]]. exists Rs. split; [exact L|]. split; [exact SR|].
      intros i b Hi Hb. rewrite <- (Ha i b Hi Hb). apply HS; assumption.
    - intros [Rs [L [SR HS]]]. exists (asg_of (shape_asg Rs sigma)). split.
      + intros i b _ _. rewrite asg_of_name. reflexivity.
      + apply shape_posts_sem. apply (shape_sem_ext (shape_asg Rs sigma)).
        * intro v. symmetry. apply asg_of_name.
        * exact (shape_shape_sem Rs sigma L SR HS).
  Qed.
End Shapes.
