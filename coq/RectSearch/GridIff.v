(* C08 facts, part 11: the decidable hypothesis [full_grid] of the theorems is EXACTLY "the input is a
   rectangular grid of cells": full_grid inp = true iff there are strictly increasing coordinate lists
   xs, ys (at least one column and one row) such that inp lists, in some order, the cells of the grid on
   xs, ys.  (One direction is GridGen.full_grid_general; here the converse.) *)
From Coq Require Import ZArith List Bool String Arith Lia Sorted Permutation.
From FrameModel Require Import Num.QcTac PB.Expr PB.Cnf PB.Sat RectSearch.Coords RectSearch.CoordsFacts
  RectSearch.Names RectSearch.Encode RectSearch.GridFacts RectSearch.GridGen.
Import ListNotations.
Local Open Scope nat_scope.

Lemma geom_eq_dec : forall a b : geom, {a = b} + {a <> b}.
Proof. unfold geom. repeat decide equality; apply Qc_eq_dec. Qed.

Section Unique.
  Variables xs ys : list Qc.
  Hypothesis Sx : inc xs.
  Hypothesis Sy : inc ys.

  Lemma on_grid_at_pos g i j : on_grid xs ys g -> S i < List.length xs -> S j < List.length ys ->
    (at_pos xs ys i j g = true <-> g = cell_geom xs ys i j).
  Proof.
    intros (i' & j' & Hi' & Hj' & ->) Hi Hj. rewrite (at_pos_cell xs ys Sx Sy i' j' i j) by assumption. split.
    - intro H. apply andb_prop in H. destruct H as [H1 H2]. apply Nat.eqb_eq in H1, H2. subst. reflexivity.
    - intro E. unfold cell_geom in E. injection E as E1 E2 _ _.
      assert (i' = i) by (apply (inc_nth_inj xs Sx); [lia|lia|exact E1]).
      assert (j' = j) by (apply (inc_nth_inj ys Sy); [lia|lia|exact E2]).
      subst. rewrite !Nat.eqb_refl. reflexivity.
  Qed.

  Lemma count_occ_at_pos gl i j : Forall (on_grid xs ys) gl -> S i < List.length xs -> S j < List.length ys ->
    count_occ geom_eq_dec gl (cell_geom xs ys i j) = List.length (filter (at_pos xs ys i j) gl).
  Proof.
    intros F Hi Hj. induction gl as [|h t IH]; [reflexivity|].
    inversion F as [|? ? Fh Ft]; subst. specialize (IH Ft). cbn [filter].
    pose proof (on_grid_at_pos h i j Fh Hi Hj) as Hp.
    destruct (at_pos xs ys i j h) eqn:E.
    - rewrite (count_occ_cons_eq geom_eq_dec t (proj1 Hp eq_refl)), IH. reflexivity.
    - rewrite (count_occ_cons_neq geom_eq_dec t); [exact IH|]. intro Eq. apply Hp in Eq. discriminate Eq.
  Qed.

  Lemma grid_on_In gl g : grid_on xs ys gl -> (In g gl <-> on_grid xs ys g).
  Proof.
    intros [F Cn]. split.
    - intro I. rewrite Forall_forall in F. exact (F g I).
    - intros (i & j & Hi & Hj & ->). specialize (Cn i j Hi Hj).
      destruct (filter (at_pos xs ys i j) gl) as [|h t] eqn:E; [discriminate Cn|].
      assert (I : In h (filter (at_pos xs ys i j) gl)) by (rewrite E; left; reflexivity).
      apply filter_In in I. destruct I as [I P]. rewrite Forall_forall in F.
      apply (on_grid_at_pos h i j (F h I) Hi Hj) in P. subst h. exact I.
  Qed.

  (* two lists that are grids on the same coordinate lists are permutations of each other *)
  Theorem grid_on_unique gl gl' : grid_on xs ys gl -> grid_on xs ys gl' -> Permutation gl gl'.
  Proof.
    intros G G'. apply (Permutation_count_occ geom_eq_dec). intro g.
    destruct (in_dec geom_eq_dec g gl) as [I|N].
    - destruct (proj1 (grid_on_In gl g G) I) as (i & j & Hi & Hj & ->).
      rewrite !count_occ_at_pos by (assumption || apply G || apply G').
      rewrite (proj2 G i j Hi Hj), (proj2 G' i j Hi Hj). reflexivity.
    - assert (N' : ~ In g gl') by (intro I'; apply N; apply (grid_on_In gl g G); apply (grid_on_In gl' g G'); exact I').
      apply (count_occ_not_In geom_eq_dec) in N, N'. rewrite N, N'. reflexivity.
  Qed.
End Unique.

(* a full_grid is a grid on the coordinate lists definecoords computes *)
Theorem full_grid_is_grid inp : full_grid inp = true ->
  is_grid (xcoords (definecoords inp)) (ycoords (definecoords inp)) inp.
Proof.
  intro FG. set (C := definecoords inp). set (xs := xcoords C). set (ys := ycoords C).
  pose proof (xcoords_inc inp) as Sx. pose proof (ycoords_inc inp) as Sy. fold C in Sx, Sy. fold xs in Sx. fold ys in Sy.
  pose proof (len_xs inp FG) as Lx. pose proof (len_ys inp FG) as Ly. fold C in Lx, Ly. fold xs in Lx. fold ys in Ly.
  destruct (fg_parts inp FG) as (_ & Cn & Nx & Ny). fold C in Cn, Nx, Ny.
  assert (CF : forall c, In c inp -> exists i j, i < ncols C /\ j < nrows C /\ col C c = i /\ row C c = j /\
                                    geom_of c = cell_geom xs ys i j).
  { intros c Hc. destruct (In_nth _ _ cell0 Hc) as [b [Hb Eb]].
    destruct (cell_ok_b inp FG b Hb) as [H1 H2 X1 X2 Y1 Y2]. unfold cel in *. rewrite Eb in *.
    exists (colb inp b), (rowb inp b). unfold colb, rowb, cel in *. rewrite Eb in *. fold C in H1, H2, X1, X2, Y1, Y2 |- *.
    repeat split; try assumption. unfold geom_of, cell_geom. fold xs in X1, X2. fold ys in Y1, Y2. rewrite X1, X2, Y1, Y2. reflexivity. }
  unfold is_grid. apply (grid_on_unique xs ys Sx Sy); [|apply grid_cells_grid_on; assumption].
  split.
  - apply Forall_forall. intros g Hg. apply in_map_iff in Hg. destruct Hg as [c [<- Hc]].
    destruct (CF c Hc) as (i & j & Hi & Hj & _ & _ & E). exists i, j. repeat split; try lia. exact E.
  - intros i j Hi Hj. rewrite filter_map_swap, map_length. rewrite <- (Cn i j ltac:(lia) ltac:(lia)). unfold count_at.
    f_equal. apply filter_ext_in. intros c Hc. destruct (CF c Hc) as (i' & j' & Hi' & Hj' & -> & -> & E).
    rewrite E, (at_pos_cell xs ys Sx Sy) by lia. reflexivity.
Qed.

Theorem full_grid_iff inp : full_grid inp = true <->
  exists xs ys, inc xs /\ inc ys /\ 2 <= List.length xs /\ 2 <= List.length ys /\ is_grid xs ys inp.
Proof.
  split.
  - intro FG. exists (xcoords (definecoords inp)), (ycoords (definecoords inp)).
    pose proof (len_xs inp FG). pose proof (len_ys inp FG). destruct (fg_parts inp FG) as (_ & _ & Nx & Ny).
    repeat split; [apply xcoords_inc|apply ycoords_inc|lia|lia|exact (full_grid_is_grid inp FG)].
  - intros (xs & ys & Sx & Sy & Lx & Ly & Gd). exact (proj1 (full_grid_general xs ys inp Sx Sy Lx Ly Gd)).
Qed.
