(* C08 model, part 1: the input problem of tools/rect/rect.py and [definecoords]
   (tools/rect/rect.py:325-366): blocks, the sorted coordinate lists and the
   prev/next maps. *)
From Coq Require Import ZArith List Bool Arith Lia.
From FrameModel Require Import Num.QcTac.
Import ListNotations.
Local Open Scope nat_scope.

(* InputBox = (x1, y1, x2, y2, p) *)
Record cell := mkCell { cx1 : Qc; cy1 : Qc; cx2 : Qc; cy2 : Qc; cp : Qc }.
Definition problem := list cell.
Definition cell0 : cell := mkCell 0 0 0 0 0.

(* sorted(set(...)): insertion into a strictly increasing list, duplicates dropped *)
Fixpoint ins (x : Qc) (l : list Qc) : list Qc :=
  match l with
  | [] => [x]
  | y :: r => if Qceqb x y then l else if Qcltb x y then x :: l else y :: ins x r
  end.
Definition sort_set (l : list Qc) : list Qc := fold_left (fun acc x => ins x acc) l [].

(* for i in range(1, len(c)): next[c[i-1]] = c[i]; prev[c[i]] = c[i-1] *)
Fixpoint pairs (l : list Qc) : list (Qc * Qc) :=
  match l with
  | a :: (b :: _) as r => (a, b) :: pairs r
  | _ => []
  end.
Definition dict := list (Qc * Qc).
Fixpoint lookup (k : Qc) (d : dict) : option Qc :=
  match d with
  | [] => None
  | (k', v) :: r => if Qceqb k k' then Some v else lookup k r
  end.
Definition has_key (k : Qc) (d : dict) : bool := match lookup k d with Some _ => true | None => false end.
(* d[k] where the key is known to be present ([has_key] is tested separately) *)
Definition getd (k : Qc) (d : dict) : Qc := match lookup k d with Some v => v | None => k end.

Record coords := mkCoords {
  blocks : list nat;
  xcoords : list Qc;
  ycoords : list Qc;
  prev_x : dict; next_x : dict; prev_y : dict; next_y : dict
}.

Definition definecoords (inp : problem) : coords :=
  let xs := sort_set (flat_map (fun c => [cx1 c; cx2 c]) inp) in
  let ys := sort_set (flat_map (fun c => [cy1 c; cy2 c]) inp) in
  mkCoords (seq 0 (List.length inp)) xs ys
           (map (fun p => (snd p, fst p)) (pairs xs)) (pairs xs)
           (map (fun p => (snd p, fst p)) (pairs ys)) (pairs ys).

(* position of a coordinate in a coordinate list ([length l] if absent) *)
Fixpoint idx (x : Qc) (l : list Qc) : nat :=
  match l with
  | [] => 0
  | y :: r => if Qceqb x y then 0 else S (idx x r)
  end.
Definition mem (x : Qc) (l : list Qc) : bool := idx x l <? List.length l.

(* ---- grids ---- *)
(* the cells of the full grid on the given row and column coordinates, row by row *)
Fixpoint row_cells (y1 y2 : Qc) (xs : list Qc) : list cell :=
  match xs with
  | a :: (b :: _) as r => mkCell a y1 b y2 0 :: row_cells y1 y2 r
  | _ => []
  end.
Fixpoint grid_cells (xs ys : list Qc) : list cell :=
  match ys with
  | a :: (b :: _) as r => row_cells a b xs ++ grid_cells xs r
  | _ => []
  end.
Definition with_occ (cs : list cell) (ps : list Qc) : list cell :=
  map (fun cp => mkCell (cx1 (fst cp)) (cy1 (fst cp)) (cx2 (fst cp)) (cy2 (fst cp)) (snd cp)) (combine cs ps).

(* column and row index of a cell w.r.t. the computed coordinate lists *)
Definition col (C : coords) (c : cell) : nat := idx (cx1 c) (xcoords C).
Definition row (C : coords) (c : cell) : nat := idx (cy1 c) (ycoords C).
Definition ncols (C : coords) : nat := List.length (xcoords C) - 1.
Definition nrows (C : coords) : nat := List.length (ycoords C) - 1.

(* [inp] is a full rectangular grid (in any order): every cell spans consecutive
   coordinates in both directions, and every (column, row) pair carries exactly one cell *)
Definition cell_ok (C : coords) (c : cell) : bool :=
  Qceqb (cx2 c) (nth (S (col C c)) (xcoords C) (cx1 c)) && (S (col C c) <? List.length (xcoords C)) &&
  Qceqb (cy2 c) (nth (S (row C c)) (ycoords C) (cy1 c)) && (S (row C c) <? List.length (ycoords C)).
Definition count_at (C : coords) (inp : problem) (c r : nat) : nat :=
  List.length (filter (fun x => Nat.eqb (col C x) c && Nat.eqb (row C x) r) inp).
Definition full_grid (inp : problem) : bool :=
  let C := definecoords inp in
  forallb (cell_ok C) inp &&
  forallb (fun c => forallb (fun r => Nat.eqb (count_at C inp c r) 1) (seq 0 (nrows C))) (seq 0 (ncols C)) &&
  (1 <=? ncols C) && (1 <=? nrows C).
